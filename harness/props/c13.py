"""C13 — tracks and networks written to file are read back unchanged
(tracklib/io/track_writer.py, track_reader.py, network_writer.py, network_reader.py, core/obs_time.py
__str__/readTimestamp, core/track.py toWKT)."""
import os, itertools, tempfile, shutil
from fractions import Fraction
from engine import Prop

DEFAULT_FMT = "2D/2M/4Y 2h:2m:2s"
ISO_FMT = "4Y-2M-2DT2h:2m:2s"
CODE_LETTERS = "DMYhmsz"
CODES = ["1D", "2D", "1M", "2M", "2Y", "4Y", "1h", "2h", "1m", "2m", "1s", "2s", "1z", "2z", "3z"]
FULL_CODES = {"2D", "2M", "4Y", "2h", "2m", "2s"}
# time formats used for CSV files (print format == read format): all six full-width codes
CSV_FMTS = [DEFAULT_FMT, ISO_FMT, "4Y-2M-2D 2h:2m:2s", "2h:2m:2s 2D/2M/4Y", "4Y2M2D2h2m2s", "2D/2M/4Y 2h:2m:2s.3z",
            "4Y/2M/2D-2h.2m.2s"]
# formats for the print/read correspondence (some are lossy: spec does not apply to those)
TIME_FMTS = CSV_FMTS + ["2D/2M/2Y 2h:2m:2s", "2D/2M/4Y", "2h:2m:2s", "4Y-2M-2DT2h:2m:2s.3zZ", "2D.2M.4Y 2h:2m:2s,2z",
                        "1D/1M/4Y 1h:1m:1s", "2D/2M/4Y 2h:2m:2s.1z", "4Y_2M", "[4Y] (2M) {2D}", "2s2m2h2D2M4Y"]
SRIDS = ["ENU", "GEO", "ECEF"]
NODATA = -999999
# sizes of the long tracks / networks: just below, at and above the powers of two 128 .. 4096 (block sizes of buffered
# writers and readers), and three round numbers
SIZES = [2 ** k + d for k in range(7, 13) for d in (-1, 0, 1)] + [1000, 3000, 5000]


def size_bucket(n):
    return "1-6" if n <= 6 else "7-126" if n < 127 else "127-1000" if n <= 1000 else "1001-2048" if n <= 2048 else "2049-5000"


def hx(s):
    return "".join("%02x" % ord(c) for c in s) if s else "_"


def unhx(t):
    return "" if t == "_" else bytes.fromhex(t).decode("latin-1")


def leap(y):
    return y % 4 == 0 and (y % 100 != 0 or y % 400 == 0)


def mdays(y, m):
    return [31, 29 if leap(y) else 28, 31, 30, 31, 30, 31, 31, 30, 31, 30, 31][m - 1]


def fmt_tokens(fmt):
    """independent tokenisation of a format string: [('code', 'wL') | ('lit', c)]"""
    out, i = [], 0
    while i < len(fmt):
        if fmt[i:i + 2] in CODES:
            out.append(("code", fmt[i:i + 2])); i += 2
        else:
            out.append(("lit", fmt[i])); i += 1
    return out


def fmt_is_lossless(fmt):
    """distinct full-width codes (2D 2M 4Y 2h 2m 2s, optional 3z), literals that are neither code letters nor
    the characters the formatter treats specially"""
    toks = fmt_tokens(fmt)
    cs = [c for k, c in toks if k == "code"]
    if len(set(cs)) != len(cs) or any(c not in FULL_CODES | {"3z"} for c in cs):
        return False
    return all(c not in CODE_LETTERS + "\\*@" for k, c in toks if k == "lit")


WIDTH = {"2D": 2, "2M": 2, "4Y": 4, "2h": 2, "2m": 2, "2s": 2, "3z": 3}
FIELD = {"4Y": 0, "2M": 1, "2D": 2, "2h": 3, "2m": 4, "2s": 5, "3z": 6}


def py_print(fmt, t):
    """what the property calls the written timestamp: the text of stamp t under a lossless format (independent of ObsTime.__str__)"""
    return "".join(("%0*d" % (WIDTH[c], t[FIELD[c]])) if k == "code" else c for k, c in fmt_tokens(fmt))


def py_parse(fmt, s):
    """the stamp whose text under the lossless format `fmt` is s ([Y, M, D, h, m, s, ms], fields the format omits as in
    ObsTime()), or None when s is not the text of a stamp under fmt"""
    t, i = [1970, 1, 1, 0, 0, 0, 0], 0
    for k, c in fmt_tokens(fmt):
        if k == "code":
            w = s[i:i + WIDTH[c]]
            if len(w) != WIDTH[c] or not w.isdigit() or not w.isascii():
                return None
            t[FIELD[c]] = int(w); i += WIDTH[c]
        else:
            if s[i:i + 1] != c:
                return None
            i += 1
    return t if i == len(s) else None


def valid_stamp(t):
    return 1970 <= t[0] <= 9999 and 1 <= t[1] <= 12 and 1 <= t[2] <= mdays(t[0], t[1]) and t[3] < 24 and t[4] < 60 and t[5] < 60 and t[6] < 1000


def twin_fmt(fmt, rng):
    """a format with the same literals and the same widths in which the two-character codes are permuted (2D/2M/4Y vs
    2M/2D/4Y, 2h:2m:2s vs 2s:2m:2h, ...): every text written under one is, as a string, a candidate text under the other"""
    toks = fmt_tokens(fmt)
    two = [c for k, c in toks if k == "code" and WIDTH[c] == 2]
    perm = list(two)
    for _ in range(10):
        mode = rng.choice(["DM", "DM", "hms", "all"])
        grp = [c for c in two if (c[1] in "DM" if mode == "DM" else c[1] in "hms" if mode == "hms" else True)]
        sh = list(grp)
        rng.shuffle(sh)
        m = dict(zip(grp, sh))
        perm = [m.get(c, c) for c in two]
        if perm != two:
            break
    it = iter(perm)
    return "".join((next(it) if WIDTH[c] == 2 else c) if k == "code" else c for k, c in toks)


# ---- analytical feature values: JSON form in a case -> Python value, protocol token, text the writer prints
# int | ["D", n, d] (the float n/10^d) | ["S", text] | ["nan"] | ["inf", neg]
def af_py(v):
    if isinstance(v, int):
        return v
    if v[0] == "D":
        return float(Fraction(v[1], 10 ** v[2]))
    if v[0] == "S":
        return v[1]
    if v[0] == "nan":
        return float("nan")
    return float("-inf") if v[1] else float("inf")


def af_tok(v):
    if isinstance(v, int):
        return str(v)
    if v[0] == "D":
        return "D%d:%d" % (v[1], v[2])
    if v[0] == "S":
        return "S" + hx(v[1])
    if v[0] == "nan":
        return "nan"
    return "-inf" if v[1] else "inf"


def af_canon(x):
    """what the reader stored, in the JSON form of the model's reply"""
    if isinstance(x, str):
        return ["S", x]
    x = float(x)
    if x != x:
        return ["nan"]
    if x in (float("inf"), float("-inf")):
        return ["inf", x < 0]
    return x


def af_model(tok):
    if tok == "nan":
        return ["nan"]
    if tok in ("inf", "-inf"):
        return ["inf", tok == "-inf"]
    if tok.startswith("S"):
        return ["S", unhx(tok[1:])]
    return dec_float(tok)


def af_safe(v, sep):
    """v, or a plain word when the text of v is not one field of a line (see csv_domain): in a track of thousands of
    observations one such value would take the whole case out of the oracle's domain"""
    t = str(af_py(v))
    return ["S", "run"] if (t != t.strip() or t == "" or sep in t or "\n" in t or t.startswith("#")) else v


AF_NAMES = ["af0", "af1", "speed", "k&", "abs_curv", "hdop", "A", "n&", "time", "E", "ele", "&"]
AF_STRS = ["abc", "x1", "N/A", "run", "\"q\"", "a b", "walk/bike", "é", "1;2", "", " pad ", "#c", "12a", "nan", "-Inf", "True"]


def dec_float(tok):
    """'m/d' (mantissa, decimals) -> the float Python's float() gives for that decimal literal"""
    m, d = tok.split("/")
    return float(Fraction(int(m), 10 ** int(d)))


def cval(v, q):
    """coordinate of a case: scaled integer on the 10^-q lattice, or a float when q is None"""
    return float(v) if q is None else float(Fraction(int(v), 10 ** q))


def scaled(x, d):
    """what "{:.df}" prints for the float x, as an integer count of 10^-d (exact half-even rounding of the binary value)"""
    return round(Fraction(x) * 10 ** d)


def scaled_tok(x, d):
    """protocol token of scaled(x, d); `-0` when a negative float rounds to zero (Python prints -0.000)"""
    import math
    n = scaled(x, d)
    return "-0" if n == 0 and math.copysign(1.0, x) < 0 else str(n)


def shortest(x):
    """(neg, digits, e10): the shortest decimal digits * 10^e10 that float() rounds to |x| (the closest to |x| among the
    shortest) - what float.__repr__ promises to print - found by exact rational arithmetic, independently of repr();
    digits has no trailing zero; 0.0 -> (False, 0, 0), -0.0 -> (True, 0, 0)"""
    import math
    neg = math.copysign(1.0, x) < 0
    a = abs(x)
    if a == 0:
        return neg, 0, 0
    X = Fraction(a)
    e = len(str(X.numerator)) - len(str(X.denominator))
    if Fraction(10) ** e > X:
        e -= 1
    while Fraction(10) ** (e + 1) <= X:
        e += 1
    for p in range(1, 18):
        sc = Fraction(10) ** (e - p + 1)
        m = X / sc
        lo = m.numerator // m.denominator
        best = None
        for c in (lo, lo + 1):
            if c <= 0:
                continue
            v = Fraction(c) * sc
            try:
                fv = float(v)
            except OverflowError:
                fv = float("inf")
            if fv == a:
                dist = abs(v - X)
                if best is None or dist < best[0] or (dist == best[0] and c % 2 == 0):
                    best = (dist, c)
        if best is not None:
            c, e10 = best[1], e - p + 1
            while c % 10 == 0:
                c //= 10
                e10 += 1
            return neg, c, e10
    raise AssertionError("no 17-digit decimal rounds to %r" % x)


def snum_common(vals, q):
    """the floats `vals` of a case as protocol tokens on a common decimal lattice: (d, tokens) with value = +-mag / 10^d.
    q = k: vals are integers on the 10^-k lattice (at most 15 significant digits: the decimal is the shortest repr);
    q = None: vals are arbitrary finite floats, given by their shortest round-trip decimals"""
    if q is not None:
        return q, [str(int(v)) for v in vals]
    sh = [shortest(float(v)) for v in vals]
    d = max([0] + [-e10 for _, _, e10 in sh])
    return d, [("-" if neg else "") + str(c * 10 ** (e10 + d)) for neg, c, e10 in sh]


# floats at the places where str(float) changes its layout
SWITCH_FLOATS = [1e-4, 0.00009999999999999999, 1e-5, 1.9290316747799796e-05, -4.262146191535976e-12, 5e-324, 2.2250738585072014e-308,
                 1e16, 9999999999999998.0, 1.0000000000000002e16, 1.5e22, 1e22, 1e23, 123456789012345680.0, 1.7976931348623157e308,
                 0.0, -0.0, 5.0, -1.0, 100.0, 1e15, 0.1, 0.30000000000000004, 2.0 ** 53, 2.0 ** -20]


class P(Prop):
    id = "C13"
    design_ref = "DESIGN.md section 5, C13"
    M = "TracklibVerif.Props.C13"
    theorems = [
        (M, "TV.C13.fixed_roundtrip", "float(\"{:w.df}\".format(x).strip()) is exactly the printed decimal, for every scaled integer x (incl. -0.000), every w and d"),
        (M, "TV.C13.fixed_roundtrip_int", "the same for a plain integer n standing for n/10^d"),
        (M, "TV.C13.fixed_padded_roundtrip", "float() of the unstripped \"{:w.df}\" text (GPX attributes) is the printed decimal"),
        (M, "TV.C13.columns_roundtrip", "ids a bijection onto 0..k-1 => __printInOrder writes the datum with id j in column j (then the features) and the reader's fields[id_X] finds X"),
        (M, "TV.C13.validIds_iff", "the valid id assignments are exactly the 2+6+6+24 permutation layouts"),
        (M, "TV.C13.row_roundtrip", "a data line written by writeToFile (any valid layout, any feature columns of int / float / str / nan values whose text is one field, separator not a number character, lossless time format avoiding the separator) is read back by __readFromCsv as the same observation"),
        (M, "TV.C13.csv_file_roundtrip", "whole file: writeToFile(h) - data lines, preceded for h>0 by the three comment lines #srid/#ref point/#column names - then readFromCsv(h=hr) returns the same observations in the same order for every hr up to the number of header lines written (0 for h=0, else 3)"),
        (M, "TV.C13.csv_file_roundtrip_matching", "the matching call: written with the flag h in {0,1} and read with h=h, every observation comes back"),
        (M, "TV.C13.csv_file_lines", "any length, text level: the file writeToFile writes for a track of ANY number of observations is the header block (0 or 3 comment lines) followed by exactly one physical line per observation, in order, every line - the last one and the one at any block boundary included - terminated by its own end of line; readline() delivers header + n lines"),
        (M, "TV.C13.csv_file_same_number_same_order", "the statement in its own words, for ANY number of observations: the track read back has as many observations as the track written and its i-th observation is the i-th one written, for every reader header count up to the number of header lines written"),
        (M, "TV.C13.csv_header_block_roundtrip", "reader side of the header option: `header` first lines of any content, comment lines, then the data lines are read as exactly the observations"),
        (M, "TV.C13.writeToCsv_roundtrip", "the front end TrackWriter.writeToCsv(track, path, TrackFormat) writes what writeToFile writes with the format's ids, separator and header: the file is read back as the same observations"),
        (M, "TV.C13.writeToCsv_collection_roundtrip", "writeToCsv(collection, dir, TrackFormat) = writeToFiles: one file per track, each read back as its track"),
        (M, "TV.C13.writeToFile_default_roundtrip", "writeToFile(track, path) with every other argument at its default (E column 0, N column 1, ',', no header) is read back by the matching readFromCsv(path, 0, 1)"),
        (M, "TV.C13.readFromCsv_dir_roundtrip", "after writeToCsv(collection, dir, format), readFromCsv(dir, ...) returns the tracks of the files in whatever order the listing delivers them, each with all its observations (empty tracks skipped)"),
        (M, "TV.C13.csv_read_all_roundtrip", "feature columns: a file written with its header block and af_names, values of any kind (int, float, str, nan, inf), is read back by readFromCsv(h=hr, read_all=True) for EVERY reader header count hr = 0, 1, 2, 3 (3: the names line consumed raw by the header loop, the first data line met raw by the second pass) as the same observations, the same feature names in order, and per observation the values expAF(name, value)"),
        (M, "TV.C13.read_all_values", "what expAF is: int -> the same number, float n/10^d of ANY magnitude -> the decimal str() printed, positional or in exponent notation (value n/10^d, exactly), nan/inf -> themselves, a non-numeric string without quotes -> itself; names ending in & keep the text; ints are always writable as one column, floats when the separator is not a number character, e or +"),
        (M, "TV.C13.time_roundtrip", "readTimestamp(str(t)) gives back the fields named by a format of distinct full-width codes, for every stamp that fits the widths"),
        (M, "TV.C13.time_roundtrip_suffix", "the same when text follows the printed stamp (the Z of a GPX <time>)"),
        (M, "TV.C13.time_roundtrip_full", "with the six calendar codes the calendar part is read back identically"),
        (M, "TV.C13.fits_of_wf", "every well-formed ObsTime before year 10000 fits the widths"),
        (M, "TV.C13.wkt_roundtrip", "parseWkt(track.toWKT()) returns the same vertices in the same order for every non-empty track in ENU, Geo or ECEF coordinates whose ordinates are ANY finite floats: negative zero, integer-valued, 17 digits, below 1e-4 / from 1e16 where str(float) prints the exponent notation"),
        (M, "TV.C13.wkt_vertex_value", "each vertex parsed back has exactly the planimetric coordinates written (mantissa/10^decimals = +-mag/10^d, cross-multiplied) and third coordinate 0"),
        (M, "TV.C13.wkt_upper", "what parseWkt works on: wkt.upper() of the exported text is the same text with the exponent marker E"),
        (M, "TV.C13.polygon_parse", "a one-ring POLYGON((x y,...)) text with ordinates as str(float) prints them is parsed by parseWkt as the vertices of its ring, in order"),
        (M, "TV.C13.wkt_file_roundtrip", "tracks exported with toWKT and stored one per line (uid, tid, quoted WKT text; optional header line and blank lines) are read back by readFromWkt(path, 2, 0, 1, sep, h, doublequote) as the same tracks in order: ids and every vertex"),
        (M, "TV.C13.repr_value", "float(str(x)) for x = +-mag/10^d of any magnitude: the text (positional, or exponent notation with e / E) is accepted by float() and the decimal read back has the value written"),
        (M, "TV.C13.float_exponent_form", "float() of any literal [-]d[.ddd](e|E)(+|-)xx is the decimal digits/10^(n-1) * 10^xx"),
        (M, "TV.C13.network_row_roundtrip", "an edge line written by writeToCsv is split by csv.reader into its five fields and rebuilt by readLineAndAddToNetwork as the same edge"),
        (M, "TV.C13.net_file_roundtrip", "whole network file: h=1/header=1 and h=0/header=0 both return all edges in order"),
        (M, "TV.C13.gpx_file_roundtrip", "the body writeToGpx writes for a track is read by the trk scanner, with an ISO read format, as one track with the same points in order (elevation only for geographic coordinates)"),
        (M, "TV.C13.gpx_collection_roundtrip", "writeToGpx(collection, file) - oneFile=True, the default - writes one <trk> per track; the file is read back as the same number of tracks in the same order, each with its points in order"),
        (M, "TV.C13.gpx_af_file_roundtrip", "the same for writeToGpx(af=True): the reader skips the <extensions> block of every point (one <name>value</name> line per feature, none of which closes the block itself), the points come back unchanged whatever the features are called"),
        (M, "TV.C13.gpx_af_names_ok", "every feature name without < > newline, not starting with / and other than 'extensions', with a value text without < and newline, is fine for gpx_af_file_roundtrip - time, ele, trk, trkpt included"),
        (M, "TV.C13.gpx_same_number_same_order", "GPX, any length: a track of ANY number of points is read back as one track with the same number of points, the i-th point read being the i-th point written"),
        (M, "TV.C13.net_same_number_same_order", "network, any size: ANY number of edges with ANY number of vertices each, header written / not and read with the matching count: the same number of edges, the i-th edge read being the i-th edge written (ids, end nodes, orientation, every vertex)"),
        (M, "TV.C13.wkt_same_number_same_order", "WKT, any length: a track of any non-zero number of vertices exported by toWKT is parsed back as the same number of vertices, the i-th parsed being the i-th exported"),
        (M, "TV.C13.reread_roundtrip", "a timestamp text read under ANY lossless read format f2 gives the stamp whose text under f2 it is - whatever format it was printed with and whatever was read before (the oracle clause of the reread / twin-format sessions)"),
        (M, "TV.C13.session_state_invariant", "hidden state: in every state reachable from the class body by any history of setReadFormat / setPrintFormat and library calls, the memo table __PRECOMPILED_READ_FMT is the precompiled form of the CURRENT read format (the literal list of the class body = the precompiled default format): readTimestamp depends on the text and the read format in force only"),
        (M, "TV.C13.session_no_state_left", "hidden state: str, readTimestamp, timeWithZone, writeToGpx, writeToFile + readFromCsv (also when the reader raises) return with the read format, the print format and the memo table they found; any sequence of them leaves the state as found"),
        (M, "TV.C13.session_time_roundtrip", "under ANY history of format changes and library calls that leaves read format = print format (lossless) at the time of the pair, str(t) then - after any further library calls - readTimestamp of that text gives the stamp back"),
        (M, "TV.C13.session_csv_roundtrip", "the same for a file: writeToFile then readFromCsv in any reachable state with equal formats (hypotheses of csv_file_roundtrip): every observation comes back through the memo table of the state, and the state is left as found"),
        (M, "TV.C13.str_string_level", "ObsTime.__str__ at STRING level (for each code of __codes: str.find, splice over two characters, until not found) equals the token-level model printTime(tokenize fmt) for every format whose literal characters are not code letters D M Y h m s z (assumed of Python: find of a two-character string, slicing, {:0wd}; no backslash in the format)"),
        (M, "TV.C13.precompile_string_level", "ObsTime.__precompileReadFmt at string level (format.find(code) for every code, sort, shift; no '*') equals the token-level precompile(tokenize fmt) under the same hypothesis"),
        (M, "TV.C13.gpx_read_formats", "'4Y-2M-2DT2h:2m:2s' with or without Z reads the stamps the GPX writer prints, calendar part unchanged"),
        (M, "TV.C13.written_precision_partial", "the written precision is that of the text: the fixed-point text of CSV / GPX and the str(float) text of WKT (any magnitude, e or E) are read back by float() as exactly the decimal printed (format()'s rounding of arbitrary doubles and repr's choice of the shortest digits not covered)"),
    ]
    partial = ["written_precision_partial: proves that the decimal read back is the decimal printed, for the fixed-point formats and for str(float) over its whole range; "
               "missing: Python's format() rounding on arbitrary doubles, repr()'s choice of the shortest round-trip digits and float()'s correctly rounded conversion "
               "(sampled: 'fix' stream, byte-for-byte file comparison, off-lattice tracks, the full-range WKT / network / feature streams whose digits the harness "
               "computes by exact rational arithmetic)"]
    open_statements = ["sessions: the class-level state of ObsTime (read format, print format, memo table) IS part of the model state for the operations "
                       "setReadFormat / setPrintFormat / str / readTimestamp / ObsTime(str) / timeWithZone / writeToGpx / writeToFile + readFromCsv (stream hsession, "
                       "theorems session_*); the other session streams (GPX read, network, WKT, KML, directory forms) still model every operation on its own with the "
                       "formats in force, and that THEY leave no state behind is checked (global formats compared after every library call), not proved; "
                       "TrackFormat objects built by the user BEFORE a format change and used after it (time_fmt is a stale copy: an exception inside "
                       "__readFromCsv then leaves the stale format in force) are outside the model",
                       "the string-level find/replace loops of ObsTime.__str__ and __precompileReadFmt: their equivalence with the tokenised model is PROVED for formats "
                       "whose literals are not code letters (str_string_level, precompile_string_level; Python's str.find / slicing / format modelled as find2 / splice2 / "
                       "zpad); open: formats with a literal code letter (the algorithms really differ there: '2DD' on day 12 prints '112'), the '*' wildcard of "
                       "the read format, the backslash loop of __str__ (which does not terminate on a format holding a backslash but no '@')",
                       "read_all: proved for every reader header count up to the header lines written (0 .. 3); counts beyond (the header loop eats data lines) are "
                       "correspondence only; float() of digit-group underscores (1_000) and of exponents beyond the double range (1e400 -> inf) is outside the "
                       "model (the generators avoid them)",
                       "TrackReader.parseWkt on POLYGON texts (never written by tracklib): the canonical one-ring layout has the theorem polygon_parse; polygons with "
                       "holes, stray blanks, z values and the MULTIPOLYGON branch (AttributeError) are modelled and compared on hand-made texts only",
                       "readFromCsv's no_data_value and com arguments keep their defaults (-999999, '#'); `com` is ignored by the library anyway (TrackFormat reads the key 'cmt')",
                       "formats given by NAME (resources/track_file_format) have no Lean model (separators of several characters `bb`, `%` comment lines, seconds since a "
                       "reference epoch date_ini). Stream `named` runs them on the real code and pins what this tree does: the table lookup TrackFormat(name) agrees with an "
                       "independent reading of the table; writeToFile(track, path, name) raises TypeError for EVERY name (TrackFormat(id_E, 0): the constructor takes one "
                       "argument); writeToCsv(track, path, TrackFormat(name)) + readFromFile(path, name) round-trips for NO name of the table (the writer rebuilds a "
                       "default format from ids / separator / header only: the header block has three `#` lines where the format announces `header` = 1 line and `%` "
                       "comments; date_ini is dropped; six of the nine formats leave column 0 unused); TrackFormat('IMU_STEREOPOLIS') raises ValueError under the default read "
                       "format (date_ini is parsed with the global read format, the format's own time_fmt is assigned afterwards). Pending findings named-format-roundtrip (the oracle of the stream "
                       "speaks once the class is listed in known_findings.json)",
                       "TrackReader.readFromWkt is modelled for every column order, bare or quoted WKT texts, header counts and both doublequote values (stream wktfile); "
                       "the theorem wkt_file_roundtrip covers the layout uid, tid, quoted WKT; its selector / bboxFilter arguments keep their defaults"]
    modelled = ("TrackWriter.writeToFile (O list, sort, __printInOrder, float formats, feature columns with int / float / str / nan / inf values), "
                "TrackReader.__readFromCsv (data loop, header/comment skipping, field extraction, no-data rule; read_all: name_non_special through the "
                "header and comment lines, feature creation from the last line's fields, the second pass with its raw first line, float()/str values, names "
                "ending in &), ObsTime.__str__/__precompileReadFmt/readTimestamp/__fillMember "
                "(tokenised format, no '*' wildcard), NetworkWriter.writeToCsv, NetworkReader.readFromFile + readLineAndAddToNetwork + "
                "wktLineStringToObs + Network.addNode order (first registration of a node id wins, whatever the later end vertices), Track.toWKT (ENU, Geo, "
                "ECEF; ordinates printed by str(float) = float.__repr__'s layout rule over the whole range: positional, exponent notation below 1e-4 and from 1e16, "
                "-0.0, 5.0), float() on decimal literals with an exponent part (e / E, signed exponent), TrackWriter.writeToCsv (track -> writeToFile, collection -> writeToFiles), TrackReader.parseWkt (POLYGON, LINESTRING, the MULTIPOLYGON branch's AttributeError), TrackWriter.writeToGpx body "
                "with and without af=True (<extensions> block), "
                "TrackReader.__readFromGpx (type trk: the <extensions> block skipped, then the per-tag steps gpxPt/gpxEndPt/gpxEle/gpxTime); the header block of writeToFile (h > 0: #srid, #ref point, #column names + feature names; no Reference epoch line, fmt.time_ini stays -1); "
                "the class-level state of ObsTime (Model/TextIOSession.lean): __READ_FMT, __PRINT_FMT, __PRECOMPILED_READ_FMT with setReadFormat / setPrintFormat, "
                "str and readTimestamp THROUGH that state (the reader loops over the memo table), the save / set / restore sequences of timeWithZone, writeToGpx and "
                "__readFromCsv (TrackFormat.time_fmt = the read format at construction; the early exit of an exception)")
    trusted = ["Python's format()/repr()/float()/int() on the decimal lattice are modelled by an own decimal printer/parser; the rounding done by format() on "
               "off-lattice floats, and the shortest round-trip digits repr() chooses for an arbitrary double, are computed by the harness with exact rational "
               "arithmetic (`scaled`, `shortest`) and handed to the model, which lays them out (float.__repr__'s rule) and reads them back",
               "csv.reader is modelled as its documented state machine (delimiter, doublequote); file system calls are trusted"]
    rule = ("exhaustive: every column layout (24+6+6+2 id permutations) x separators , ; blank x h in {0,1} (header block written / not, read with the same h) x ENU/GEO/ECEF; "
            "writer h in {1,2,3} x reader header 0..5 (correspondence); random tracks of 1-6 fixes with "
            "negative / 1e6-large / many-decimal coordinates on and off the 1 mm / 1e-8 deg lattice, timestamps at midnight, month, year ends and leap days; "
            "time formats; feature columns (0-3, int / float / str / nan values, names incl. `k&`, `time`, `ele`) read back with read_all for writer h 0-3 x reader header 0-4; "
            "a tenth of the CSV / GPX / network files written onto an existing, longer file of the same kind (the writers must replace it); the front end writeToCsv on a track and on a collection (one file per track, read back file by file AND through readFromCsv(<directory>), compared as a "
            "multiset of tracks: the listing order is the file system's); writeToFile(track, path) with default arguments read back by readFromCsv(path, 0, 1); "
            "collections of 1-4 tracks written to ONE gpx file; GPX write/read, 40 % with af=True (feature names incl. time, ele, trk, trkpt); networks of 1-5 edges, three orientations, 2-5 vertices, ids that are numeric strings, user weights, half of them NOT "
            "topologically exact (edges sharing a node id end up to a few units beside the node's registered position; self loops), a quarter of them with vertices "
            "from the whole float range (up to 1e60: edge lengths are squared); WKT (ENU, Geo, ECEF): half on the 1 mm / 1e-8 deg lattice (1e-08 is printed in exponent "
            "notation), half any finite floats - exponent notation on both sides (1e-5 .. 5e-324, 1e16 .. 1.8e308), the values next to the two switches, the residues a "
            "projection leaves on a point due east / north of its base (1.9e-05, -4.3e-12), -0.0, integer-valued, 17 significant digits, each layout as E and as N in "
            "the three coordinate systems; a third of the off-lattice CSV / GPX coordinates and a quarter of the float feature values from the same classes; exported tracks stored one per line in a csv "
            "file (uid, tid, WKT text bare or quoted, the six column orders, header line, blank lines, reader header counts 0-5) read back by readFromWkt; hand-made "
            "POLYGON / LINESTRING / MULTIPOLYGON texts, a fifth of their ordinates in exponent form, well formed or not; sessions of 2-6 operations (CSV, GPX to one file, GPX to one file per track in a directory, network, WKT, "
            "timeWithZone, KML, readTimestamp / ObsTime(str)) sharing the global ObsTime formats - set once at the start, or changed by the user between operations "
            "(setfmt), between the write and the read of one file (mid_print), with twin formats (same literals and widths, two-character codes permuted) whose files hold "
            "the very same timestamp texts, files read by 2-3 readers; reread: one text under a sequence of read formats; hsession: 3-9 operations (setReadFormat, setPrintFormat, str, readTimestamp / ObsTime(str) of the last printed text or of a text printed under another format, timeWithZone, writeToFile + readFromCsv, writeToGpx) from the state of the class body, the WHOLE class-level state (both formats and the private precompiled table) compared with the model state after every operation; LONG inputs (given by a rule, see X): tracks of 127 .. 5000 observations - every size "
            "2^k-1, 2^k, 2^k+1 for 128 <= 2^k <= 4096, and 1000, 3000, 5000 - through writeToFile / writeToCsv / the default call, with and without feature columns and "
            "read_all; GPX tracks of 129 .. 4097 points (a third with extensions), GPX collections of 33 / 129 tracks and of two tracks of 2049 points; chain networks "
            "of 129 .. 4097 edges and edges of 129 .. 2049 vertices; WKT texts of 129 .. 5000 vertices; files of 129 / 1025 WKT lines; collections of 10 - 34 tracks "
            "written one file per track (two-digit file indices); lines of 10 - 20 feature columns; feature values, track names and edge / node identifiers of 300 and 5000 characters (thorough: every size in every stream, collections of up to 130 "
            "tracks). Every multi-operation case runs in a child "
            "forked from a process that never executed library code, single-operation cases in one long-lived child (a failure there is re-run in a fresh child): a "
            "reported failing input fails again alone. non-trivial = at least one non-zero coordinate or a timestamp other than the epoch")

    # ------------------------------------------------------------------ setup
    def setup(self):
        from tracklib.core import ObsTime, ENUCoords, GeoCoords, ECEFCoords, Obs, Track, Network, Node, Edge, TrackCollection
        self.TrackCollection = TrackCollection
        from tracklib.io import TrackWriter, TrackReader, NetworkWriter, NetworkReader, NetworkFormat
        self.ObsTime, self.Obs, self.Track = ObsTime, Obs, Track
        self.Coords = {"ENU": ENUCoords, "GEO": GeoCoords, "ECEF": ECEFCoords}
        self.Network, self.Node, self.Edge = Network, Node, Edge
        self.TW, self.TR, self.NW, self.NR, self.NF = TrackWriter, TrackReader, NetworkWriter, NetworkReader, NetworkFormat
        self.tmp = tempfile.gettempdir()
        from tracklib.io import TrackFormat
        self.TF = TrackFormat
        # classes of findings already listed for C13 (the oracle of the `named` stream stays silent for a defect class until its
        # entry is listed: the engine excuses listed classes only)
        try:
            import engine
            self.known_classes = {e.get("class") for e in engine.load_known(self.id) if e.get("status") == "finding"}
        except Exception:
            self.known_classes = set()

    STALE = {"csv": "7.5;7.5;7.5;7.5\n7.5,7.5,7.5,7.5\n7.5 7.5 7.5 7.5\n7.5|7.5|7.5|7.5\n7.5\t7.5\t7.5\t7.5\n",
             "net": "zz,a,b,0,\"LINESTRING(0.0 0.0,1.0 1.0)\"\nzz;a;b;0;\"LINESTRING(0.0 0.0,1.0 1.0)\"\n",
             "gpx": "    <trk>\n        <trkseg>\n            <trkpt lat=\"1.00000000\" lon=\"2.00000000\">\n                <ele>3.00000000</ele>\n"
                    "                <time>2001-02-03T04:05:06Z</time>\n            </trkpt>\n        </trkseg>\n    </trk>\n"}

    def put_stale(self, case, path, kind):
        """the target of the writer already exists and holds an older, longer file of the same kind (`stale` cases): a
        writer that appended to it or overwrote only its beginning would leave observations that were never written"""
        if case.get("stale"):
            with open(path, "w", newline="") as fh:
                fh.write(self.STALE[kind] * 60)

    def tmpfile(self, ext):
        """one scratch file per process, removed after every case (no directory is left behind by pool workers)"""
        return os.path.join(self.tmp, "c13_%d.%s" % (os.getpid(), ext))

    # ------------------------------------------------------------------ generators
    def layouts(self):
        out = []
        for hasU, hasT in ((1, 1), (1, 0), (0, 1), (0, 0)):
            k = 2 + hasU + hasT
            for p in itertools.permutations(range(k)):
                ids = {"E": p[0], "N": p[1], "U": p[2] if hasU else -1, "T": p[2 + hasU] if hasT else -1}
                out.append(ids)
        return out

    def exhaustive_scopes(self, tier):
        return ["all 38 column layouts (id_E,id_N[,id_U][,id_T] a permutation of 0..k-1) x separators {',', ';', ' '} x h in {0,1} x {ENU, GEO, ECEF}, "
                "%d random tracks each" % (2 if tier == "quick" else 8),
                "sessions: every operation kind in {csv, gpx one file, gpx one file per track, gpx collection in one file, network, wkt, timeWithZone, kml} (and, for the default and the ISO "
                "format%s, every ordered pair of kinds) followed by a CSV round trip, under each of the %d session time formats; for each of them %d twin-format "
                "sessions (the second file holds the texts of the first, read under the permuted format)" % (
                    "" if tier == "quick" else " and all the others", len(CSV_FMTS), 40 if tier == "quick" else 400),
                "fixed-point rendering {:10.3f}/{:20.10f}/{:3.8f} of every integer -2100..2100 and of 10^k-1, 10^k, 10^k+1 (k <= 12), both signs"]

    def rand_stamp(self, rng):
        y = rng.choice([rng.randrange(1970, 2100), rng.choice([1970, 1972, 1999, 2000, 2024, 2099])])
        m = rng.choice([rng.randrange(1, 13), 1, 2, 12])
        d = rng.choice([rng.randrange(1, mdays(y, m) + 1), 1, mdays(y, m)])
        hms = rng.choice([(0, 0, 0), (23, 59, 59), (rng.randrange(24), rng.randrange(60), rng.randrange(60)), (12, 0, 0), (0, 0, 1)])
        ms = rng.choice([0, 0, 0, rng.randrange(1000), 999, 500])
        return [y, m, d, hms[0], hms[1], hms[2], ms]

    def rand_coord(self, rng, srid, axis, q):
        """scaled integer on the 10^-q lattice (q = 3 metric, 8 geographic)"""
        if srid == "GEO":
            lim = [180, 90, 9000][axis]
            big = lim * 10 ** q
            v = rng.choice([rng.randrange(-big, big + 1), rng.randrange(-big, big + 1), rng.randrange(-10 ** q, 10 ** q),
                            rng.choice([0, 1, -1, big, -big, 10 ** q, 5 * 10 ** (q - 1), 123456789, -987654321]),
                            rng.randrange(-100, 100) * 10 ** q])
            return max(-big, min(big, v))
        mag = rng.choice([10 ** 3, 10 ** 5, 10 ** 7, 10 ** 9, 10 ** 10])
        return rng.choice([rng.randrange(-mag, mag + 1), rng.randrange(-mag, mag + 1), 0, 1, -1, 999, -999, 1000, -1000, 10 ** 9, -10 ** 9,
                           10 ** 9 + 123, -(10 ** 9) - 1, rng.randrange(-100, 100) * 1000, 999999999, -999998999, 500, -500])

    def rand_float(self, rng, srid, axis):
        if srid == "GEO":
            lim = [180.0, 90.0, 9000.0][axis]
            return rng.choice([rng.uniform(-lim, lim), rng.uniform(-1, 1), rng.uniform(-1e-6, 1e-6)])
        return rng.choice([rng.uniform(-1e6, 1e6), rng.uniform(-100, 100), rng.uniform(-1, 1), rng.uniform(-2e-3, 2e-3),
                           rng.randrange(-1000, 1000) + rng.choice([0.0005, 0.0625, 0.5, 0.125, 0.4995, 0.9995, 0.99951])])

    def rand_wide(self, rng, srid, axis, cap=None):
        """a float from the whole range of magnitudes and shapes str(float) renders differently: below 1e-4 and from 1e16
        (exponent notation), negative zero, integer-valued, 17 significant digits, the values next to the two switches,
        the residues a projection leaves on a point due east / north of its base (1.9e-05, -4.3e-12); geographic
        longitudes / latitudes stay inside their range (a meridian or a parallel within 1e-4 degree of zero); `cap` bounds the
        magnitude where the library squares coordinates (edge lengths of a network: x ** 2 raises OverflowError beyond 1e154)"""
        geo = srid == "GEO" and axis < 2
        lim = [180.0, 90.0][axis] if geo else None
        sgn = rng.choice([1.0, -1.0])
        r = rng.random()
        if r < 0.30:        # exponent notation, small side
            x = rng.choice([rng.uniform(1, 10) * 10.0 ** -rng.randrange(5, 25), rng.uniform(-1, 1) * 1e-4,
                            float(Fraction(rng.randrange(1, 10 ** rng.choice([1, 2, 5])), 10 ** rng.randrange(5, 40))),
                            rng.uniform(1, 10) * 10.0 ** -rng.randrange(25, 320), 5e-324 * rng.randrange(1, 1000)])
        elif r < 0.45 and not geo:      # exponent notation, large side
            x = rng.choice([rng.uniform(1, 10) * 10.0 ** rng.randrange(16, 30), float(10 ** rng.randrange(16, 40)),
                            float(rng.randrange(10 ** 16, 10 ** 18)), rng.uniform(1, 10) * 10.0 ** rng.randrange(30, 308)])
        elif r < 0.60:
            x = rng.choice(SWITCH_FLOATS)
            if geo and abs(x) > lim:
                x = rng.choice([0.0, -0.0, 1e-5, 5.0])
        elif r < 0.72:      # integer-valued
            x = float(rng.randrange(0, 10 ** rng.choice([1, 3, 6, 15]))) if not geo else float(rng.randrange(0, int(lim) + 1))
        elif r < 0.80:
            x = 0.0
        else:               # many digits
            x = rng.uniform(0, lim) if geo else rng.choice([rng.uniform(0, 1e6), rng.uniform(0, 100), rng.uniform(0, 1), rng.uniform(0, 1e15)])
        x = sgn * x
        if geo:
            x = max(-lim, min(lim, x))
        if cap is not None and abs(x) > cap:
            x = sgn * rng.choice([1e16, 1.5e22, cap, rng.uniform(1, 10) * 1e17])
        return x

    def rand_rows(self, rng, srid, n=None, q="lat"):
        n = n or rng.choice([1, 1, 2, 3, 4, 6])
        if q == "lat":
            q = 8 if srid == "GEO" else 3
        rows = []
        for _ in range(n):
            if q is None:
                c = [self.rand_float(rng, srid, a) if rng.random() < 0.7 else self.rand_wide(rng, srid, a) for a in range(3)]
            else:
                c = [self.rand_coord(rng, srid, a, q) for a in range(3)]
            rows.append(c + self.rand_stamp(rng))
        return rows, q

    def rand_af(self, rng, rich):
        if not rich or rng.random() < 0.4:
            return rng.choice([0, 1, -7, 42, rng.randrange(-10 ** 6, 10 ** 6)])
        r = rng.random()
        if r < 0.45:
            d = rng.choice([1, 2, 3, 6])
            n = rng.choice([rng.randrange(-10 ** 7, 10 ** 7), 5, -25, 10 ** d, 123456])
            if rng.random() < 0.25:     # str(float) in exponent notation: below 1e-4, from 1e16
                d, n = rng.choice([(rng.randrange(5, 30), rng.choice([1, 5, -25, 12345, rng.randrange(-10 ** 6, 10 ** 6)])),
                                   (0, rng.choice([1, -15, 12345, 25]) * 10 ** rng.randrange(16, 30)),
                                   (rng.randrange(1, 4), rng.randrange(-10 ** 6, 10 ** 6) * 10 ** rng.randrange(16, 24))])
            return ["D", n, d]
        if r < 0.85:
            return ["S", rng.choice(AF_STRS)]
        return rng.choice([["nan"], ["inf", False], ["inf", True]])

    def csv_case(self, rng, ids, sep, h, srid, q="lat", pfmt=None, naf=0, n=None, hdrR=None, rich=False, read_all=False):
        rows, q = self.rand_rows(rng, srid, n, q)
        case = {"kind": "csv", "srid": srid, "ids": ids, "sep": sep, "h": h, "hdrR": h if hdrR is None else hdrR,
                "pfmt": pfmt or DEFAULT_FMT, "q": q, "rows": rows}
        case["rfmt"] = case["pfmt"]
        if naf:
            case["af_names"] = ["af%d" % i for i in range(naf)] if not rich else rng.sample(AF_NAMES[:8] if rng.random() < 0.9 else AF_NAMES, naf)
            case["afs"] = [[self.rand_af(rng, rich) for _ in range(naf)] for _ in rows]
        if read_all:
            case["read_all"] = True
        if rng.random() < 0.1:
            case["stale"] = True        # the file already exists
        return case

    def rand_ident(self, rng):
        """identifiers as real files deliver them: names, numeric strings (plain, zero-padded, negative, decimal), mixed"""
        return rng.choice(["a", "b", "n1", "N2", "17", "x_9", "node-3", "k", "0", "007", "-1", "1.0", "1e3", "42"]) + rng.choice(["", "", "0", "7", "z"])

    def net_case(self, rng, sep=None, h=None, hdrR=None, srid=None, loose=None):
        """a small network. `loose` (half of the cases): the network is not topologically exact - an edge attached to a node
        that an earlier edge registered may end a little beside that node's position (end nodes merged within a tolerance, as
        map data delivers them), so several edges share a node id while their end vertices differ"""
        srid = srid or rng.choice(["ENU", "ENU", "GEO"])     # (the network reader refuses ECEF: 2D lengths are not defined on it)
        q = 8 if srid == "GEO" else 3
        wide = rng.random() < 0.25      # vertices from the whole float range (q = None): str(float) in every layout
        if wide:
            q = None
        nn = rng.choice([2, 3, 4])
        names = []
        while len(names) < nn:
            s = self.rand_ident(rng)
            if s not in names:
                names.append(s)

        def pt():
            if wide:
                return [self.rand_wide(rng, srid, 0, cap=1e60), self.rand_wide(rng, srid, 1, cap=1e60)]
            return [self.rand_coord(rng, srid, 0, q), self.rand_coord(rng, srid, 1, q)]
        pos = {s: pt() for s in names}
        loose = (rng.random() < 0.5) if loose is None else loose

        def end(s):
            """end vertex of an edge at node s: on the node, or (loose networks) up to a few units beside it"""
            if not loose or rng.random() < 0.4:
                return pos[s]
            for _ in range(20):
                if wide:
                    p = [pos[s][0] + rng.choice([0.0, 1e-5, -2.5e-7, 0.25, -3.0]), pos[s][1] + rng.choice([0.0, -1e-5, 1e-12, 0.5, 7.0])]
                else:
                    p = [pos[s][0] + rng.choice([0, 1, -1, 7, -250, 400, 1000, -12345]), pos[s][1] + rng.choice([0, 1, -1, -7, 250, -400, 500, 54321])]
                if srid == "GEO":
                    u = 1 if wide else 10 ** q
                    p = [max(-180 * u, min(180 * u, p[0])), max(-90 * u, min(90 * u, p[1]))]
                if p != pos[s]:
                    return p
            return pos[s]
        ne = rng.choice([1, 2, 3, 4, 5])
        edges = []
        for i in range(ne):
            a = rng.choice(names)
            b = rng.choice(names)
            mid = [pt() for _ in range(rng.choice([0, 0, 1, 2, 3]))]
            e = {"id": "e%d" % i if rng.random() < 0.6 else self.rand_ident(rng) + "_%d" % i, "src": a, "tgt": b,
                 "orient": rng.choice([0, 1, -1]), "geom": [end(a)] + mid + [end(b)]}
            if rng.random() < 0.3:
                e["w"] = rng.choice([0, 1, 2.5, 1000, -1])        # a weight set by the user (the writer does not write it)
            edges.append(e)
        h = rng.choice([0, 1, 1]) if h is None else h
        c = {"kind": "net", "srid": srid, "q": q, "sep": sep or rng.choice([",", ";", " ", "\t", "|"]), "h": h,
             "hdrR": h if hdrR is None else hdrR, "posdir": 3, "edges": edges}
        if rng.random() < 0.1:
            c["stale"] = True
        return c

    # ---- long inputs: thousands of observations / vertices / edges / tracks, given by a rule instead of a listing
    _xcache = {}

    def X(self, case):
        """A long case carries, instead of its observations, the rule that generates them: `long` = {"seed": s, "n": number
        of observations | "edges": number of edges of a chain network | "verts": number of vertices of one edge | "tracks" /
        "each": number of tracks and observations per track | "more": number of further tracks of a collection}. X(case)
        is the same case written out (rows / pts / edges / tracks listed, no `long` key); the values come from the generators
        of the short cases, drawn from random.Random(seed) one observation after the other, so that a smaller `n` gives a
        prefix of the same track. Cases without `long` are returned as they are. Replay files and the evidence stay small,
        and the failing input is still fully determined by the case."""
        g = case.get("long")
        if not g:
            return case
        import json, random
        key = json.dumps(case, sort_keys=True, default=str)
        hit = P._xcache.get(key)
        if hit is not None:
            return hit
        rng = random.Random(g["seed"])
        c = {k: v for k, v in case.items() if k != "long"}
        k = case["kind"]
        if k in ("csv", "gpx"):
            c["rows"] = self.rand_rows(rng, case["srid"], n=g["n"], q=case["q"])[0]
            if k == "gpx" and case["srid"] != "GEO":
                for r in c["rows"]:
                    r[2] = 0 if case["q"] is not None else 0.0
            if "af_names" in case:
                c["afs"] = [[af_safe(self.rand_af(rng, bool(g.get("rich"))), case.get("sep", "\n")) for _ in case["af_names"]] for _ in c["rows"]]
            if g.get("more"):
                c["more"] = [self.rand_rows(rng, case["srid"], n=g.get("each", 1), q=case["q"])[0] for _ in range(g["more"])]
        elif k == "gpxcoll":
            c["tracks"] = []
            for i in range(g["tracks"]):
                rows = self.rand_rows(rng, case["srid"], n=g["each"], q=case["q"])[0]
                if case["srid"] != "GEO":
                    for r in rows:
                        r[2] = 0 if case["q"] is not None else 0.0
                c["tracks"].append({"tid": "t%d" % i if i % 3 else i, "rows": rows})
        elif k == "wkt":
            if case["q"] is None:
                c["pts"] = [[self.rand_wide(rng, case["srid"], 0), self.rand_wide(rng, case["srid"], 1)] for _ in range(g["n"])]
            else:
                c["pts"] = [[self.rand_coord(rng, case["srid"], 0, case["q"]), self.rand_coord(rng, case["srid"], 1, case["q"])] for _ in range(g["n"])]
        elif k == "wktfile":
            c["tracks"] = []
            for i in range(g["tracks"]):
                pts = [[cval(self.rand_coord(rng, "ENU", 0, 3), 3), cval(self.rand_coord(rng, "ENU", 1, 3), 3)] if rng.random() < 0.8
                       else [self.rand_wide(rng, "ENU", 0), self.rand_wide(rng, "ENU", 1)] for _ in range(g["each"])]
                c["tracks"].append({"uid": "u%d" % (i % 7), "tid": "t%d" % i, "pts": pts})
        elif k == "net":
            # a chain n0 - n1 - ... of `edges` edges (three vertices each, topologically exact, the three orientations in turn),
            # or two edges between a and b, the first with `verts` vertices; vertices on the 1 mm / 1e-8 degree lattice
            geo = case["srid"] == "GEO"
            dx, M, x0 = (6000000, 160 * 10 ** 8, -170 * 10 ** 8) if geo else (12345, 10 ** 7, -3 * 10 ** 7)
            s = g["seed"]

            def P_(i):
                return [x0 + i * dx + (i * 7919 + s) % 613, (i * i * 31 + s * 7) % M - M // 2]
            if g.get("verts"):
                m = g["verts"]
                c["edges"] = [{"id": "e0", "src": "a", "tgt": "b", "orient": [0, 1, -1][s % 3], "geom": [P_(j) for j in range(m)]},
                              {"id": "e1", "src": "b", "tgt": "a", "orient": [1, -1, 0][s % 3], "geom": [P_(m - 1), P_(0)]}]
            else:
                c["edges"] = []
                for i in range(g["edges"]):
                    a, b = P_(i), P_(i + 1)
                    c["edges"].append({"id": "e%d" % i, "src": "n%d" % i, "tgt": "n%d" % (i + 1), "orient": [0, 1, -1][(i * i + s) % 3],
                                       "geom": [a, [(a[0] + b[0]) // 2, a[1] + 500], b]})
        else:
            raise ValueError("no long form for kind %r" % k)
        if len(P._xcache) > 6:
            P._xcache.clear()
        P._xcache[key] = c
        return c

    @staticmethod
    def case_size(c):
        """number of observations / vertices / edges / tracks of a written-out case (the largest of them)"""
        k = c["kind"]
        if k in ("csv", "gpx"):
            return max(len(c["rows"]), 1 + len(c.get("more", [])))
        if k in ("gpxcoll", "gpxdir"):
            return max([len(c["tracks"])] + [len(t["rows"]) for t in c["tracks"]])
        if k == "wkt":
            return len(c["pts"])
        if k == "wktfile":
            return max([len(c["tracks"])] + [len(t["pts"]) for t in c["tracks"]])
        if k == "net":
            return max([len(c["edges"])] + [len(e["geom"]) for e in c["edges"]])
        return 1

    def long_cases(self, rng, tier):
        """the size classes the short streams never reach: tracks of 127 .. 5000 observations through every CSV entry point,
        GPX (one track, collections of many tracks, with and without extensions), networks of up to 5000 edges and edges of
        up to 4097 vertices, WKT texts of up to 5000 vertices, files of up to 1025 WKT lines, collections of 10 - 129 tracks
        (file names track_output_<i>.csv with two and three digit indices), lines of up to 20 feature columns"""
        thorough = tier == "thorough"
        L = self.layouts()
        LT = [l for l in L if l["T"] != -1]
        out = []

        def sd():
            return rng.randrange(1 << 30)
        # --- CSV: every size, through writeToFile / writeToCsv / the default call, with and without feature columns
        for n in SIZES * (1 if not thorough else 5):
            ids = rng.choice(LT * 3 + L)
            sep = rng.choice([",", ";", ";", "|", "\t"])
            pf = rng.choice(CSV_FMTS)
            c = self.csv_case(rng, ids, sep, rng.choice([0, 0, 1]), rng.choice(SRIDS), q=rng.choice(["lat", "lat", None]), pfmt=pf, n=1)
            del c["rows"]
            c["long"] = {"n": n, "seed": sd()}
            r = rng.random()
            if r < 0.2:
                c["front"] = "writeToCsv"
            elif r < 0.3:
                c.update(front="defaults", ids={"E": 0, "N": 1, "U": -1, "T": -1}, sep=",", h=0, hdrR=0)
            elif r < 0.55:
                c["af_names"] = rng.sample(AF_NAMES[:8], rng.choice([1, 2, 3]))
                c["long"]["rich"] = rng.random() < 0.5
                if rng.random() < 0.6:
                    c.update(h=1, hdrR=1, read_all=True)
            out.append(c)
        # --- wide lines: 10 - 20 feature columns (two-digit column indices)
        for naf in (10, 12, 17, 20) * (1 if not thorough else 5):
            c = self.csv_case(rng, rng.choice(L), rng.choice([",", ";", "|", "\t"]), 1, rng.choice(SRIDS), pfmt=rng.choice([DEFAULT_FMT, ISO_FMT]),
                              n=rng.choice([1, 2, 3]), read_all=rng.random() < 0.7)
            c["af_names"] = ["c%d" % i for i in range(naf)]
            c["afs"] = [[af_safe(self.rand_af(rng, True), c["sep"]) for _ in range(naf)] for _ in c["rows"]]
            out.append(c)
        # --- long fields: a feature value / a track name / an edge or node identifier of hundreds to thousands of characters
        for m in (300, 5000) if not thorough else (255, 256, 257, 1023, 1024, 1025, 4095, 4096, 4097, 8193, 20000):
            c = self.csv_case(rng, rng.choice(L), rng.choice([",", ";", "|", "\t"]), 1, rng.choice(SRIDS), pfmt=rng.choice([DEFAULT_FMT, ISO_FMT]),
                              n=2, read_all=rng.random() < 0.7)
            c["af_names"] = ["note", "k&"]
            c["afs"] = [[["S", ("walk_" * (m // 5 + 1))[:m]], 7], [["S", "x"], ["S", "y" * m]]]
            out.append(c)
            rows, q = self.rand_rows(rng, "GEO", n=2, q=8)
            out.append({"kind": "gpx", "srid": "GEO", "q": q, "rows": rows, "rfmt": ISO_FMT, "tid": ("trace-" * (m // 6 + 1))[:m]})
            c = self.net_case(rng, sep=rng.choice([",", ";"]), loose=False)
            ren = {}
            m = min(m, 4097)        # (the model's csv state machine is quadratic in the length of a cell)
            for e in c["edges"]:
                for key in ("src", "tgt"):
                    e[key] = ren.setdefault(e[key], (e[key] + "_") * (m // (len(e[key]) + 1)) + "n")
            c["edges"][0]["id"] = ("E%d-" % m) * (m // 6 + 1)
            out.append(c)
        # --- collections of many tracks: one file per track, track_output_0.csv .. track_output_<k>.csv
        for k in (9, 10, 11, 33) if not thorough else (9, 10, 11, 33, 99, 100, 101, 129):
            c = self.csv_case(rng, rng.choice(L), rng.choice([",", ";", "|"]), rng.choice([0, 1]), rng.choice(SRIDS), pfmt=rng.choice(CSV_FMTS), n=1)
            del c["rows"]
            c.pop("stale", None)
            c["front"] = "writeToCsv"
            c["long"] = {"n": 2, "more": k, "each": rng.choice([1, 2]), "seed": sd()}
            out.append(c)
        # --- GPX
        for n in ([129, 1025, 2047, 2048, 2049, 4097] if not thorough else SIZES * 2):
            srid = rng.choice(["GEO", "GEO", "GEO", "ENU"])
            c = {"kind": "gpx", "srid": srid, "q": (rng.choice([8, 8, None]) if srid == "GEO" else rng.choice([3, None])),
                 "rfmt": rng.choice([ISO_FMT, ISO_FMT + "Z"]), "tid": rng.choice([0, "trace"]), "long": {"n": n, "seed": sd()}}
            if rng.random() < 0.3:
                c["af_names"] = rng.sample(AF_NAMES[:8] + ["time", "ele"], rng.choice([1, 2]))
                c["long"]["rich"] = True
            out.append(c)
        for nt, each in ([(33, 2), (129, 1), (2, 2049)] if not thorough else [(33, 2), (129, 1), (2, 2049), (1025, 1), (3, 4097), (257, 3)]):
            srid = rng.choice(["GEO", "GEO", "ENU"])
            out.append({"kind": "gpxcoll", "srid": srid, "q": 8 if srid == "GEO" else 3, "rfmt": rng.choice([ISO_FMT, ISO_FMT + "Z"]),
                        "long": {"tracks": nt, "each": each, "seed": sd()}})
        # --- networks: many edges, one edge of many vertices
        for key, n in ([("edges", 129), ("edges", 1025), ("edges", 2049), ("edges", 4097), ("verts", 129), ("verts", 1025), ("verts", 2049)] if not thorough
                       else [("edges", m) for m in SIZES] + [("verts", m) for m in SIZES if m <= 4097]):
            srid = rng.choice(["ENU", "GEO"])
            h = rng.choice([0, 1])
            out.append({"kind": "net", "srid": srid, "q": 8 if srid == "GEO" else 3, "sep": rng.choice([",", ";", "\t", "|"]), "h": h, "hdrR": h, "posdir": 3,
                        "long": {key: n, "seed": sd()}})
        # --- WKT texts of many vertices; files of many WKT lines
        for n, wide in ([(129, 0), (1025, 0), (2049, 0), (4097, 0), (5000, 0), (1025, 1), (2049, 1)] if not thorough
                        else [(m, 0) for m in SIZES] + [(m, 1) for m in SIZES if m <= 2049]):
            srid = rng.choice(SRIDS)
            out.append({"kind": "wkt", "srid": srid, "q": None if wide else (8 if srid == "GEO" else 3), "long": {"n": n, "seed": sd()}})
        for nt, each in ([(129, 2), (1025, 1), (2, 1025)] if not thorough else [(129, 2), (1025, 1), (2, 2049), (2049, 1), (3, 1025)]):
            c = self.wktfile_case(rng)
            del c["tracks"]
            c["hdrR"] = c["hdr"]
            c["long"] = {"tracks": nt, "each": each, "seed": sd()}
            out.append(c)
        return out

    @staticmethod
    def spread(out, extra):
        """the long cases take a thousand times longer than the others: spread evenly over the list (the engine shards the
        list in runs of consecutive cases)"""
        if not extra:
            return out
        step = len(out) / float(len(extra))
        res, j = [], 0
        for i, c in enumerate(out):
            while j < len(extra) and (j + 0.5) * step <= i:
                res.append(extra[j]); j += 1
            res.append(c)
        return res + extra[j:]

    # ---- sessions: several operations sharing the global ObsTime formats
    def session_op(self, rng, kind, fmt):
        L = self.layouts()
        if kind == "csv":
            ids = rng.choice([l for l in L if l["T"] != -1] * 3 + L)
            c = self.csv_case(rng, ids, rng.choice([",", ";", "|", "\t"]), rng.choice([0, 0, 1]), rng.choice(SRIDS), q=rng.choice(["lat", "lat", None]),
                              pfmt=fmt, naf=rng.choice([0, 0, 1]), n=rng.choice([1, 2, 3]))
            return c
        if kind == "gpx":
            rows, q = self.rand_rows(rng, "GEO", n=rng.choice([1, 2, 3]), q=8)
            return {"kind": "gpx", "srid": "GEO", "q": q, "rows": rows, "rfmt": rng.choice([ISO_FMT, ISO_FMT + "Z"]), "tid": rng.choice([0, 5, "g"])}
        if kind == "gpxdir":
            tids = rng.sample(["a", "b", "c", 11, 12], rng.choice([1, 2, 2, 3]))
            tracks = []
            for tid in tids:
                rows, q = self.rand_rows(rng, "GEO", n=rng.choice([1, 2, 3]), q=8)
                tracks.append({"tid": tid, "rows": rows})
            return {"kind": "gpxdir", "srid": "GEO", "q": 8, "tracks": tracks, "rfmt": rng.choice([ISO_FMT, ISO_FMT + "Z"])}
        if kind == "gpxcoll":
            return self.gpxcoll_case(rng)
        if kind == "net":
            return self.net_case(rng, sep=rng.choice([",", ";"]), h=1)
        if kind == "wkt":
            return self.wkt_case(rng, n=2)
        if kind == "tz":
            return {"kind": "tz", "t": self.rand_stamp(rng)}
        if kind == "time":
            return {"kind": "time", "pfmt": fmt, "rfmt": fmt, "t": self.rand_stamp(rng), "via": rng.choice(["readTimestamp", "ctor"])}
        if kind == "kml":
            srid = rng.choice(["ENU", "GEO"])
            rows, q = self.rand_rows(rng, srid, n=2)
            return {"kind": "kml", "srid": srid, "q": q, "rows": rows, "type": rng.choice(["LINE", "POINT"])}
        raise ValueError(kind)

    SESSION_OPS = ["csv", "gpx", "gpxdir", "gpxcoll", "net", "wkt", "tz", "kml"]

    @staticmethod
    def norm(case):
        """a session with the formats in force written on every operation: `setfmt` operations (the user calling
        ObsTime.setReadFormat / setPrintFormat between two files) and `mid_print` (the print format changed between the write
        and the read of one file) move them; `cur` = [read, print] expected after the operation. Idempotent; applied
        wherever a session case is looked at, so that shrinking a session cannot leave stale annotations."""
        if case.get("kind") != "session":
            return case
        rd = pr = case["fmt"]
        ops = []
        for op in case["ops"]:
            op = dict(op)
            k = op["kind"]
            if k == "setfmt":
                rd = op.get("read") or rd
                pr = op.get("print") or pr
            elif k in ("csv", "time"):
                op["pfmt"], op["rfmt"] = pr, rd
                if k == "csv" and op.get("mid_print"):
                    pr = op["mid_print"]
            elif k == "reread":
                op["pfmt"] = pr
                rd = op["fmts"][-1]
            op["cur"] = [rd, pr]
            ops.append(op)
        return dict(case, ops=ops)

    def same_text_rows(self, rng, f1, f2, n):
        """n pairs of stamps (t1, t2), both valid dates, such that t1 printed under f1 and t2 printed under f2 are the SAME
        text (03/04/2021 is 3 April under 2D/2M/4Y and 4 March under 2M/2D/4Y); None when none was found"""
        out = []
        for _ in range(60 * n):
            t1 = self.rand_stamp(rng)
            if rng.random() < 0.7:      # small fields are valid in every position
                t1 = [t1[0], rng.randrange(1, 13), rng.randrange(1, 13), rng.randrange(0, 24), rng.randrange(0, 24), rng.randrange(0, 24), t1[6]]
            t2 = py_parse(f2, py_print(f1, t1))
            if t2 is not None and valid_stamp(t2) and t2 != py_parse(f1, py_print(f1, t1)):
                out.append((t1, t2))
                if len(out) == n:
                    return out
        return None

    def twin_session(self, rng, fmt):
        """two files in one process, each written and read with its own matching format, the second format a twin of the
        first and the second file holding the very texts of the first (or: the texts first met by readTimestamp / ObsTime(str))"""
        f2 = twin_fmt(fmt, rng)
        n = rng.choice([1, 2, 3])
        pairs = self.same_text_rows(rng, fmt, f2, n)
        if f2 == fmt or pairs is None:
            return None
        L = [l for l in self.layouts() if l["T"] != -1]
        srid = rng.choice(SRIDS)
        c1 = self.csv_case(rng, rng.choice(L), rng.choice([",", ";", "|", "\t"]), rng.choice([0, 1]), srid, pfmt=fmt, n=n)
        c2 = self.csv_case(rng, rng.choice(L), rng.choice([",", ";", "|", "\t"]), rng.choice([0, 1]), srid, pfmt=f2, n=n)
        for r1, r2, (t1, t2) in zip(c1["rows"], c2["rows"], pairs):
            r1[3:10] = t1
            r2[3:10] = t2
        first = rng.choice(["csv", "csv", "time", "reread"])
        if first == "csv":
            ops = [c1]
        elif first == "time":
            ops = [{"kind": "time", "pfmt": fmt, "rfmt": fmt, "t": t1, "via": rng.choice(["readTimestamp", "ctor"])} for t1, _ in pairs]
        else:
            ops = [{"kind": "reread", "t": t1, "fmts": [fmt], "via": "readTimestamp"} for t1, _ in pairs]
        if rng.random() < 0.3:
            ops.append(self.session_op(rng, rng.choice(self.SESSION_OPS), fmt))
        ops += [{"kind": "setfmt", "read": f2, "print": f2}, c2]
        if rng.random() < 0.3:      # and back again
            ops += [{"kind": "setfmt", "read": fmt, "print": fmt}, dict(c1, sep=rng.choice([",", ";"]))]
        return self.norm({"kind": "session", "fmt": fmt, "ops": ops})

    def reread_case(self, rng):
        """one timestamp text read under a sequence of read formats (the first one is the format it was printed with)"""
        f1 = rng.choice(CSV_FMTS)
        fm = [f1]
        for _ in range(rng.choice([1, 2, 3])):
            fm.append(rng.choice([twin_fmt(f1, rng), twin_fmt(f1, rng), f1, rng.choice(CSV_FMTS)]))
        t = self.rand_stamp(rng)
        if rng.random() < 0.7:
            t = [t[0], rng.randrange(1, 13), rng.randrange(1, 13), rng.randrange(0, 24), rng.randrange(0, 24), rng.randrange(0, 24), t[6]]
        return {"kind": "reread", "pfmt": f1, "t": t, "fmts": fm, "via": rng.choice(["readTimestamp", "ctor"])}

    def mixed_session(self, rng):
        """a session in which the user changes the read / print formats between (and inside) the operations"""
        fmt = rng.choice(CSV_FMTS)
        pool = CSV_FMTS + [twin_fmt(fmt, rng), twin_fmt(fmt, rng)]
        ops = []
        for _ in range(rng.choice([2, 3, 4, 5])):
            r = rng.random()
            if r < 0.3:
                f = rng.choice(pool)
                ops.append(rng.choice([{"kind": "setfmt", "read": f, "print": f}, {"kind": "setfmt", "read": f, "print": f},
                                       {"kind": "setfmt", "read": f}, {"kind": "setfmt", "print": f}]))
            else:
                op = self.session_op(rng, rng.choice(self.SESSION_OPS + ["csv", "csv", "time"]), fmt)
                if op["kind"] == "csv":
                    if rng.random() < 0.25:
                        op["mid_print"] = rng.choice(pool)      # the print format is changed between the write and the read
                    if rng.random() < 0.3:
                        op["nread"] = rng.choice([2, 3])        # the file is read by several readers
                ops.append(op)
        if ops[-1]["kind"] == "setfmt":
            ops.append(self.session_op(rng, "csv", fmt))
        return self.norm({"kind": "session", "fmt": fmt, "ops": ops})

    def session_cases(self, rng, tier):
        out = []
        # exhaustive: every operation kind (and every pair of kinds) followed by a CSV round trip with a time column,
        # under every session time format
        for fmt in CSV_FMTS:
            for k1 in self.SESSION_OPS:
                out.append({"kind": "session", "fmt": fmt, "ops": [self.session_op(rng, k1, fmt), self.session_op(rng, "csv", fmt)]})
                for k2 in self.SESSION_OPS:
                    if tier == "thorough" or fmt in (DEFAULT_FMT, ISO_FMT):
                        out.append({"kind": "session", "fmt": fmt,
                                    "ops": [self.session_op(rng, k1, fmt), self.session_op(rng, k2, fmt), self.session_op(rng, "csv", fmt)]})
        for _ in range(600 if tier != "thorough" else 6000):
            fmt = rng.choice(CSV_FMTS)
            n = rng.choice([2, 3, 4])
            ops = [self.session_op(rng, rng.choice(self.SESSION_OPS + ["csv", "gpxdir"]), fmt) for _ in range(n)]
            out.append({"kind": "session", "fmt": fmt, "ops": ops})
        # the formats change during the session: twin formats reading the same texts, formats set between / inside operations
        for fmt in CSV_FMTS:
            for _ in range(40 if tier != "thorough" else 400):
                c = self.twin_session(rng, fmt)
                if c is not None:
                    out.append(c)
        for _ in range(600 if tier != "thorough" else 6000):
            out.append(self.mixed_session(rng))
        for _ in range(300 if tier != "thorough" else 3000):
            out.append(self.reread_case(rng))
        for _ in range(500 if tier != "thorough" else 5000):
            out.append(self.hsession_case(rng))
        return [self.norm(c) for c in out]

    def cases(self, rng, tier):
        out = self.session_cases(rng, tier)
        thorough = tier == "thorough"
        # --- fixed-point contract
        ns = list(range(-2100, 2101))
        for k in range(1, 13):
            for s in (1, -1):
                ns += [s * (10 ** k - 1), s * 10 ** k, s * (10 ** k + 1)]
        for (w, d) in ((10, 3), (20, 10), (3, 8)):
            for i in range(0, len(ns), 200):
                out.append({"kind": "fix", "w": w, "d": d, "ns": ns[i:i + 200]})
            for _ in range(20 if not thorough else 200):
                out.append({"kind": "fix", "w": w, "d": d, "ns": [rng.randrange(-10 ** rng.randrange(1, 15), 10 ** rng.randrange(1, 15)) for _ in range(50)]})
        # --- timestamps
        for f in TIME_FMTS:
            for _ in range(100 if not thorough else 1500):
                out.append({"kind": "time", "pfmt": f, "rfmt": f, "t": self.rand_stamp(rng)})
        for _ in range(30):
            out.append({"kind": "time", "pfmt": ISO_FMT, "rfmt": DEFAULT_FMT, "t": self.rand_stamp(rng)})
        # --- CSV: exhaustive layouts
        for ids in self.layouts():
            for sep in (",", ";", " "):
                for h in (0, 1):
                    for srid in SRIDS:
                        for _ in range(2 if not thorough else 8):
                            out.append(self.csv_case(rng, ids, sep, h, srid))
        L = self.layouts()
        # random CSV: formats, off-lattice values, features, blank separator with a blank-free time format
        for _ in range(4000 if not thorough else 60000):
            ids = rng.choice(L)
            srid = rng.choice(SRIDS)
            sep = rng.choice([",", ";", ";", ",", " ", "\t", "|"])
            pf = rng.choice(CSV_FMTS)
            if sep == " " and rng.random() < 0.8:
                pf = rng.choice([ISO_FMT, "4Y2M2D2h2m2s", "4Y/2M/2D-2h.2m.2s"])
            out.append(self.csv_case(rng, ids, sep, rng.choice([0, 0, 0, 1]), srid, q=rng.choice(["lat", "lat", None]), pfmt=pf,
                                     naf=rng.choice([0, 0, 1, 2])))
        # outside the property's domain (correspondence only): ids that are not a bijection, reader header != writer h, sentinel values
        for _ in range(150 if not thorough else 1500):
            ids = dict(rng.choice(L))
            key = rng.choice(["E", "N", "U", "T"])
            if ids[key] != -1:
                ids[key] = rng.choice([ids[key] + 1, ids[key] + 2, 5])
            out.append(self.csv_case(rng, ids, rng.choice([",", ";"]), 0, rng.choice(SRIDS), naf=rng.choice([0, 0, 1])))
        for _ in range(60 if not thorough else 600):
            out.append(self.csv_case(rng, rng.choice(L), rng.choice([",", ";"]), 0, rng.choice(SRIDS), hdrR=rng.choice([1, 2, 3])))
        # header block written (any h > 0 writes the same three comment lines) and read with every header count, including
        # counts that run into the data lines or past the end of the file
        for h in (1, 2, 3):
            for hdrR in range(6):
                for _ in range(6 if not thorough else 60):
                    out.append(self.csv_case(rng, rng.choice(L), rng.choice([",", ";", "|"]), h, rng.choice(SRIDS), hdrR=hdrR,
                                             naf=rng.choice([0, 1, 2]), n=rng.choice([1, 2, 3])))
        # the other CSV entry point of the writer: TrackWriter.writeToCsv(track, path, TrackFormat)
        for _ in range(300 if not thorough else 3000):
            c = self.csv_case(rng, rng.choice(L), rng.choice([",", ";", "|", "\t"]), rng.choice([0, 1, 1]), rng.choice(SRIDS), q=rng.choice(["lat", "lat", None]),
                              pfmt=rng.choice(CSV_FMTS), n=rng.choice([1, 2, 3]))
            c["front"] = "writeToCsv"
            if rng.random() < 0.3:     # a collection: one file track_output_<i>.csv per track in a directory
                c["more"] = [self.rand_rows(rng, c["srid"], rng.choice([1, 2]), c["q"])[0] for _ in range(rng.choice([1, 2]))]
            out.append(c)
        # writeToFile(track, path) with every other argument left at its default, read back by the matching readFromCsv(path, 0, 1)
        for _ in range(150 if not thorough else 1500):
            c = self.csv_case(rng, {"E": 0, "N": 1, "U": -1, "T": -1}, ",", 0, rng.choice(SRIDS), q=rng.choice(["lat", "lat", None]),
                              pfmt=rng.choice(CSV_FMTS), n=rng.choice([1, 2, 3, 5]))
            c["front"] = "defaults"
            out.append(c)
        # feature columns with int / float / str / nan values, read back with read_all (the names come from the header block)
        for _ in range(1500 if not thorough else 15000):
            h = rng.choice([1, 1, 1, 1, 2, 3, 0])
            out.append(self.csv_case(rng, rng.choice(L), rng.choice([",", ";", ";", "|", "\t", " "]), h, rng.choice(SRIDS), q=rng.choice(["lat", "lat", None]),
                                     pfmt=rng.choice([DEFAULT_FMT, ISO_FMT, ISO_FMT]), naf=rng.choice([0, 1, 2, 3]), n=rng.choice([1, 2, 3]),
                                     hdrR=rng.choice([h, h, h, 0, 1, 2, 3, 4]), rich=rng.random() < 0.8, read_all=rng.random() < 0.85))
        for _ in range(40 if not thorough else 400):
            c = self.csv_case(rng, rng.choice(L), rng.choice([",", ";"]), 0, rng.choice(["ENU", "ECEF"]), n=3)
            c["rows"][rng.randrange(3)][rng.randrange(2)] = rng.choice([-999999000, -999999999, -999999500, -1000000000, -999998999])
            out.append(c)
        # --- GPX
        for _ in range(1500 if not thorough else 15000):
            srid = rng.choice(["GEO", "GEO", "GEO", "ENU", "ECEF"])
            rows, q = self.rand_rows(rng, srid, q=rng.choice([8, 8, None]) if srid == "GEO" else rng.choice([3, None]))
            if srid != "GEO" and rng.random() < 0.5:
                for r in rows:
                    r[2] = 0 if q is not None else 0.0
            c = {"kind": "gpx", "srid": srid, "q": q, "rows": rows, "rfmt": rng.choice([ISO_FMT, ISO_FMT, ISO_FMT + "Z"]),
                 "tid": rng.choice([0, 7, "trace", "t-1"])}
            if rng.random() < 0.1:
                c["stale"] = True
            if rng.random() < 0.4:       # writeToGpx(af=True): an <extensions> block per point
                naf = rng.choice([0, 1, 2, 3])
                c["af_names"] = rng.sample(AF_NAMES[:8] + ["time", "ele", "trk", "trkpt", "E"], naf)
                c["afs"] = [[self.rand_af(rng, True) for nm in c["af_names"]] for _ in rows]
            out.append(c)
        for _ in range(10):
            rows, q = self.rand_rows(rng, "GEO", q=8)
            out.append({"kind": "gpx", "srid": "GEO", "q": q, "rows": rows, "rfmt": DEFAULT_FMT, "tid": 0})
        # a collection written to ONE gpx file (oneFile=True, the default): one <trk> element per track
        for _ in range(300 if not thorough else 3000):
            out.append(self.gpxcoll_case(rng))
        # --- networks
        for sep in (",", ";", " "):
            for h in (0, 1):
                for _ in range(15 if not thorough else 150):
                    out.append(self.net_case(rng, sep, h))
        for _ in range(1500 if not thorough else 20000):
            out.append(self.net_case(rng))
        for _ in range(40):
            c = self.net_case(rng, hdrR=rng.choice([0, 1, 2]))
            out.append(c)
        for _ in range(30):
            c = self.net_case(rng)
            c["posdir"] = -1
            out.append(c)
        # --- WKT
        for x in SWITCH_FLOATS:         # every layout of str(float), as E and as N, in the three coordinate systems
            for srid in ("ENU", "GEO", "ECEF"):
                if srid != "GEO" or abs(x) <= 90:
                    out.append({"kind": "wkt", "srid": srid, "q": None, "pts": [[x, 12.5], [3.25, x]]})
        for _ in range(1500 if not thorough else 20000):
            out.append(self.wkt_case(rng))
        # exported tracks stored one per line in a csv file and read back by readFromWkt
        for _ in range(400 if not thorough else 4000):
            out.append(self.wktfile_case(rng))
        # WKT texts as other tools write them, parsed by TrackReader.parseWkt (reader only): polygons, z values, blanks, case
        for _ in range(400 if not thorough else 4000):
            out.append(self.wktp_case(rng))
        # --- formats given by name
        for name in self.NAMED:
            for _ in range(3 if not thorough else 30):
                out.append(self.named_case(rng, name))
        # --- long tracks, networks, collections, lines (written as a rule: see X)
        return self.spread(out, self.long_cases(rng, tier))

    def gpxcoll_case(self, rng):
        srid = rng.choice(["GEO", "GEO", "GEO", "ENU"])
        q = rng.choice([8, 8, None]) if srid == "GEO" else rng.choice([3, None])
        tids = rng.sample(["a", "b", "c", 11, 12, "t-1", 0], rng.choice([1, 2, 2, 3, 4]))
        tracks = []
        for tid in tids:
            rows = self.rand_rows(rng, srid, n=rng.choice([1, 2, 3]), q=q)[0]
            if srid != "GEO":
                for r in rows:
                    r[2] = 0 if q is not None else 0.0
            tracks.append({"tid": tid, "rows": rows})
        c = {"kind": "gpxcoll", "srid": srid, "q": q, "tracks": tracks, "rfmt": rng.choice([ISO_FMT, ISO_FMT, ISO_FMT + "Z"])}
        if rng.random() < 0.1:
            c["stale"] = True
        return c

    def wkt_case(self, rng, n=None):
        """a track exported by toWKT and parsed back: vertices on the 1 mm / 1e-8 degree lattice (its small values, 1e-08 ...,
        are printed in exponent notation), or any finite floats (q = None)"""
        srid = rng.choice(["ENU", "GEO", "ECEF"])
        n = n or rng.choice([1, 2, 3, 5, 8])
        if rng.random() < 0.5:
            q = 8 if srid == "GEO" else 3
            pts = [[self.rand_coord(rng, srid, 0, q), self.rand_coord(rng, srid, 1, q)] for _ in range(n)]
        else:
            q = None
            pts = [[self.rand_wide(rng, srid, 0), self.rand_wide(rng, srid, 1)] for _ in range(n)]
        return {"kind": "wkt", "srid": srid, "q": q, "pts": pts}

    def wktfile_case(self, rng):
        """tracks exported by toWKT, written by the user one per line into a csv file (user id, track id, WKT text - in
        double quotes or bare - in any column order, with or without a header line and blank lines) and read back by
        TrackReader.readFromWkt"""
        nt = rng.choice([1, 2, 3])
        tracks = []
        for i in range(nt):
            c = self.wkt_case(rng, n=rng.choice([1, 2, 3, 4]))
            tracks.append({"uid": rng.choice(["u1", "7", "alice", "x-%d" % i, "0042"]), "tid": rng.choice(["t%d" % i, str(i), "run_%d" % i, "1e3"]),
                           "pts": c["pts"] if c["q"] is None else [[cval(v, c["q"]) for v in p] for p in c["pts"]]})
        pos = rng.sample([0, 1, 2], 3)       # positions of the wkt, user and track columns in the file
        quoted = rng.random() < 0.6
        sep = rng.choice([";", ";", "|", "\t"] + ([",", " "] if quoted else []))
        hdr = rng.choice([0, 0, 1])
        return {"kind": "wktfile", "tracks": tracks, "sep": sep, "hdr": hdr, "hdrR": hdr if rng.random() < 0.9 else rng.choice([0, 1, 2, 5]),
                "quoted": quoted, "dq": rng.random() < 0.3, "blank": rng.random() < 0.2, "pw": pos[0], "pu": pos[1], "pt": pos[2],
                "iu": pos[1] if rng.random() < 0.8 else -1, "it": pos[2] if rng.random() < 0.8 else -1}

    def wktp_case(self, rng):
        from fractions import Fraction as F
        q = rng.choice([1, 2, 3])

        def num():
            v = rng.choice([rng.randrange(-10 ** 6, 10 ** 6), 0, 5, -25, 1000])
            if rng.random() < 0.2:      # exponent forms as other tools (and str(float)) write them, well formed or not
                return rng.choice(["1e-05", "2.5E+3", "1e5", "-3.25e-7", "1.9290316747799796e-05", "5e-324", "1E16", ".5e1", "5.e-1", "+1e+2",
                                   "1e", "e5", "1e+", "1.5e2.5", "1e-", "1ee5", "1.e", "-e1"])
            return repr(float(F(v, 10 ** q))) if rng.random() < 0.8 else str(v // 10 ** q)
        n = rng.choice([1, 2, 3, 4, 6])
        vs = [" ".join(num() for _ in range(rng.choice([2, 2, 2, 3, 1, 4]))) for _ in range(n)]
        body = rng.choice([",", ",", ", ", " ,"]).join(vs)
        head = rng.choice(["POLYGON", "POLYGON", "Polygon", "polygon ", "POLYGON ", "LINESTRING", "linestring", "LineString ", "MULTIPOLYGON", "MULTIPOLYGON (", "POINT", "", "POLY"])
        if head.strip().upper().startswith("LINE"):
            text = head + "(" + body + ")"
        elif head.strip().upper().startswith("MULTI"):
            text = head + rng.choice(["(((", "(("]) + body + rng.choice([")))", ")),((0 0,1 1)))"])
        else:
            text = head + rng.choice(["((", "((", "(", "(("]) + body + rng.choice(["))", "))", ")", "),(0 0,1 1))"])
        return {"kind": "wktp", "text": text}

    # ---- hidden-state sessions: the class-level state of ObsTime (both formats AND the precompiled read table) is part of
    # the model state (Model/TextIOSession.lean, driver command `sess`); compared after every operation
    HS_FMTS = CSV_FMTS + ["2D/2M/2Y 2h:2m:2s", "1D/1M/4Y 1h:1m:1s", "4Y-2M-2DT2h:2m:2s.3zZ", "2h:2m:2s", "4Y_2M"]

    def hsession_case(self, rng):
        """3-9 operations on one process: the user's setReadFormat / setPrintFormat (R, P), str(t) (p), readTimestamp / ObsTime(str)
        of the last printed text (l) or of a text printed under some other format (r), timeWithZone (z), writeToFile +
        readFromCsv (c), writeToGpx (g)"""
        base = rng.choice(CSV_FMTS)
        pool = self.HS_FMTS + [twin_fmt(base, rng), twin_fmt(base, rng), base, base]
        L = [l for l in self.layouts() if l["T"] != -1]
        ops = []
        for _ in range(rng.choice([3, 4, 5, 6, 7, 9])):
            r = rng.random()
            if r < 0.22:
                f = rng.choice(pool)
                how = rng.choice(["RP", "RP", "R", "P", "PR"])
                for c in how:
                    ops.append({"op": c, "f": f})
            elif r < 0.40:
                ops.append({"op": "p", "t": self.rand_stamp(rng)})
                if rng.random() < 0.7:
                    ops.append({"op": "l", "via": rng.choice(["readTimestamp", "ctor"])})
            elif r < 0.50:
                ops.append({"op": "l", "via": rng.choice(["readTimestamp", "ctor"])})
            elif r < 0.60:
                t = self.rand_stamp(rng)
                if rng.random() < 0.6:
                    t = [t[0], rng.randrange(1, 13), rng.randrange(1, 13), rng.randrange(0, 24), rng.randrange(0, 24), rng.randrange(0, 24), t[6]]
                ops.append({"op": "r", "s": py_print(rng.choice([f for f in pool if fmt_is_lossless(f)]), t), "via": rng.choice(["readTimestamp", "ctor"])})
            elif r < 0.68:
                ops.append({"op": "z", "t": self.rand_stamp(rng)})
            elif r < 0.90:
                srid = rng.choice(SRIDS)
                rows, q = self.rand_rows(rng, srid, n=rng.choice([1, 2, 3]))
                h = rng.choice([0, 0, 1])
                ops.append({"op": "c", "srid": srid, "ids": rng.choice(L * 3 + self.layouts()), "sep": rng.choice([",", ";", "|", "\t"]), "h": h, "hdrR": h,
                            "q": q, "rows": rows})
            else:
                rows, q = self.rand_rows(rng, "GEO", n=rng.choice([1, 2]), q=8)
                ops.append({"op": "g", "tid": rng.choice(["g", "trace", "7"]), "rows": rows})
        return {"kind": "hsession", "ops": ops}

    @staticmethod
    def hs_formats(case):
        """the read / print formats the USER has set before each operation of a hidden-state session (the class body sets both to
        the default format): [(read, print) in force when operation i starts] + [(read, print) at the end]"""
        rd = pr = DEFAULT_FMT
        out = []
        for op in case["ops"]:
            out.append((rd, pr))
            if op["op"] == "R":
                rd = op["f"]
            elif op["op"] == "P":
                pr = op["f"]
        return out + [(rd, pr)]

    @staticmethod
    def hs_csv(op, rd, pr):
        """the `c` operation as a csv case (formats: those in force)"""
        return {"kind": "csv", "srid": op["srid"], "ids": op["ids"], "sep": op["sep"], "h": op["h"], "hdrR": op["hdrR"], "pfmt": pr, "rfmt": rd,
                "q": op["q"], "rows": op["rows"]}

    # ---- formats given by NAME (resources/track_file_format)
    NAMED = ["RTKLIB", "RTKLIB_ENU", "RTKLIB_XYZ", "NAVITIME", "IMU_STEREOPOLIS", "MAPMATCHER", "COTATION_RANDO", "COLLIER_N4", "CHAMOIS"]

    @staticmethod
    def named_lookup(table, name):
        """independent reading of the format table: the line whose first field is `name` -> [ext, id_E, id_N, id_U, id_T, separator,
        header, cmt, no_data, srid, time_fmt, date_ini text or -1, read_all]"""
        for line in table.split("\n"):
            line = line.strip()
            if not line or line.startswith("#"):
                continue
            f = [x.strip() for x in line.split(",")]
            if f[0] == name:
                sep = f[7].replace("b", " ").replace("c", ",").replace("s", ";")
                return [f[1], int(f[2]), int(f[3]), int(f[4]), int(f[5]), sep, int(f[8]), f[9], float(f[10]), f[11], f[12],
                        -1 if f[6] == "-1" else f[6], f[13].upper() == "TRUE"]
        return None

    def named_case(self, rng, name):
        srid = {"RTKLIB": "GEO", "COLLIER_N4": "GEO", "RTKLIB_XYZ": "ECEF"}.get(name, "ENU")
        rows, q = self.rand_rows(rng, srid, n=rng.choice([1, 2, 3]))
        return {"kind": "named", "name": name, "srid": srid, "q": q, "rows": rows}

    def search_cases(self, rng):
        """failing-input search after a broken correspondence: two more draws of the quick generator (every case costs a
        fork; the thorough generator would take minutes)"""
        return self.cases(rng, "quick") + self.cases(rng, "quick")

    def describe(self, case):
        t = {"kind": case["kind"]}
        k = case["kind"]
        if k in ("csv", "gpx", "gpxcoll", "net", "wkt", "wktfile"):
            case = self.X(case)
            t["size"] = size_bucket(self.case_size(case))
        if k == "csv":
            t["feature_columns"] = min(len(case.get("af_names", [])), 10)
        if k == "csv":
            t["sep"] = case["sep"]; t["srid"] = case["srid"]; t["h"] = case["h"]
            t["layout"] = "E%(E)dN%(N)dU%(U)dT%(T)d" % case["ids"]
            t["lattice"] = case["q"] is not None
            t["domain"] = self.csv_domain(case) is None
            t["read_all"] = bool(case.get("read_all"))
            t["front"] = case.get("front", "writeToFile") + ("(collection)" if case.get("more") else "")
        if k in ("net",):
            t["sep"] = case["sep"]; t["h"] = case["h"]; t["edges"] = len(case["edges"])
            t["exact_topology"] = self.net_exact(case)
        if k == "gpx":
            t["srid"] = case["srid"]
            t["extensions"] = "af_names" in case
        if k == "time":
            t["fmt"] = case["pfmt"]
        if k in ("csv", "gpx", "gpxcoll", "net"):
            t["file_exists"] = bool(case.get("stale"))
        if k == "wkt":
            t["srid"] = case["srid"]
            t["floats"] = case["q"] is None
            t["exponent_notation"] = any(v != 0 and (abs(cval(v, case["q"])) < 1e-4 or abs(cval(v, case["q"])) >= 1e16) for p in case["pts"] for v in p)
        if k == "named":
            t["name"] = case["name"]
        if k == "hsession":
            t["ops"] = "".join(sorted(set(o["op"] for o in case["ops"])))
            t["formats_change"] = any(o["op"] in "RP" for o in case["ops"])
        if k == "session":
            t["ops"] = "-".join(o["kind"] for o in case["ops"])
            t["fmt"] = case["fmt"]
            t["formats_change"] = any(o["kind"] == "setfmt" or o.get("mid_print") for o in case["ops"])
        return t

    @staticmethod
    def net_exact(case):
        """every edge ends exactly on the position its end nodes were registered with (first mention)"""
        pos = {}
        for e in case["edges"]:
            for nid, p in ((e["src"], e["geom"][0]), (e["tgt"], e["geom"][-1])):
                if pos.setdefault(nid, p) != p:
                    return False
        return True

    def nontrivial(self, case):
        case = self.X(case)
        k = case["kind"]
        if k == "csv" or k == "gpx":
            return any(any(r[:3]) or r[3:] != [1970, 1, 1, 0, 0, 0, 0] for r in case["rows"])
        if k == "fix":
            return any(case["ns"])
        if k in ("time", "reread"):
            return case["t"] != [1970, 1, 1, 0, 0, 0, 0]
        if k == "setfmt":
            return False
        if k == "net":
            return any(any(any(p) for p in e["geom"]) for e in case["edges"])
        if k == "wkt":
            return any(any(p) for p in case["pts"])
        if k in ("wktp", "wktfile"):
            return True
        if k == "session":
            return any(self.nontrivial(o) for o in case["ops"])
        if k in ("gpxdir", "gpxcoll"):
            return True
        if k == "hsession":
            return any(o["op"] in "pzc" for o in case["ops"])
        return True

    # ------------------------------------------------------------------ implementation
    @staticmethod
    def ekind(e):
        n = type(e).__name__
        return {"IndexError": "index", "ValueError": "value", "WrongArgumentError": "arg", "TypeError": "type",
                "UnboundLocalError": "unbound", "NameError": "unbound"}.get(n, n)

    def mk_track(self, srid, rows, q):
        trk = self.Track()
        for r in rows:
            c = self.Coords[srid](cval(r[0], q), cval(r[1], q), cval(r[2], q))
            trk.addObs(self.Obs(c, self.ObsTime(r[3], r[4], r[5], r[6], r[7], r[8], r[9])))
        return trk

    def obs_rows(self, trk):
        out = []
        for o in trk:
            t = o.timestamp
            out.append([float(o.position.getX()), float(o.position.getY()), float(o.position.getZ()),
                        t.year, t.month, t.day, t.hour, t.min, t.sec, t.ms])
        return out

    ambient = False      # session mode: the global ObsTime formats are those of the session, never set per operation
    leaks = None         # session mode: list of (call, kind of format, before, after) for library calls that changed a global format

    def lib(self, name, fn, *a, **k):
        """a tracklib call; in a session the global read/print formats are compared before and after it"""
        T = self.ObsTime
        before = (T.getReadFormat(), T.getPrintFormat())
        try:
            return fn(*a, **k)
        finally:
            after = (T.getReadFormat(), T.getPrintFormat())
            if self.leaks is not None:
                for what, b, c in (("read", before[0], after[0]), ("print", before[1], after[1])):
                    if b != c:
                        self.leaks.append([name, what, b, c])

    ISOLATED = ("session", "reread", "gpxdir", "gpxcoll", "hsession")
    _runner = None       # (owner pid, child pid, pipe to the child, pipe from the child)

    def impl(self, case):
        """Where the library code runs. This process never executes library code after the imports of setup().
        * multi-operation cases (sessions, reread, gpxdir) each run in a child forked from this pristine process: whatever a
          call leaves behind (class-level formats, memo tables, counters) is seen by the later calls of the SAME case - that is
          what sessions are for - and by no other case;
        * single-operation cases run one after the other in one long-lived child (a fork per case is too dear for 10^4 cases);
          when the oracle rejects what that child answered, the case is run again in a fresh child and THAT answer counts.
        A failing case therefore fails again when replayed alone in a fresh process."""
        if case["kind"] == "fix" or os.environ.get("C13_NOFORK"):
            return self.impl_here(case)
        if case["kind"] in self.ISOLATED:
            return self.fork_call(case)
        out = self.runner_call(case)
        try:
            bad = self.spec(case, out)
        except Exception:
            bad = True
        return self.fork_call(case) if bad else out

    @staticmethod
    def in_lib_call(e):
        """the exception e was raised inside one of the library's write / read calls (they all go through self.lib), as
        opposed to the harness's own plumbing: building the track / network of the case with the library's constructors,
        expanding a long case, reading its own scratch files"""
        tb = e.__traceback__
        while tb is not None:
            if tb.tb_frame.f_code is P.lib.__code__:
                return True
            tb = tb.tb_next
        return False

    def guarded(self, case):
        try:
            return self.impl_here(case)
        except BaseException as e:
            from engine import err_kind
            return {"err": err_kind(e), "detail": str(e)[:200], "in_lib": self.in_lib_call(e)}

    def fork_call(self, case):
        import pickle
        r, w = os.pipe()
        pid = os.fork()
        if pid == 0:
            code = 0
            try:
                os.close(r)
                with os.fdopen(w, "wb") as fh:
                    fh.write(pickle.dumps(self.guarded(case)))
            except BaseException:
                code = 1
            finally:
                os._exit(code)
        os.close(w)
        with os.fdopen(r, "rb") as fh:
            data = fh.read()
        os.waitpid(pid, 0)
        if not data:
            return {"err": "err:child", "detail": "the child process running the case died", "in_lib": True}
        return pickle.loads(data)

    def runner_call(self, case):
        import pickle, struct, io, sys
        R = P._runner
        if R is None or R[0] != os.getpid():
            c2p_r, c2p_w = os.pipe()
            p2c_r, p2c_w = os.pipe()
            pid = os.fork()
            if pid == 0:
                try:
                    os.close(c2p_r); os.close(p2c_w)
                    fin, fout = os.fdopen(p2c_r, "rb"), os.fdopen(c2p_w, "wb")
                    while True:
                        hdr = fin.read(4)
                        if len(hdr) < 4:
                            break
                        c = pickle.loads(fin.read(struct.unpack(">I", hdr)[0]))
                        sys.stdout, sys.stderr = io.StringIO(), io.StringIO()
                        data = pickle.dumps(self.guarded(c))
                        fout.write(struct.pack(">I", len(data)) + data)
                        fout.flush()
                except BaseException:
                    pass
                finally:
                    os._exit(0)
            os.close(c2p_w); os.close(p2c_r)
            R = P._runner = (os.getpid(), pid, os.fdopen(p2c_w, "wb"), os.fdopen(c2p_r, "rb"))
        try:
            data = pickle.dumps(case)
            R[2].write(struct.pack(">I", len(data)) + data)
            R[2].flush()
            hdr = R[3].read(4)
            if len(hdr) < 4:
                raise EOFError
            return pickle.loads(R[3].read(struct.unpack(">I", hdr)[0]))
        except Exception:
            P._runner = None         # the runner died: answer from a fresh child, start another runner next time
            return self.fork_call(case)

    def impl_here(self, case):
        T = self.ObsTime
        save = (T.getReadFormat(), T.getPrintFormat())
        try:
            return getattr(self, "impl_" + case["kind"])(self.X(case))
        finally:
            self.ambient, self.leaks = False, None
            T.setReadFormat(save[0]); T.setPrintFormat(save[1])

    def impl_session(self, case):
        """2-4 operations in one process sharing the global ObsTime formats, which are set ONCE, at the start"""
        T = self.ObsTime
        case = self.norm(case)
        T.setPrintFormat(case["fmt"]); T.setReadFormat(case["fmt"])
        self.ambient = True
        outs = []
        for op in case["ops"]:
            self.leaks = []
            try:
                o = getattr(self, "impl_" + op["kind"])(op)
            except BaseException as e:
                if isinstance(e, KeyboardInterrupt):
                    raise
                o = {"err": self.ekind(e), "detail": str(e)[:200], "in_lib": self.in_lib_call(e)}
            o["leaks"] = self.leaks
            o["fmt_after"] = [T.getReadFormat(), T.getPrintFormat()]
            outs.append(o)
        return {"ops": outs}

    def hidden_state(self):
        """the class-level state of ObsTime: read format, print format, and the private precompiled read table"""
        T = self.ObsTime
        return [T.getReadFormat(), T.getPrintFormat(), [[c, int(i)] for c, i in T._ObsTime__PRECOMPILED_READ_FMT]]

    def impl_hsession(self, case):
        """the operations one after the other in this (fresh) process, from the state the class body leaves; the formats are
        set by the R / P operations only; after every operation the whole class-level state is recorded"""
        T = self.ObsTime
        self.ambient = True
        outs, last = [], ""
        for op in case["ops"]:
            k = op["op"]
            self.leaks = []
            try:
                if k == "R":
                    T.setReadFormat(op["f"]); o = {}
                elif k == "P":
                    T.setPrintFormat(op["f"]); o = {}
                elif k == "p":
                    t = op["t"]
                    last = self.lib("str(ObsTime)", str, T(t[0], t[1], t[2], t[3], t[4], t[5], t[6]))
                    o = {"text": last}
                elif k == "z":
                    t = op["t"]
                    last = self.lib("ObsTime.timeWithZone", T(t[0], t[1], t[2], t[3], t[4], t[5], t[6]).timeWithZone)
                    o = {"text": last}
                elif k in ("l", "r"):
                    o = {"back": self.read_stamp(last if k == "l" else op["s"], op.get("via"))}
                elif k == "c":
                    o = self.impl_csv(self.hs_csv(op, None, None))
                elif k == "g":
                    trk = self.mk_track("GEO", op["rows"], 8)
                    trk.tid = op["tid"]
                    path = self.tmpfile("gpx")
                    try:
                        self.lib("TrackWriter.writeToGpx", self.TW.writeToGpx, trk, path)
                        with open(path, newline="") as fh:
                            text = fh.read()
                    finally:
                        if os.path.exists(path):
                            os.remove(path)
                    o = {"text": "    <trk>\n" + text.partition("    <trk>\n")[2]}
                else:
                    raise ValueError(k)
            except BaseException as e:
                if isinstance(e, KeyboardInterrupt):
                    raise
                o = {"err": self.ekind(e), "detail": str(e)[:200], "in_lib": self.in_lib_call(e)}
            o["state"] = self.hidden_state()
            outs.append(o)
        return {"ops": outs}

    def impl_named(self, case):
        """the two ways of writing a track in a format given by name - writeToFile(track, path, name) and writeToCsv(track, path,
        TrackFormat(name)) - and the matching read readFromFile(path, name); the print format is the format's own time_fmt"""
        T = self.ObsTime
        trk = self.mk_track(case["srid"], case["rows"], case["q"])
        path = self.tmpfile("txt")
        out = {}
        try:
            try:
                self.lib("TrackWriter.writeToFile(track, path, name)", self.TW.writeToFile, trk, path, case["name"])
                out["by_name"] = "ok"
            except Exception as e:
                out["by_name"] = self.ekind(e)
            try:
                fmt = self.lib("TrackFormat(name)", self.TF, case["name"])
            except BaseException as e:
                out["lookup"] = self.ekind(e)
                return out
            out["lookup"] = [fmt.ext, fmt.id_E, fmt.id_N, fmt.id_U, fmt.id_T, fmt.separator, fmt.header, fmt.cmt, float(fmt.no_data_value), fmt.srid, fmt.time_fmt,
                             -1 if isinstance(fmt.time_ini, int) else str(fmt.time_ini), bool(fmt.read_all)]
            with open(self.TF.TRACK_FILE_FORMAT) as fh:
                out["table"] = fh.read()
            T.setPrintFormat(fmt.time_fmt)
            try:
                self.lib("TrackWriter.writeToCsv(track, path, TrackFormat(name))", self.TW.writeToCsv, trk, path, fmt)
                with open(path, newline="") as fh:
                    out["text"] = fh.read()
            except Exception as e:
                out["werr"] = self.ekind(e)
                return out
            try:
                back = self.lib("TrackReader.readFromFile(path, name)", self.TR.readFromFile, path, case["name"])
                out["read"] = self.obs_rows(back)
            except BaseException as e:
                if isinstance(e, KeyboardInterrupt):
                    raise
                out["read"] = self.ekind(e)
            return out
        finally:
            if os.path.exists(path):
                os.remove(path)

    def named_roundtrip_ok(self, case, out):
        if "werr" in out or isinstance(out.get("read"), str) or "read" not in out:
            return False
        lk = out["lookup"]
        return self.check_rows(case["rows"], out["read"], case["q"], case["srid"], "csv", lk[3] != -1, lk[4] != -1, "") is None

    def impl_setfmt(self, case):
        """the user sets the global formats (not a round trip: nothing to check but the formats afterwards)"""
        T = self.ObsTime
        if case.get("read"):
            T.setReadFormat(case["read"])
        if case.get("print"):
            T.setPrintFormat(case["print"])
        return {}

    def read_stamp(self, s, via):
        T = self.ObsTime
        try:
            b = self.lib("ObsTime.readTimestamp", T.readTimestamp, s) if via != "ctor" else self.lib("ObsTime(str)", T, s)
            return [b.year, b.month, b.day, b.hour, b.min, b.sec, b.ms]
        except Exception as e:
            return self.ekind(e)

    def impl_reread(self, case):
        """str(t) under the print format, then the SAME text read under each read format of the list in turn"""
        T = self.ObsTime
        if not self.ambient:
            T.setPrintFormat(case["pfmt"])
        t = case["t"]
        s = str(T(t[0], t[1], t[2], t[3], t[4], t[5], t[6]))
        backs = []
        for f in case["fmts"]:
            T.setReadFormat(f)
            backs.append(self.read_stamp(s, case.get("via")))
        return {"text": s, "backs": backs}

    def impl_tz(self, case):
        t = case["t"]
        s = self.lib("ObsTime.timeWithZone", self.ObsTime(t[0], t[1], t[2], t[3], t[4], t[5], t[6]).timeWithZone)
        return {"text": s}

    def impl_kml(self, case):
        trk = self.mk_track(case["srid"], case["rows"], case["q"])
        path = self.tmpfile("kml")
        try:
            self.lib("TrackWriter.writeToKml", self.TW.writeToKml, trk, path, type=case["type"])
            return {"written": os.path.exists(path)}
        finally:
            if os.path.exists(path):
                os.remove(path)

    def impl_gpxdir(self, case):
        """writeToGpx(collection, <existing directory>, oneFile=False): one file <tid>.gpx per track"""
        T = self.ObsTime
        coll = self.TrackCollection()
        for tr in case["tracks"]:
            trk = self.mk_track(case["srid"], tr["rows"], case["q"])
            trk.tid = tr["tid"]
            coll.addTrack(trk)
        d = tempfile.mkdtemp(prefix="c13d_")
        try:
            self.lib("TrackWriter.writeToGpx(oneFile=False)", self.TW.writeToGpx, coll, d, af=False, oneFile=False)
            files = []
            for tr in case["tracks"]:
                path = os.path.join(d, str(tr["tid"]) + ".gpx")
                with open(path, newline="") as fh:
                    text = fh.read()
                head, _, body = text.partition("    <trk>\n")
                keep = T.getReadFormat()
                T.setReadFormat(case["rfmt"])        # the caller's way of reading a GPX file
                try:
                    back = self.lib("TrackReader.readFromGpx", self.TR.readFromGpx, path, srid=case["srid"])
                    read = [self.obs_rows(back[i]) for i in range(back.size())]
                except Exception as e:
                    read = self.ekind(e)
                finally:
                    T.setReadFormat(keep)
                files.append({"text": "    <trk>\n" + body, "head_ok": self.gpx_head_ok(head), "read": read})
            return {"files": files, "nfiles": len(os.listdir(d))}
        finally:
            shutil.rmtree(d, True)

    def impl_gpxcoll(self, case):
        """writeToGpx(collection, file.gpx) - oneFile=True, the default - then readFromGpx(file.gpx)"""
        T = self.ObsTime
        if not self.ambient:
            T.setPrintFormat(DEFAULT_FMT)
        pf0 = T.getPrintFormat()
        coll = self.TrackCollection()
        for tr in case["tracks"]:
            trk = self.mk_track(case["srid"], tr["rows"], case["q"])
            trk.tid = tr["tid"]
            coll.addTrack(trk)
        path = self.tmpfile("gpx")
        try:
            self.put_stale(case, path, "gpx")
            self.lib("TrackWriter.writeToGpx(collection)", self.TW.writeToGpx, coll, path)
            with open(path, newline="") as fh:
                text = fh.read()
            head, _, body = text.partition("    <trk>\n")
            keep = T.getReadFormat()
            T.setReadFormat(case["rfmt"])
            try:
                back = self.lib("TrackReader.readFromGpx", self.TR.readFromGpx, path, srid=case["srid"])
                read = [self.obs_rows(back[i]) for i in range(back.size())]
            except Exception as e:
                read = self.ekind(e)
            finally:
                if self.ambient:
                    T.setReadFormat(keep)
            return {"text": "    <trk>\n" + body, "head_ok": self.gpx_head_ok(head), "read": read, "print_fmt_restored": T.getPrintFormat() == pf0}
        finally:
            if os.path.exists(path):
                os.remove(path)

    @staticmethod
    def gpx_head_ok(head):
        hl = head.split("\n")
        return (hl[:4] == ['<?xml version="1.0" encoding="UTF-8"?>', "<gpx>", "<metadata>",
                           "<author>File generated by Tracklib: https://github.com/umrlastig/tracklib</author>"]
                and len(hl) == 6 and hl[4].startswith("<time>") and hl[4].endswith("</time></metadata>") and hl[5] == "")

    def impl_fix(self, case):
        f = "{:%d.%df}" % (case["w"], case["d"])
        out = []
        for n in case["ns"]:
            s = f.format(float(Fraction(n, 10 ** case["d"])))
            out.append([s, float(s.strip())])
        return {"out": out}

    def impl_time(self, case):
        T = self.ObsTime
        if not self.ambient:
            T.setPrintFormat(case["pfmt"]); T.setReadFormat(case["rfmt"])
        t = case["t"]
        s = str(T(t[0], t[1], t[2], t[3], t[4], t[5], t[6]))
        return {"text": s, "back": self.read_stamp(s, case.get("via"))}

    def impl_csv(self, case):
        T = self.ObsTime
        ids = case["ids"]
        if not self.ambient:
            T.setPrintFormat(case["pfmt"])
        trk = self.mk_track(case["srid"], case["rows"], case["q"])
        names = case.get("af_names", [])
        for j, nm in enumerate(names):
            trk.createAnalyticalFeature(nm)
            for i in range(len(case["rows"])):
                trk.setObsAnalyticalFeature(nm, i, af_py(case["afs"][i][j]))
        if case.get("more"):
            return self.impl_csv_collection(case)
        path = self.tmpfile("csv")
        try:
            self.put_stale(case, path, "csv")
            try:
                if case.get("front") == "defaults":
                    self.lib("TrackWriter.writeToFile(track, path)", self.TW.writeToFile, trk, path)
                elif case.get("front") == "writeToCsv":
                    from tracklib.io import TrackFormat
                    tf = TrackFormat({"ext": "CSV", "id_E": ids["E"], "id_N": ids["N"], "id_U": ids["U"], "id_T": ids["T"], "separator": case["sep"], "header": case["h"]})
                    self.lib("TrackWriter.writeToCsv", self.TW.writeToCsv, trk, path, tf)
                elif names:
                    self.lib("TrackWriter.writeToFile", self.TW.writeToFile, trk, path, ids["E"], ids["N"], ids["U"], ids["T"], case["sep"], case["h"], names)
                else:
                    self.lib("TrackWriter.writeToFile", self.TW.writeToFile, trk, path, ids["E"], ids["N"], ids["U"], ids["T"], case["sep"], case["h"])
            except Exception as e:
                return {"werr": self.ekind(e)}
            with open(path, newline="") as fh:
                text = fh.read()
            if not self.ambient:
                T.setReadFormat(case["rfmt"])
            if case.get("mid_print"):
                T.setPrintFormat(case["mid_print"])      # the user changes the print format between the write and the read
            reads = []
            for _ in range(case.get("nread", 1)):        # the file written once is read by several readers
                try:
                    back = self.lib("TrackReader.readFromCsv", self.TR.readFromCsv, path, ids["E"], ids["N"], ids["U"], ids["T"], case["sep"], h=case["hdrR"], srid=case["srid"],
                                    read_all=bool(case.get("read_all")))
                    reads.append(self.obs_rows(back))
                    if case.get("read_all") and len(reads) == 1:
                        nms = back.getListAnalyticalFeatures()
                        af = {"names": nms, "vals": [[af_canon(back.getObsAnalyticalFeature(nm, i)) for nm in nms] for i in range(back.size())]}
                except Exception as e:
                    reads.append(self.ekind(e))
            out = {"text": text, "read": reads[0]}
            if case.get("read_all") and not isinstance(reads[0], str):
                out["af"] = af
            if len(reads) > 1:
                out["rereads"] = reads[1:]
            return out
        finally:
            if os.path.exists(path):
                os.remove(path)

    def impl_csv_collection(self, case):
        """TrackWriter.writeToCsv(collection, <directory>, TrackFormat): one file track_output_<i>.csv per track"""
        from tracklib.io import TrackFormat
        T = self.ObsTime
        ids = case["ids"]
        coll = self.TrackCollection()
        all_rows = [case["rows"]] + case["more"]
        for rows in all_rows:
            coll.addTrack(self.mk_track(case["srid"], rows, case["q"]))
        d = tempfile.mkdtemp(prefix="c13c_")
        try:
            tf = TrackFormat({"ext": "CSV", "id_E": ids["E"], "id_N": ids["N"], "id_U": ids["U"], "id_T": ids["T"], "separator": case["sep"], "header": case["h"]})
            self.put_stale(case, os.path.join(d, "track_output_0.csv"), "csv")
            try:
                self.lib("TrackWriter.writeToCsv(collection)", self.TW.writeToCsv, coll, d, tf)
            except Exception as e:
                return {"werr": self.ekind(e)}
            if not self.ambient:
                T.setReadFormat(case["rfmt"])
            files = []
            fnames = ["track_output_%d.csv" % i for i in range(len(all_rows))]
            listing = sorted(os.listdir(d))
            names_differ = sorted(fnames) != listing and len(listing) == len(fnames)
            if names_differ:
                # one file per track, under other names than track_output_<i>.csv: the property does not name the files; they are
                # read in the order of their names and matched with the tracks as a multiset (the correspondence check reports it)
                fnames = listing
            for fname in fnames:
                path = os.path.join(d, fname)
                try:
                    with open(path, newline="") as fh:
                        text = fh.read()
                except OSError:
                    return {"werr": "nofile"}
                try:
                    back = self.lib("TrackReader.readFromCsv", self.TR.readFromCsv, path, ids["E"], ids["N"], ids["U"], ids["T"], case["sep"], h=case["hdrR"], srid=case["srid"])
                    files.append({"text": text, "read": self.obs_rows(back)})
                except Exception as e:
                    files.append({"text": text, "read": self.ekind(e)})
            # the directory read: readFromCsv(<directory>) reads every file of the listing
            try:
                cb = self.lib("TrackReader.readFromCsv(directory)", self.TR.readFromCsv, d, ids["E"], ids["N"], ids["U"], ids["T"], case["sep"], h=case["hdrR"], srid=case["srid"])
                dirread = [self.obs_rows(cb[i]) for i in range(cb.size())]
            except Exception as e:
                dirread = self.ekind(e)
            out = {"text": files[0]["text"], "read": files[0]["read"], "others": files[1:], "nfiles": len(os.listdir(d)), "dir": dirread}
            if names_differ:
                out["names_differ"] = listing
            return out
        finally:
            shutil.rmtree(d, True)

    def impl_gpx(self, case):
        T = self.ObsTime
        if not self.ambient:
            T.setPrintFormat(DEFAULT_FMT)
        pf0 = T.getPrintFormat()
        trk = self.mk_track(case["srid"], case["rows"], case["q"])
        trk.tid = case["tid"]
        for j, nm in enumerate(case.get("af_names", [])):
            trk.createAnalyticalFeature(nm)
            for i in range(len(case["rows"])):
                trk.setObsAnalyticalFeature(nm, i, af_py(case["afs"][i][j]))
        path = self.tmpfile("gpx")
        try:
            self.put_stale(case, path, "gpx")
            if "af_names" in case:
                self.lib("TrackWriter.writeToGpx(af=True)", self.TW.writeToGpx, trk, path, af=True)
            else:
                self.lib("TrackWriter.writeToGpx", self.TW.writeToGpx, trk, path)
            with open(path, newline="") as fh:
                text = fh.read()
            head, _, body = text.partition("    <trk>\n")
            head_ok = self.gpx_head_ok(head)
            keep = T.getReadFormat()
            T.setReadFormat(case["rfmt"])            # the caller's way of reading a GPX file
            try:
                coll = self.lib("TrackReader.readFromGpx", self.TR.readFromGpx, path, srid=case["srid"])
                read = [self.obs_rows(coll[i]) for i in range(coll.size())]
            except Exception as e:
                read = self.ekind(e)
            finally:
                if self.ambient:
                    T.setReadFormat(keep)
            return {"text": "    <trk>\n" + body, "head_ok": head_ok, "read": read, "print_fmt_restored": T.getPrintFormat() == pf0}
        finally:
            if os.path.exists(path):
                os.remove(path)

    def impl_net(self, case):
        q = case["q"]
        C = self.Coords[case["srid"]]
        net = self.Network()
        for e in case["edges"]:
            trk = self.Track([self.Obs(C(cval(p[0], q), cval(p[1], q), 0.0), self.ObsTime()) for p in e["geom"]])
            ed = self.Edge(e["id"], trk)
            ed.orientation = e["orient"]
            if "w" in e:
                ed.weight = e["w"]
            g = e["geom"]
            net.addEdge(ed, self.Node(e["src"], C(cval(g[0][0], q), cval(g[0][1], q), 0.0)),
                        self.Node(e["tgt"], C(cval(g[-1][0], q), cval(g[-1][1], q), 0.0)))
        path = self.tmpfile("csv")
        try:
            self.put_stale(case, path, "net")
            ret = self.lib("NetworkWriter.writeToCsv", self.NW.writeToCsv, net, path, separator=case["sep"], h=case["h"])
            with open(path, newline="") as fh:
                text = fh.read()
            fmt = self.NF({"pos_edge_id": 0, "pos_source": 1, "pos_target": 2, "pos_direction": case["posdir"], "pos_wkt": 4,
                           "separator": case["sep"], "header": case["hdrR"], "srid": case["srid"]})
            try:
                back = self.lib("NetworkReader.readFromFile", self.NR.readFromFile, path, fmt, verbose=False)
                edges = []
                for ed in back.EDGES.values():
                    edges.append({"id": ed.id, "src": ed.source.id, "tgt": ed.target.id, "orient": ed.orientation,
                                  "geom": [[float(o.position.getX()), float(o.position.getY()), float(o.position.getZ())] for o in ed.geom]})
                nodes = [[k, [float(v.coord.getX()), float(v.coord.getY()), float(v.coord.getZ())]] for k, v in back.NODES.items()]
                read = {"edges": edges, "nodes": nodes}
            except Exception as e:
                read = self.ekind(e)
            return {"text": text, "returned_same": ret == text, "read": read}
        finally:
            if os.path.exists(path):
                os.remove(path)

    def impl_wkt(self, case):
        q = case["q"]
        C = self.Coords[case["srid"]]
        trk = self.Track([self.Obs(C(cval(p[0], q), cval(p[1], q), 0.0), self.ObsTime()) for p in case["pts"]])
        text = self.lib("Track.toWKT", trk.toWKT)
        try:
            back = self.lib("TrackReader.parseWkt", self.TR.parseWkt, text)
            read = [[float(o.position.getX()), float(o.position.getY()), float(o.position.getZ())] for o in back]
        except Exception as e:
            read = self.ekind(e)
        return {"text": text, "read": read}

    @staticmethod
    def wktfile_cols(case, uid, tid, w):
        cols = ["", "", ""]
        cols[case["pw"]], cols[case["pu"]], cols[case["pt"]] = w, uid, tid
        return cols

    def impl_wktfile(self, case):
        lines = []
        if case["hdr"]:
            lines.append(case["sep"].join(self.wktfile_cols(case, "user", "track", "wkt")))
        for tr in case["tracks"]:
            trk = self.Track([self.Obs(self.Coords["ENU"](float(p[0]), float(p[1]), 0.0), self.ObsTime()) for p in tr["pts"]])
            w = self.lib("Track.toWKT", trk.toWKT)
            lines.append(case["sep"].join(self.wktfile_cols(case, tr["uid"], tr["tid"], '"' + w + '"' if case["quoted"] else w)))
            if case["blank"]:
                lines.append("")
        text = "".join(l + "\n" for l in lines)
        path = self.tmpfile("wkt")
        try:
            with open(path, "w", newline="") as fh:
                fh.write(text)
            try:
                back = self.lib("TrackReader.readFromWkt", self.TR.readFromWkt, path, case["pw"], case["iu"], case["it"], separator=case["sep"], h=case["hdrR"],
                                doublequote=bool(case["dq"]))
                read = [{"uid": str(back[i].uid) if case["iu"] >= 0 else None, "tid": str(back[i].tid) if case["it"] >= 0 else None,
                         "pts": [[float(o.position.getX()), float(o.position.getY()), float(o.position.getZ())] for o in back[i]]} for i in range(back.size())]
            except BaseException as e:
                if isinstance(e, (KeyboardInterrupt, SystemExit)):
                    raise
                read = self.ekind(e)
            return {"text": text, "read": read}
        finally:
            if os.path.exists(path):
                os.remove(path)

    def impl_wktp(self, case):
        try:
            back = self.lib("TrackReader.parseWkt", self.TR.parseWkt, case["text"])
            return {"read": [[float(o.position.getX()), float(o.position.getY()), float(o.position.getZ())] for o in back]}
        except Exception as e:
            return {"read": self.ekind(e)}

    # ------------------------------------------------------------------ model
    def row_tok(self, r, q, d, afs=()):
        c = [scaled_tok(cval(v, q), d) for v in r[:3]]
        return ",".join([str(v) for v in c + list(r[3:10])] + [af_tok(v) for v in afs])

    def requests(self, case):
        case = self.X(case)
        k = case["kind"]
        if k == "session":
            return [l for op in self.norm(case)["ops"] for l in self.requests(op)]
        if k in ("tz", "kml", "setfmt", "named"):
            return []
        if k == "hsession":
            toks = []
            for op in case["ops"]:
                o = op["op"]
                if o in ("R", "P"):
                    toks.append("%s:%s" % (o, hx(op["f"])))
                elif o in ("p", "z"):
                    toks.append("%s:%s" % (o, ",".join(map(str, op["t"]))))
                elif o == "r":
                    toks.append("r:%s" % hx(op["s"]))
                elif o == "l":
                    toks.append("l:")
                elif o == "c":
                    ids, geo = op["ids"], op["srid"] == "GEO"
                    toks.append("c:%d/%d/%d/%d/%d/%d/%d/%d/%s/%s" % (geo, ids["E"], ids["N"], ids["U"], ids["T"], ord(op["sep"]), op["h"], op["hdrR"], hx(op["srid"]),
                                                                   ";".join(self.row_tok(r, op["q"], 10 if geo else 3) for r in op["rows"])))
                elif o == "g":
                    toks.append("g:%s/%s" % (hx(str(op["tid"])), ";".join(self.row_tok(r, 8, 8) for r in op["rows"])))
            return ["C13.sess " + "~".join(toks)]
        if k == "reread":
            return ["C13.time %s %s %s" % (hx(case["pfmt"]), hx(f), " ".join(map(str, case["t"]))) for f in case["fmts"]]
        if k == "gpxdir":
            return ["C13.gpx 1 %s %s %s" % (hx(case["rfmt"]), hx(str(tr["tid"])), ";".join(self.row_tok(r, case["q"], 8) for r in tr["rows"]))
                    for tr in case["tracks"]]
        if k == "fix":
            return ["C13.fix %d %d %d" % (case["w"], case["d"], n) for n in case["ns"]]
        if k == "time":
            return ["C13.time %s %s %s" % (hx(case["pfmt"]), hx(case["rfmt"]), " ".join(map(str, case["t"])))]
        if k == "gpxcoll":
            return ["C13.gpxc %d %s %s %s" % (case["srid"] == "GEO", hx(case["rfmt"]), ",".join(hx(str(tr["tid"])) for tr in case["tracks"]),
                                              "|".join(";".join(self.row_tok(r, case["q"], 8) for r in tr["rows"]) or "_" for tr in case["tracks"]))]
        if k == "csv" and case.get("more"):
            ids = case["ids"]
            d = 10 if case["srid"] == "GEO" else 3
            trks = "|".join(";".join(self.row_tok(r, case["q"], d) for r in rows) or "_" for rows in [case["rows"]] + case["more"])
            return ([l for rows in [case["rows"]] + case["more"] for l in self.requests(dict({kk: v for kk, v in case.items() if kk != "more"}, rows=rows))]
                    + ["C13.csvdir %d %d %d %d %d %d %d %d %s %s %s %s" % (case["srid"] == "GEO", ids["E"], ids["N"], ids["U"], ids["T"], ord(case["sep"]), case["h"],
                                                                          case["hdrR"], hx(case["pfmt"]), hx(case["rfmt"]), trks, hx(case["srid"]))])
        if k == "csv":
            ids = case["ids"]
            geo = case["srid"] == "GEO"
            d = 10 if geo else 3
            naf = len(case.get("af_names", []))
            rows = ";".join(self.row_tok(r, case["q"], d, case["afs"][i] if naf else ()) for i, r in enumerate(case["rows"]))
            names = ",".join(hx(n) for n in case.get("af_names", [])) or "_"
            return ["C13.csv %d %d %d %d %d %d %d %d %s %s %d %s %s %s %d" % (geo, ids["E"], ids["N"], ids["U"], ids["T"], ord(case["sep"]), case["h"],
                                                                             case["hdrR"], hx(case["pfmt"]), hx(case["rfmt"]), naf, rows,
                                                                             hx(case["srid"]), names,
                                                                             3 if case.get("front") == "defaults" else 2 if case.get("front") == "writeToCsv" else bool(case.get("read_all")))]
        if k == "gpx" and "af_names" in case:
            rows = ";".join(self.row_tok(r, case["q"], 8, case["afs"][i]) for i, r in enumerate(case["rows"]))
            return ["C13.gpxaf %d %s %s %d %s %s" % (case["srid"] == "GEO", hx(case["rfmt"]), hx(str(case["tid"])), len(case["af_names"]),
                                                     ",".join(hx(n) for n in case["af_names"]) or "_", rows)]
        if k == "gpx":
            rows = ";".join(self.row_tok(r, case["q"], 8) for r in case["rows"])
            return ["C13.gpx %d %s %s %s" % (case["srid"] == "GEO", hx(case["rfmt"]), hx(str(case["tid"])), rows)]
        if k == "net":
            d, toks = snum_common([v for e in case["edges"] for p in e["geom"] for v in p[:2]], case["q"])
            it = iter(toks)
            es = ";".join("%s,%s,%s,%d,%s" % (hx(e["id"]), hx(e["src"]), hx(e["tgt"]), e["orient"],
                                              "|".join("%s:%s" % (next(it), next(it)) for p in e["geom"])) for e in case["edges"])
            return ["C13.net %d %d %d %d %d %s" % (ord(case["sep"]), case["h"], case["hdrR"], d, case["posdir"], es)]
        if k == "wkt":
            d, toks = snum_common([v for p in case["pts"] for v in p[:2]], case["q"])
            return ["C13.wkt %d %s" % (d, "|".join("%s:%s" % (toks[2 * i], toks[2 * i + 1]) for i in range(len(case["pts"]))))]
        if k == "wktp":
            return ["C13.wktparse %s" % hx(case["text"])]
        if k == "wktfile":
            d, toks = snum_common([v for tr in case["tracks"] for p in tr["pts"] for v in p[:2]], None)
            it = iter(toks)
            trks = ";".join("%s,%s,%s" % (hx(tr["uid"]), hx(tr["tid"]), "|".join("%s:%s" % (next(it), next(it)) for p in tr["pts"])) for tr in case["tracks"])
            return ["C13.wktfile %d %d %d %d %d %d %d %d %d %d %d %d %s" % (ord(case["sep"]), case["hdr"], case["hdrR"], case["quoted"], case["dq"], case["blank"],
                                                                          case["pw"], case["pu"], case["pt"], case["iu"], case["it"], d, trks)]

    @staticmethod
    def rrow(tok):
        f = tok.split(",")
        return [dec_float(f[0]), dec_float(f[1]), dec_float(f[2])] + [int(v) for v in f[3:]]

    @staticmethod
    def v3(tok):
        return [dec_float(t) for t in tok.split(":")]

    @staticmethod
    def split_wr(reply):
        """'W:<hex> R:<...>' -> (text, rest)"""
        if reply.startswith("werr:"):
            return None, reply
        w, _, r = reply.partition(" R:")
        if not w.startswith("W:"):
            raise ValueError("driver reply " + reply[:80])
        return unhx(w[2:]), r

    def decode(self, case, replies):
        case = self.X(case)
        k = case["kind"]
        if any(r == "bad-request" for r in replies):
            raise ValueError("bad-request")
        if k == "session":
            outs, i = [], 0
            for op in self.norm(case)["ops"]:
                n = len(self.requests(op))
                outs.append(self.decode(op, replies[i:i + n]))
                i += n
            return {"ops": outs}
        if k in ("tz", "kml", "setfmt"):
            return {}
        if k == "named":
            # no Lean model of the named formats (separators of several characters, `%` comment lines, seconds since a reference
            # epoch): what the code on this tree is known to do, see open_statements / the findings named-format-*
            return {"by_name": "type", "roundtrip": False}
        if k == "hsession":
            outs = []
            parts = replies[0].split(" ## ")
            if len(parts) != len(case["ops"]):
                raise ValueError("driver reply: %d operations for %d" % (len(parts), len(case["ops"])))
            for op, part in zip(case["ops"], parts):
                body, _, stt = part.rpartition(" @ ")
                rd, pr, pre = stt.split(",")
                o = {}
                if body.startswith("T") or body.startswith("F"):
                    o = {"text": unhx(body[1:])}
                elif body.startswith("S"):
                    o = {"back": "value" if body == "Snone" else [int(v) for v in body[1:].split(",")]}
                elif body != "-":
                    o = self.decode(self.hs_csv(op, None, None), [body])
                o["state"] = [unhx(rd), unhx(pr), [] if pre == "_" else [[t.split(":")[0], int(t.split(":")[1])] for t in pre.split(".")]]
                outs.append(o)
            return {"ops": outs}
        if k == "reread":
            ds = [self.decode({"kind": "time"}, [r]) for r in replies]
            return {"text": ds[0]["text"], "backs": [d["back"] for d in ds]}
        if k == "gpxdir":
            return {"files": [self.decode({"kind": "gpx"}, [r]) for r in replies]}
        if k == "fix":
            out = []
            for r in replies:
                h, b = r.split(" ")
                out.append([unhx(h), dec_float(b)])
            return {"out": out}
        if k == "time":
            h, b = replies[0].split(" ")
            return {"text": unhx(h), "back": "value" if b == "none" else [int(v) for v in b.split(",")]}
        if k == "gpxcoll":
            return self.decode({"kind": "gpx"}, replies)
        if k == "csv" and case.get("more"):
            one = {kk: v for kk, v in case.items() if kk != "more"}
            ds = [self.decode(dict(one, rows=rows), [r]) for rows, r in zip([case["rows"]] + case["more"], replies[:-1])]
            if any("werr" in d for d in ds):
                return next(d for d in ds if "werr" in d)
            w, _, r = replies[-1].partition(" R:")
            if r.startswith("err:"):
                dirread = r[4:]
            else:
                dirread = [([] if t == "_" else [self.rrow(x) for x in t.split(";")]) for t in r[3:].split("|")] if r[3:] else []
            return {"text": ds[0]["text"], "read": ds[0]["read"], "others": [{"text": d["text"], "read": d["read"]} for d in ds[1:]],
                    "dir": dirread, "dir_texts": [unhx(t) for t in w[2:].split("|")]}
        if k == "wktp":
            r = replies[0]
            return {"read": r[4:] if r.startswith("err:") else [self.v3(t) for t in r[3:].split("|")]}
        text, r = self.split_wr(replies[0])
        if text is None:
            return {"werr": r.split(" ")[0][5:]}
        if k == "wktfile":
            if r.startswith("err:"):
                return {"text": text, "read": r[4:]}
            read = []
            for t in ([] if r[3:] in ("", "_") else r[3:].split(";")):
                u, ti, g = t.split(",")
                read.append({"uid": None if u == "-" else unhx(u), "tid": None if ti == "-" else unhx(ti), "pts": [] if g == "" else [self.v3(x) for x in g.split("|")]})
            return {"text": text, "read": read}
        if r.startswith("err:"):
            read = r[4:]
        else:
            body = r[3:]
            if k == "csv":
                body, _, ab = body.partition(" A:")
                read = [] if body == "_" else [self.rrow(t) for t in body.split(";")]
                if ab:
                    nb, _, vb = ab.partition("|")
                    af = {"names": [] if nb == "_" else [unhx(t) for t in nb.split(",")],
                          "vals": [[] for _ in read] if vb == "_" else [([] if t == "_" else [af_model(x) for x in t.split(",")]) for t in vb.split(";")]}
            elif k == "gpx":
                read = [([] if t == "_" else [self.rrow(x) for x in t.split(";")]) for t in body.split("|")] if body != "_" else []
            elif k == "wkt":
                read = [self.v3(t) for t in body.split("|")]
            elif k == "net":
                eb, _, nb = body.partition(" N:")
                edges = []
                for t in ([] if eb == "_" else eb.split(";")):
                    f = t.split(",")
                    edges.append({"id": unhx(f[0]), "src": unhx(f[1]), "tgt": unhx(f[2]), "orient": int(f[3]),
                                  "geom": [self.v3(p) for p in f[4].split("|")]})
                nodes = []
                for t in ([] if nb == "_" else nb.split(";")):
                    f = t.split(",")
                    nodes.append([unhx(f[0]), self.v3(f[1])])
                read = {"edges": edges, "nodes": nodes}
        out = {"text": text, "read": read}
        if k == "csv" and case.get("read_all") and not isinstance(read, str):
            out["af"] = af
        return out

    def compare(self, case, impl_out, model_out):
        case = self.X(case)
        k = case["kind"]
        if k == "session" and "err" not in impl_out:
            for i, (op, io, mo) in enumerate(zip(self.norm(case)["ops"], impl_out["ops"], model_out["ops"])):
                if "err" in io:
                    return "operation %d (%s) raised %s: %s" % (i, op["kind"], io["err"], io.get("detail"))
                m = self.compare(op, io, mo)
                if m:
                    return "operation %d (%s): %s" % (i, op["kind"], m)
            return None
        if k in ("tz", "kml", "setfmt") and "err" not in impl_out:
            return None
        if k == "named" and "err" not in impl_out:
            if "table" not in impl_out:
                # the constructor itself raised: on this tree it does for the one format with a date_ini (IMU_STEREOPOLIS) - createFromFile
                # parses date_ini with the GLOBAL read format (self.time_fmt still holds ObsTime.getReadFormat() at that point, the
                # format's own time_fmt is assigned four lines later): ValueError under the default read format
                if case["name"] == "IMU_STEREOPOLIS" and impl_out.get("lookup") == "value":
                    return None
                return "TrackFormat(%r) raised %s" % (case["name"], impl_out.get("lookup"))
            want = self.named_lookup(impl_out.get("table", ""), case["name"])
            if impl_out.get("lookup") != want:
                return "TrackFormat(%r): impl=%s, the line of the table says %s" % (case["name"], impl_out.get("lookup"), want)
            if impl_out["by_name"] != model_out["by_name"]:
                return "writeToFile(track, path, %r): %s (was: TypeError from TrackFormat(id_E, 0))" % (case["name"], impl_out["by_name"])
            if self.named_roundtrip_ok(case, impl_out) != model_out["roundtrip"]:
                return "writeToCsv(track, path, TrackFormat(%r)) + readFromFile(path, %r) now round-trips: %s" % (case["name"], case["name"], str(impl_out.get("read"))[:200])
            return None
        if k == "hsession" and "err" not in impl_out:
            for i, (op, io, mo) in enumerate(zip(case["ops"], impl_out["ops"], model_out["ops"])):
                if "err" in io:
                    return "operation %d (%s) raised %s: %s" % (i, op["op"], io["err"], io.get("detail"))
                if io["state"] != mo["state"]:
                    return "operation %d (%s): class-level state of ObsTime (read format, print format, precompiled table): impl=%s model=%s" % (
                        i, op["op"], io["state"], mo["state"])
                a = {kk: v for kk, v in io.items() if kk != "state"}
                b = {kk: v for kk, v in mo.items() if kk != "state"}
                if op["op"] == "c":
                    m = self.compare(self.hs_csv(op, None, None), a, b)
                    if m:
                        return "operation %d (c): %s" % (i, m)
                elif a != b:
                    return "operation %d (%s): impl=%s model=%s" % (i, op["op"], str(a)[:300], str(b)[:300])
            return None
        if k == "reread" and "err" not in impl_out:
            mine = {"text": impl_out["text"], "backs": impl_out["backs"]}
            return None if mine == model_out else "impl=%s model=%s" % (str(mine)[:300], str(model_out)[:300])
        if k == "gpxcoll" and "err" not in impl_out:
            return self.compare({"kind": "gpx"}, impl_out, model_out)
        if k == "gpxdir" and "err" not in impl_out:
            if len(impl_out["files"]) != len(model_out["files"]):
                return "number of files"
            for tr, fi, fm in zip(case["tracks"], impl_out["files"], model_out["files"]):
                m = self.compare({"kind": "gpx"}, fi, fm)
                if m:
                    return "file %s.gpx: %s" % (tr["tid"], m)
            return None
        if "err" in impl_out:
            return "implementation raised %s outside the write/read calls: %s" % (impl_out["err"], impl_out.get("detail"))
        if k == "time":
            impl_out = {"text": impl_out["text"], "back": impl_out["back"]}
        if k in ("fix", "time", "wktp"):
            return None if impl_out == model_out else "impl=%s model=%s" % (str(impl_out)[:300], str(model_out)[:300])
        if "werr" in impl_out or "werr" in model_out:
            return None if impl_out.get("werr") == model_out.get("werr") else "writer: impl=%s model=%s" % (str(impl_out)[:200], str(model_out)[:200])
        if impl_out.get("names_differ"):
            return "the files of the collection are called %s, not track_output_<i>.csv" % impl_out["names_differ"][:5]
        if impl_out["text"] != model_out["text"]:
            a, b = impl_out["text"], model_out["text"]
            i = next((j for j in range(min(len(a), len(b))) if a[j] != b[j]), min(len(a), len(b)))
            return "file text differs at byte %d: impl=%r model=%r" % (i, a[max(0, i - 30):i + 30], b[max(0, i - 30):i + 30])
        if k == "gpx" and not impl_out["head_ok"]:
            return "GPX metadata block is not the expected one"
        if impl_out["read"] != model_out["read"]:
            return "read back: impl=%s model=%s" % (str(impl_out["read"])[:300], str(model_out["read"])[:300])
        for j, (fi, fm) in enumerate(zip(impl_out.get("others", []), model_out.get("others", []))):
            if fi != fm:
                return "file track_output_%d.csv: impl=%s model=%s" % (j + 1, str(fi)[:300], str(fm)[:300])
        if len(impl_out.get("others", [])) != len(model_out.get("others", [])):
            return "number of files written for the collection"
        if "dir" in model_out:
            # the directory read: os.listdir's order is the file system's; the model lists the files in the order written
            if model_out["dir_texts"] != [impl_out["text"]] + [o["text"] for o in impl_out["others"]]:
                return "writeToCsvColl texts differ from the files written"
            a, b = impl_out.get("dir"), model_out["dir"]
            if isinstance(a, str) or isinstance(b, str):
                if a != b:
                    return "directory read: impl=%s model=%s" % (str(a)[:300], str(b)[:300])
            elif sorted(repr([[v + 0.0 for v in r[:3]] + list(r[3:]) for r in t]) for t in a) != sorted(repr([[v + 0.0 for v in r[:3]] + list(r[3:]) for r in t]) for t in b):
                return "directory read (as a multiset of tracks): impl=%s model=%s" % (str(a)[:300], str(b)[:300])
        if impl_out.get("af") != model_out.get("af"):
            return "read_all features: impl=%s model=%s" % (str(impl_out.get("af"))[:300], str(model_out.get("af"))[:300])
        for j, rr in enumerate(impl_out.get("rereads", [])):
            if rr != model_out["read"]:
                return "read number %d of the same file: impl=%s model=%s" % (j + 2, str(rr)[:300], str(model_out["read"])[:300])
        return None

    # ------------------------------------------------------------------ oracle
    def csv_domain(self, case):
        """None when the case is inside the property's domain, else why not"""
        case = self.X(case)
        ids = case["ids"]
        used = [v for v in (ids["E"], ids["N"], ids["U"], ids["T"]) if v != -1]
        if sorted(used) != list(range(len(used))):
            return "column ids are not a permutation of 0..k-1"
        if case["hdrR"] != case["h"]:
            return "reader header differs from the writer's h"
        if case.get("front") == "defaults" and (ids != {"E": 0, "N": 1, "U": -1, "T": -1} or case["sep"] != "," or case["h"] != 0):
            return "writeToFile(track, path) writes its default format: the matching read is readFromCsv(path, 0, 1)"
        if case["h"] not in (0, 1):
            return "the writer's h is a flag (0 or 1)"
        if case["rfmt"] != case["pfmt"] or not fmt_is_lossless(case["pfmt"]):
            return "time format is not read back with itself / is lossy"
        if ids["T"] != -1 and not FULL_CODES <= {c for kd, c in fmt_tokens(case["pfmt"]) if kd == "code"}:
            return "time format omits a field"
        for r in case["rows"] + [r for rows in case.get("more", []) for r in rows]:
            for v in r[:2]:
                x = cval(v, case["q"])
                d = 10 if case["srid"] == "GEO" else 3
                if int(Fraction(scaled(x, d), 10 ** d)) == NODATA:
                    return "coordinate collides with the no-data sentinel"
        if case["sep"] in "0123456789.-+\n\r\"#" or case["sep"] in "".join(case.get("af_names", [])):
            return "separator occurs in numbers"
        for row in case.get("afs", []):
            for v in row:
                t = str(af_py(v))
                if t != t.strip() or t == "" or case["sep"] in t or "\n" in t or t.startswith("#"):
                    return "a feature value is not one field of the line"
        if case.get("read_all") and case["h"] == 0:
            return "read_all takes the column names from the header block: a file written without it has none (the reader raises UnboundLocalError)"
        if case.get("read_all") and any(nm in ("x", "y", "z", "t", "timestamp", "idx") for nm in case.get("af_names", [])):
            return "a feature column has a name the track refuses"
        return None

    @staticmethod
    def coord_tol(srid, axis):
        """the written precision the property promises: 1 mm for metric values (ENU, ECEF, heights), 1e-8 degree for
        longitude / latitude; read-back must lie within half a unit of it"""
        return 0.5e-8 if (srid == "GEO" and axis < 2) else 0.5e-3

    def check_rows(self, want, got, q, srid, kind, useZ, useT, what):
        if isinstance(got, str):
            return "%s: reading the written file raised %s" % (what, got)
        if len(got) != len(want):
            return "%s: %d observations written, %d read back" % (what, len(want), len(got))
        for i, (w, g) in enumerate(zip(want, got)):
            for a in range(3 if useZ else 2):
                x = cval(w[a], q)
                tol = self.coord_tol(srid, a)
                # the written precision: half a unit of the last printed decimal (plus the float spacing of the value itself)
                if abs(g[a] - x) > tol + 4e-16 * max(1.0, abs(x)):
                    return "%s: observation %d coordinate %d written %r read back %r" % (what, i, a, x, g[a])
            if not useZ and g[2] != 0:
                return "%s: observation %d has third coordinate %r although none was written" % (what, i, g[2])
            if useT and list(g[3:9]) != list(w[3:9]):
                return "%s: observation %d timestamp written %s read back %s" % (what, i, w[3:9], g[3:9])
        return None

    def spec(self, case, out):
        case = self.X(case)
        k = case["kind"]
        if "err" in out:
            # an exception that did not come out of a write / read call of the library (building the case, the harness's own
            # file handling) says nothing about the property: the correspondence check reports it, the oracle does not judge it
            if not out.get("in_lib"):
                return None
            return "raised %s (%s)" % (out["err"], out.get("detail"))
        if k == "session":
            # every round trip of the session must hold with the formats the session started with, and no library call may
            # leave the global read / print formats changed ("read back with the matching format" relies on it)
            leak = None
            case = self.norm(case)
            for i, (op, o) in enumerate(zip(case["ops"], out["ops"])):
                tag = "session %r, operation %d (%s)" % (case["fmt"], i, op["kind"])
                if "err" in o:
                    # timeWithZone / writeToKml are in the session for the state they may leave behind: that they raise is not
                    # a failure of a round trip; nor is an exception raised while the operation's input was being built
                    if op["kind"] in ("tz", "kml", "setfmt") or not o.get("in_lib"):
                        continue
                    return "%s raised %s (%s)%s" % (tag, o["err"], o.get("detail"), leak or "")
                m = self.spec(op, o)
                if m:
                    return "%s: %s%s" % (tag, m, leak or "")
                if leak is None:
                    for name, what, b, c in o["leaks"]:
                        leak = " [operation %d (%s): %s left the global ObsTime %s format changed from %r to %r]" % (i, op["kind"], name, what, b, c)
                        break
                    if leak is None and o["fmt_after"] != op["cur"]:
                        leak = " [after operation %d (%s) the global ObsTime read / print formats are %s, the user set %s]" % (i, op["kind"], o["fmt_after"], op["cur"])
            if leak:
                return "session %r:%s" % (case["fmt"], leak)
            return None
        if k in ("tz", "kml", "setfmt"):
            return None
        if k == "named":
            # the oracle of this stream speaks only once the finding is listed (known_findings.json): see classify
            if "named-format-roundtrip" not in self.known_classes:
                return None
            lk = out.get("lookup")
            if not isinstance(lk, list):
                return None
            used = [v for v in lk[1:5] if v != -1]
            if sorted(used) != list(range(len(used))) or not fmt_is_lossless(lk[10]) or lk[11] != -1:
                return None
            if out["by_name"] != "ok":
                return "writeToFile(track, path, %r) raised %s" % (case["name"], out["by_name"])
            if not self.named_roundtrip_ok(case, out):
                return "format %r: written by writeToCsv(track, path, TrackFormat(name)), read by readFromFile(path, name): %s" % (case["name"], str(out.get("read", out.get("werr")))[:300])
            return None
        if k == "hsession":
            # (a) no library call leaves the global read / print formats other than the user set them; (b) a text printed under a
            # lossless format and read back while the read format in force is that same format gives the stamp back - more generally
            # a text that IS what the read format in force prints for a valid stamp is read as that stamp; (c) every writeToFile /
            # readFromCsv pair is a round trip under the formats in force
            fm = self.hs_formats(case)
            last = None
            for i, (op, o) in enumerate(zip(case["ops"], out["ops"])):
                tag = "hidden-state session, operation %d (%s)" % (i, op["op"])
                rd, pr = fm[i]
                if "err" in o:
                    if op["op"] in ("z", "g") or not o.get("in_lib"):
                        continue
                    return "%s raised %s (%s)" % (tag, o["err"], o.get("detail"))
                if o["state"][:2] != list(fm[i + 1]):
                    return "%s left the global ObsTime read / print formats at %s, the user set %s" % (tag, o["state"][:2], list(fm[i + 1]))
                if op["op"] in ("p", "z"):
                    last = o["text"]
                if op["op"] in ("l", "r"):
                    text = last if op["op"] == "l" else op["s"]
                    if text is not None and fmt_is_lossless(rd):
                        want = py_parse(rd, text)
                        if want is not None and valid_stamp(want) and py_print(rd, want) == text and o["back"] != want:
                            return "%s: the text %r is what the read format in force %r prints for %s; it is read back as %s" % (tag, text, rd, want, o["back"])
                if op["op"] == "c":
                    m = self.spec(self.hs_csv(op, rd, pr), {kk: v for kk, v in o.items() if kk != "state"})
                    if m:
                        return "%s under read format %r / print format %r: %s" % (tag, rd, pr, m)
            return None
        if k == "reread":
            # the text s is read under each format f in turn. Whenever s is the text the writer prints, under f, for a valid
            # stamp t' (f lossless), the read under f is a read "with the matching format" of the written t': it must return t'
            for f, back in zip(case["fmts"], out["backs"]):
                if not fmt_is_lossless(f):
                    continue
                want = py_parse(f, out["text"])
                if want is None or not valid_stamp(want) or py_print(f, want) != out["text"]:
                    continue
                if back != want:
                    return "the text %r is what format %r prints for %s; read under %r (after reads under %s) it comes back as %s" % (
                        out["text"], f, want, f, case["fmts"][:case["fmts"].index(f)], back)
            return None
        if k == "gpxcoll":
            if not fmt_is_lossless(case["rfmt"].rstrip("Z")) or not case["rfmt"].startswith(ISO_FMT):
                return None
            rd = out["read"]
            if isinstance(rd, str):
                return "GPX collection: reading the written file raised %s" % rd
            if len(rd) != len(case["tracks"]):
                return "GPX collection: %d tracks written to one file, %d read back" % (len(case["tracks"]), len(rd))
            if not out["print_fmt_restored"]:
                return "GPX writer did not restore the print format"
            for tr, got in zip(case["tracks"], rd):
                m = self.check_rows(tr["rows"], got, case["q"], case["srid"], "gpx", True, True, "GPX collection, track %s" % tr["tid"])
                if m:
                    return m
            return None
        if k == "gpxdir":
            if out["nfiles"] != len(case["tracks"]):
                return "GPX directory: %d tracks written, %d files found" % (len(case["tracks"]), out["nfiles"])
            for tr, fo in zip(case["tracks"], out["files"]):
                if isinstance(fo["read"], str):
                    return "GPX %s.gpx: reading the written file raised %s" % (tr["tid"], fo["read"])
                if len(fo["read"]) != 1:
                    return "GPX %s.gpx: one track written, %d read back" % (tr["tid"], len(fo["read"]))
                m = self.check_rows(tr["rows"], fo["read"][0], case["q"], case["srid"], "gpx", True, True, "GPX %s.gpx" % tr["tid"])
                if m:
                    return m
            return None
        if k == "fix":
            for n, (s, back) in zip(case["ns"], out["out"]):
                if back != float(Fraction(n, 10 ** case["d"])) or len(s) < case["w"]:
                    return "format/float of %d e-%d gives %r -> %r" % (n, case["d"], s, back)
            return None
        if k == "time":
            if case["rfmt"] != case["pfmt"] or not fmt_is_lossless(case["pfmt"]):
                return None
            t = case["t"]
            cs = {c for kd, c in fmt_tokens(case["pfmt"]) if kd == "code"}
            want = [t[0] if "4Y" in cs else 1970, t[1] if "2M" in cs else 1, t[2] if "2D" in cs else 1, t[3] if "2h" in cs else 0,
                    t[4] if "2m" in cs else 0, t[5] if "2s" in cs else 0, t[6] if "3z" in cs else 0]
            if out["back"] != want:
                return "timestamp %s printed as %r with %r reads back as %s" % (t, out["text"], case["pfmt"], out["back"])
            return None
        if k == "csv":
            if self.csv_domain(case) is not None:
                return None
            if "werr" in out:
                return "%s raised %s" % (case.get("front", "writeToFile"), out["werr"])
            ids = case["ids"]
            if case.get("more"):
                if out.get("nfiles") != 1 + len(case["more"]) or len(out.get("others", [])) != len(case["more"]):
                    return "writeToCsv(collection): %d tracks, %s files" % (1 + len(case["more"]), out.get("nfiles"))
                if out.get("names_differ"):
                    left = [case["rows"]] + case["more"]
                    for fname, got in zip(out["names_differ"], [out["read"]] + [fo["read"] for fo in out["others"]]):
                        hit = next((i for i, rows in enumerate(left) if self.check_rows(rows, got, case["q"], case["srid"], "csv", ids["U"] != -1, ids["T"] != -1, "") is None), None)
                        if hit is None:
                            return "writeToCsv(collection): the file %s, read back as %s, is none of the tracks written" % (fname, str(got)[:300])
                        left.pop(hit)
                for j, (rows, fo) in enumerate(zip(case["more"], out["others"])):
                    if out.get("names_differ"):
                        break
                    m = self.check_rows(rows, fo["read"], case["q"], case["srid"], "csv", ids["U"] != -1, ids["T"] != -1,
                                        "CSV collection file track_output_%d.csv sep %r h=%d ids %s" % (j + 1, case["sep"], case["h"], ids))
                    if m:
                        return m
            if case.get("more"):
                # read back through the directory: the same tracks, in the order of the listing (any order)
                dr = out.get("dir")
                if isinstance(dr, str):
                    return "readFromCsv(directory) raised %s" % dr
                left = [case["rows"]] + case["more"]
                if len(dr) != len(left):
                    return "readFromCsv(directory): %d tracks written, %d read back" % (len(left), len(dr))
                for got in dr:
                    hit = next((i for i, rows in enumerate(left) if self.check_rows(rows, got, case["q"], case["srid"], "csv", ids["U"] != -1, ids["T"] != -1, "") is None), None)
                    if hit is None:
                        return "readFromCsv(directory): the track read back as %s is none of the tracks written" % str(got)[:300]
                    left.pop(hit)
            for j, rd in enumerate([] if out.get("names_differ") else [out["read"]] + out.get("rereads", [])):
                m = self.check_rows(case["rows"], rd, case["q"], case["srid"], "csv", ids["U"] != -1, ids["T"] != -1,
                                    "CSV %s sep %r h=%d ids %s time format %r%s" % (case["srid"], case["sep"], case["h"], ids, case["pfmt"],
                                                                                  " (read number %d of the file)" % (j + 1) if j else ""))
                if m:
                    return m
            return None
        if k == "gpx":
            if not fmt_is_lossless(case["rfmt"].rstrip("Z")) or not case["rfmt"].startswith(ISO_FMT):
                return None
            if isinstance(out["read"], str):
                return "GPX: reading the written file raised %s" % out["read"]
            if len(out["read"]) != 1:
                return "GPX: one track written, %d read back" % len(out["read"])
            if not out["print_fmt_restored"]:
                return "GPX writer did not restore the print format"
            return self.check_rows(case["rows"], out["read"][0], case["q"], case["srid"], "gpx", True, True, "GPX %s" % case["srid"])
        if k == "net":
            if case["hdrR"] != case["h"] or case["posdir"] != 3:
                return None
            rd = out["read"]
            if isinstance(rd, str):
                return "network: reading the written file raised %s" % rd
            q = case["q"]
            # expected edges: the writer iterates the EDGES dict (a repeated id keeps its first position, last value)
            want = {}
            for e in case["edges"]:
                want[e["id"]] = e
            want = list(want.values())
            if [e["id"] for e in rd["edges"]] != [e["id"] for e in want]:
                return "network: edges written %s, read back %s" % ([e["id"] for e in want], [e["id"] for e in rd["edges"]])
            for w, g in zip(want, rd["edges"]):
                if (g["src"], g["tgt"], g["orient"]) != (w["src"], w["tgt"], w["orient"]):
                    return "network: edge %s written (%s,%s,%d) read back (%s,%s,%d)" % (w["id"], w["src"], w["tgt"], w["orient"], g["src"], g["tgt"], g["orient"])
                wg = [[cval(p[0], q), cval(p[1], q), 0.0] for p in w["geom"]]
                if g["geom"] != wg:
                    return "network: edge %s geometry written %s read back %s" % (w["id"], wg, g["geom"])
            # nodes: identifiers in order of first appearance, each at the end point of the geometry
            wn = {}
            for e in want:
                for nid, p in ((e["src"], e["geom"][0]), (e["tgt"], e["geom"][-1])):
                    wn.setdefault(nid, [cval(p[0], q), cval(p[1], q), 0.0])
            gn = {n[0]: n[1] for n in rd["nodes"]}
            if gn != wn:
                return "network: nodes written %s read back %s" % (wn, gn)
            return None
        if k == "wktfile":
            # the matching call: the header count of the file, columns read where they are; a bare WKT text needs a separator that
            # does not occur in it
            if case["hdrR"] != case["hdr"]:
                return None
            if not case["quoted"] and case["sep"] in ", ()e+-.0123456789LINESTRG":
                return None
            rd = out["read"]
            if isinstance(rd, str):
                return "WKT file: reading the file %r raised %s" % (out["text"], rd)
            if len(rd) != len(case["tracks"]):
                return "WKT file: %d tracks written, %d read back" % (len(case["tracks"]), len(rd))
            for i, (tr, g) in enumerate(zip(case["tracks"], rd)):
                want = [[float(p[0]), float(p[1])] for p in tr["pts"]]
                if [p[:2] for p in g["pts"]] != want:
                    return "WKT file: track %d exported %s, read back %s" % (i, want, [p[:2] for p in g["pts"]])
                if (case["iu"] >= 0 and g["uid"] != tr["uid"]) or (case["it"] >= 0 and g["tid"] != tr["tid"]):
                    return "WKT file: track %d written for user %r / track id %r, read back %r / %r" % (i, tr["uid"], tr["tid"], g["uid"], g["tid"])
            return None
        if k == "wkt":
            rd = out["read"]
            if isinstance(rd, str):
                return "WKT: parsing the exported text %r raised %s" % (out["text"], rd)
            want = [[cval(p[0], case["q"]), cval(p[1], case["q"])] for p in case["pts"]]
            if [p[:2] for p in rd] != want:
                return "WKT: exported %s, parsed back %s" % (want, [p[:2] for p in rd])
            return None

    # ------------------------------------------------------------------ findings
    def classify(self, case, impl_out, msg):
        case = self.X(case)
        k = case["kind"]
        if k == "csv":
            if case["ids"]["T"] != -1 and case["sep"] in case["pfmt"]:
                return "csv-separator-in-timestamp"
        if k == "named":
            return "named-format-roundtrip"
        if k == "gpx" and case["srid"] != "GEO" and any(r[2] != 0 for r in case["rows"]):
            return "gpx-elevation-non-geo"
        if k == "gpxcoll" and case["srid"] != "GEO" and any(r[2] != 0 for tr in case["tracks"] for r in tr["rows"]):
            return "gpx-elevation-non-geo"
        return None

    # ------------------------------------------------------------------ shrinking / search
    def shrink(self, case):
        k = case["kind"]
        g = case.get("long")
        if g:
            # a long case shrinks by its sizes (the smallest candidate first; the same seed: a prefix of the same track), then
            # loses its optional parts; once it is short it is written out and shrinks like any other case
            for key in ("more", "tracks", "edges", "verts", "n", "each"):
                v = g.get(key)
                if v and v > 1:
                    for nv in sorted({1, 2, v // 2, v * 3 // 4, v * 7 // 8, v - 64, v - 8, v - 1}):
                        if 1 <= nv < v:
                            yield dict(case, long=dict(g, **{key: nv}))
            if g.get("more") == 1 and k == "csv":
                yield dict(case, long={kk: v for kk, v in g.items() if kk not in ("more", "each")})
            if case.get("af_names"):
                c = {kk: v for kk, v in case.items() if kk not in ("af_names", "read_all")}
                yield c
            for key in ("stale", "front"):
                if key in case and not (key == "front" and (case["front"] == "defaults" or g.get("more"))):
                    c = dict(case); c.pop(key); yield c
            if self.case_size(self.X(case)) <= 8:
                yield self.X(case)
            return
        if k == "session":
            ops = case["ops"]
            if len(ops) > 1:
                # the last operation is kept: it is the round trip that shows the effect of what precedes it
                for i in range(len(ops) - 1):
                    yield self.norm(dict(case, ops=ops[:i] + ops[i + 1:]))
                for i in range(1, len(ops)):
                    yield self.norm(dict(case, ops=ops[:i]))
            def stamps(o):
                return {tuple(r[3:10]) for r in o.get("rows", [])}
            for i, op in enumerate(ops):
                for sm in self.shrink(op):
                    if i == len(ops) - 1 and not stamps(sm) <= stamps(op):
                        continue        # the timestamps of the final round trip are what a leaked format corrupts: keep them
                    yield self.norm(dict(case, ops=ops[:i] + [sm] + ops[i + 1:]))
            return
        if k == "hsession":
            ops = case["ops"]
            for i in range(len(ops)):
                if len(ops) > 1:
                    yield dict(case, ops=ops[:i] + ops[i + 1:])
            for i, op in enumerate(ops):
                if op["op"] == "c" and len(op["rows"]) > 1:
                    for j in range(len(op["rows"])):
                        yield dict(case, ops=ops[:i] + [dict(op, rows=op["rows"][:j] + op["rows"][j + 1:])] + ops[i + 1:])
            return
        if k == "reread" and len(case["fmts"]) > 1:
            for i in range(len(case["fmts"])):
                yield dict(case, fmts=case["fmts"][:i] + case["fmts"][i + 1:])
        if k in ("gpxdir", "gpxcoll"):
            if len(case["tracks"]) > 1:
                for i in range(len(case["tracks"])):
                    yield dict(case, tracks=case["tracks"][:i] + case["tracks"][i + 1:])
            for i, tr in enumerate(case["tracks"]):
                if len(tr["rows"]) > 1:
                    yield dict(case, tracks=case["tracks"][:i] + [dict(tr, rows=tr["rows"][:1])] + case["tracks"][i + 1:])
            return
        if k in ("csv", "gpx") and len(case["rows"]) > 1:
            for i in range(len(case["rows"])):
                c = dict(case, rows=case["rows"][:i] + case["rows"][i + 1:])
                if "afs" in case:
                    c["afs"] = case["afs"][:i] + case["afs"][i + 1:]
                yield c
        if k in ("csv", "gpx") and case.get("af_names"):
            c = dict(case); c.pop("af_names"); c.pop("afs"); yield c
        if k in ("csv", "gpx", "gpxcoll", "net") and case.get("stale"):
            c = dict(case); c.pop("stale"); yield c
        if k == "csv":
            for key in ("nread", "mid_print", "more"):
                if key in case:
                    c = dict(case); c.pop(key); yield c
        if k in ("csv", "gpx"):
            for i, r in enumerate(case["rows"]):
                for a in range(3):
                    if r[a] not in (0, 1, 0.0):
                        for nv in ((0, 1) if case["q"] is not None else (0.0, round(r[a], 3))):
                            if nv != r[a]:
                                rows = [list(x) for x in case["rows"]]
                                rows[i][a] = nv
                                yield dict(case, rows=rows)
                if r[3:10] != [1970, 1, 1, 0, 0, 0, 0]:
                    rows = [list(x) for x in case["rows"]]
                    rows[i][3:10] = [2001, 2, 3, 4, 5, 6, 0] if r[3:10] != [2001, 2, 3, 4, 5, 6, 0] else [1970, 1, 1, 0, 0, 0, 0]
                    yield dict(case, rows=rows)
        if k == "net":
            if len(case["edges"]) > 1:
                for i in range(len(case["edges"])):
                    yield dict(case, edges=case["edges"][:i] + case["edges"][i + 1:])
            for i, e in enumerate(case["edges"]):
                if len(e["geom"]) > 2:
                    es = [dict(x) for x in case["edges"]]
                    es[i]["geom"] = [e["geom"][0], e["geom"][-1]]
                    yield dict(case, edges=es)
        if k == "wktfile":
            if len(case["tracks"]) > 1:
                for i in range(len(case["tracks"])):
                    yield dict(case, tracks=case["tracks"][:i] + case["tracks"][i + 1:])
            for i, tr in enumerate(case["tracks"]):
                if len(tr["pts"]) > 1:
                    for j in range(len(tr["pts"])):
                        yield dict(case, tracks=case["tracks"][:i] + [dict(tr, pts=tr["pts"][:j] + tr["pts"][j + 1:])] + case["tracks"][i + 1:])
            if case["blank"]:
                yield dict(case, blank=False)
        if k == "wkt" and len(case["pts"]) > 1:
            for i in range(len(case["pts"])):
                yield dict(case, pts=case["pts"][:i] + case["pts"][i + 1:])
        if k == "fix" and len(case["ns"]) > 1:
            h = len(case["ns"]) // 2
            yield dict(case, ns=case["ns"][:h])
            yield dict(case, ns=case["ns"][h:])

    def mutate(self, case, rng):
        k = case["kind"]
        if k == "csv" and case.get("front") == "defaults":
            return      # the default format is what it is: E column 0, N column 1, ',', no header
        if k == "csv":
            for ids in rng.sample(self.layouts(), 6):
                yield dict(case, ids=ids)
            for sep in (",", ";"):
                for h in (0, 1):
                    yield dict(case, sep=sep, h=h, hdrR=h)
        if k == "net":
            for sep in (",", ";"):
                for h in (0, 1):
                    yield dict(case, sep=sep, h=h, hdrR=h)
