"""C17 — curvilinear abscissa and speed features match their geometric definitions
(tracklib/algo/cinematics.py computeAbsCurv / estimate_speed, algo/analytics.py ds / speed,
core/operators.py Integrator).

Three kinds of cases:
* coordinate-class cases (`cls` present; generators and the independent geodesy in c17coords.py): one track whose positions
  are ENUCoords / GeoCoords / ECEFCoords, an op word over {a, s, S, c, d, o}; model `Model/CinematicsCoords.lean` (driver
  `C17.coords`);
* single-track cases (`kind` enum / lattice-* / float* / pre-* / single): one fresh track, optional features present
  beforehand, an op word over {a = computeAbsCurv, s = estimate_speed(track), S = track.estimate_speed()}; model
  `Model/Cinematics.lean` (driver `C17.run`);
* world histories (`hist` present; generators and the oracle's bookkeeping in c17world.py): observations shared between
  tracks, every entry point, in-place edits of positions and timestamp fields; model `Model/CinematicsTab.lean`
  (driver `C17.world`). The oracle recomputes from the CURRENT positions and stamps after every operation.
  With `cls` present as well: the pool's position objects are GeoCoords / ECEFCoords (or ENUCoords through the class-generic
  step); model `Model/CinematicsTabK.lean` (driver `C17.worldc`).
In every stream the stamps may carry `zone` fields ("zones" of the case; a track merged from loggers set to different zones):
every field of every stamp, zone included, must be what it was after every computation."""
import math, calendar, itertools, time as _time
from fractions import Fraction
from engine import Prop, fbits, bitsf, ratstr, parse_rat, tok_list, untok, close, err_kind
from props import c17world as W
from props import c17coords as C

NAN = float("nan")


def isnan(v):
    return isinstance(v, float) and v != v


def ulp(x):
    return math.ulp(abs(float(x)))


def json_short(op):
    return "[" + ",".join(str(x) if not isinstance(x, list) else "[..]" for x in op) + "]"


class P(Prop):
    id = "C17"
    design_ref = "DESIGN.md section 5, C17"
    theorems = [
        ("TracklibVerif.Props.C17", "TV.C17.abscurv_prefix", "abs_curv[i] = sum of the first i planimetric legs: s[0]=0, s[i+1]=s[i]+|P[i]P[i+1]| (any scalar type, any sqrt)"),
        ("TracklibVerif.Props.C17", "TV.C17.abscurv_geometric", "over an ordered field with a genuine sqrt: each increment is the non-negative d with d*d = dx^2+dy^2, the column is non-decreasing and ends at the planimetric length"),
        ("TracklibVerif.Props.C17", "TV.C17.speed_def", "speed[i] for n>=2: one-sided at both ends, neighbours (i-1,i+1) inside, NaN exactly when the elapsed time is zero"),
        ("TracklibVerif.Props.C17", "TV.C17.pure", "computeAbsCurv / estimate_speed leave positions, timestamps and every other feature unchanged"),
        ("TracklibVerif.Props.C17", "TV.C17.only_adds", "on a fresh track the feature table only gains one appended column (abs_curv resp. speed); the temporary ds is removed"),
        ("TracklibVerif.Props.C17", "TV.C17.idempotent", "a second computeAbsCurv / estimate_speed returns the same column and leaves the track as it was"),
        ("TracklibVerif.Props.C17", "TV.C17.abscurv_table", "on ANY feature table satisfying the laws (Track API: create appends a slot, reads/writes/deletes go through the name's index): computeAbsCurv = addAnalyticalFeature(ds) + Integrator + remove(ds) + read terminates, returns [absc 0..] of the CURRENT positions, abs_curv reads it afterwards, every other name, the coordinates, the times and the invariant are unchanged"),
        ("TracklibVerif.Props.C17", "TV.C17.abscurv_table_again", "on a lawful table that lists abs_curv, computeAbsCurv returns the listed column and every name / coordinate reads as before (temporary ds created and removed)"),
        ("TracklibVerif.Props.C17", "TV.C17.speed_table", "on any lawful table of n>=2 fixes without speed: estimate_speed returns the speed column of the CURRENT positions and times, speed reads it afterwards, nothing else changes"),
        ("TracklibVerif.Props.C17", "TV.C17.speed_table_again", "on a lawful table that lists speed, estimate_speed returns the listed column and does not change the state"),
        ("TracklibVerif.Props.C17", "TV.C17.speedCol_def", "the entries of the speed column: fixes (1,0) / (n-1,n-2) / (i+1,i-1), NaN iff the elapsed time is zero, else distance / elapsed"),
        ("TracklibVerif.Props.C17", "TV.C17.abscurv_monotone_rounded", "abs_curv never decreases WITHOUT exact arithmetic: any preorder, only 0 <= sqrt x and (0 <= d -> a <= a + d) — the two facts of correctly rounded IEEE addition / sqrt — are assumed"),
        ("TracklibVerif.Props.C17", "TV.C17.curvabs_table", "computeCurvAbsBetweenTwoPoints on a lawful table only reads and (exact arithmetic) returns absc (n-1), the value abs_curv ends at"),
        ("TracklibVerif.Props.C17", "TV.C17.spec_table_lawful", "C01's specification table (name -> column) satisfies the laws of a feature table"),
        ("TracklibVerif.Props.C17", "TV.C17.dict_rows_table_lawful", "C01's dict-and-rows table St of a single track (name -> index dict, one features row per observation) satisfies the laws of a feature table under C01's alignment invariant: every table theorem holds on the table as Python lays it out"),
        ("TracklibVerif.Props.C17", "TV.C17.shared_world_lawful", "the world of Obs OBJECTS shared between tracks (per-object features list, per-track name->index dict) satisfies the laws for the track in focus whenever its objects carry AT LEAST as many slots as its dict lists (extra slots from other tracks allowed)"),
        ("TracklibVerif.Props.C17", "TV.C17.abscurv_shared", "computeAbsCurv(track k) as one step of a history on shared observations: returns [absc 0..] of the current positions whatever foreign slots the objects carry; track k reads it under abs_curv"),
        ("TracklibVerif.Props.C17", "TV.C17.speed_shared", "estimate_speed(track k) on shared observations: speed column of the current positions and of the absolute times of the CURRENT timestamp fields"),
        ("TracklibVerif.Props.C17", "TV.C17.positions_and_stamps_unchanged", "for EVERY world (aligned or not, also on exceptions) and every feature operation / entry point (the method track.estimate_speed() included): position and stamp — the seven calendar fields and the zone field — of every observation object and the reference list of every track are unchanged"),
        ("TracklibVerif.Props.C17", "TV.C17.speed_method_is_function", "Track.estimate_speed() (the method of core/track.py, no kernel) is estimate_speed(track) of algo/cinematics.py on every world: same result, same final world"),
        ("TracklibVerif.Props.C17", "TV.C17.zone_not_read", "no operation on features reads the zone field of a stamp: on a world whose zones were rewritten by any function it returns the same value / raises the same exception and ends in the rewritten final world — the elapsed time speed divides by is the difference of the clock readings"),
        ("TracklibVerif.Props.C17", "TV.C17.same_result_whatever_zones", "two worlds differing in zone fields only give the same result of every operation on features and final worlds differing in zones only"),
        ("TracklibVerif.Props.C17", "TV.C17.class_distance", "which distance the features use per coordinate class: ENU -> sqrt(dE^2+dN^2); Geo -> norm2D of self.toENUCoords(point) (East/North in the local frame at `point`); ECEF -> refused by Obs.distance2DTo, AttributeError on position.distance2DTo"),
        ("TracklibVerif.Props.C17", "TV.C17.enu_class_is_cinematics", "on ENU tracks the class-dispatching programs are computeAbsCurv / estimate_speed of the first model (no exception, third coordinate not read)"),
        ("TracklibVerif.Props.C17", "TV.C17.abscurv_prefix_coords", "T1 for every class with a planimetric distance (ENU, Geo): s[0]=0, s[i+1]=s[i]+d_class(P[i+1],P[i]), abs_curv stored, ds removed; any scalar type (Float with libm included)"),
        ("TracklibVerif.Props.C17", "TV.C17.speed_def_coords", "T2 for every class with a planimetric distance: fixes (1,0)/(n-1,n-2)/(i+1,i-1), NaN iff the elapsed time is zero, else d_class / elapsed"),
        ("TracklibVerif.Props.C17", "TV.C17.pure_coords", "for every class, exceptions included: class and coordinates of the positions, timestamps and the other features are unchanged"),
        ("TracklibVerif.Props.C17", "TV.C17.ecef_refused", "ECEF tracks of n>=2 fixes: computeAbsCurv refused, estimate_speed / computeCurvAbsBetweenTwoPoints AttributeError; a ds / speed column of zeros stays on the track"),
        ("TracklibVerif.Props.C17", "TV.C17.abscurv_monotone_coords", "abs_curv never decreases for every class without exact arithmetic (0 <= sqrt x, a <= a+d for d >= 0), whatever the trigonometric functions return"),
        ("TracklibVerif.Props.C17", "TV.C17.geo_distance_horizontal", "over the reals (sin^2+cos^2=1, genuine sqrt): GeoCoords.distance2DTo is the d >= 0 with d^2 + U^2 = |ECEF chord|^2 (horizontal part of the chord in the local frame at `point`), 0 for a repeated position"),
        ("TracklibVerif.Props.C17", "TV.C17.length_table", "the VALUE of Track.length() on a lawful table: only reads, returns the 3D legs sqrt(dx^2+dy^2+dz^2) of P[k+1]-P[k] accumulated in Python's order (any scalar type)"),
        ("TracklibVerif.Props.C17", "TV.C17.duration_table", "the VALUE of Track.duration() on a lawful table of >= 1 fixes: only reads, returns ts[n-1] - ts[0] of the current stamps"),
        ("TracklibVerif.Props.C17", "TV.C17.sorted_table", "the VALUE of Track.isSorted() on a lawful table: true exactly when no consecutive time difference is <= 0 (strictly increasing; a repeated stamp gives False)"),
        ("TracklibVerif.Props.C17", "TV.C17.class_kernel_defines", "the kernel of a class with a planimetric distance (ENU, Geo) behind the Track API: Obs.distance2DTo does not refuse, position.distance2DTo never raises, both compute the class distance of class_distance on the coordinates of the two position objects"),
        ("TracklibVerif.Props.C17", "TV.C17.enu_programs_are_instances", "computeAbsCurvT / estimateSpeedT (the ENU table programs) are the class-generic programs instantiated at analytics.ds / analytics.speed with the ENUCoords distance (by rfl: the same program text)"),
        ("TracklibVerif.Props.C17", "TV.C17.abscurv_table_class", "T1 on ANY lawful feature table for every class with a planimetric distance (Geo included): computeAbsCurv terminates, returns s[0]=0, s[i+1]=s[i]+d_class(P[i+1],P[i]) of the CURRENT positions, abs_curv reads it, ds is removed, every other name / coordinate / time / the invariant unchanged; any scalar type (Float with libm included)"),
        ("TracklibVerif.Props.C17", "TV.C17.abscurv_table_class_again", "on a lawful table of a Geo / ENU track that lists abs_curv, computeAbsCurv returns the listed column and every name / coordinate reads as before"),
        ("TracklibVerif.Props.C17", "TV.C17.speed_table_class", "T2 on any lawful table for every class with a planimetric distance: estimate_speed returns the column with fixes (1,0)/(n-1,n-2)/(i+1,i-1), NaN iff the elapsed time is zero, else d_class / elapsed, of the CURRENT positions and times; speed reads it; nothing else changes"),
        ("TracklibVerif.Props.C17", "TV.C17.speed_table_class_again", "on a lawful table that lists speed, estimate_speed returns the listed column and does not change the state — for ANY kernel (ECEF included: no distance is taken)"),
        ("TracklibVerif.Props.C17", "TV.C17.curvabs_table_class", "computeCurvAbsBetweenTwoPoints on a lawful table of a Geo / ENU track only reads and returns the legs d_class(P[k],P[k+1]) accumulated in Python's order (for Geo: tangent frame at the LATER fix, the other end than ds)"),
        ("TracklibVerif.Props.C17", "TV.C17.abscurv_monotone_class", "the column abscurv_table_class returns never decreases for every class WITHOUT exact arithmetic (0 <= sqrt x, a <= a+d for d >= 0), whatever the trigonometric functions return"),
        ("TracklibVerif.Props.C17", "TV.C17.class_columns_def", "the entries of the columns of abscurv_table_class / speed_table_class for any distance d: s[0]=0, s[i+1]=s[i]+d(P[i+1],P[i]); speed: one value per fix, fixes (1,0)/(n-1,n-2)/(i+1,i-1), NaN iff the elapsed time is zero, else d(P[a],P[b]) / elapsed"),
        ("TracklibVerif.Props.C17", "TV.C17.ecef_refused_table", "ECEF tracks on any lawful table of n>=2 fixes (shared observations included): computeAbsCurv ends in the refusal raised at fix 1, a ds column stays listed with 0 at fix 0, no abs_curv; estimate_speed ends in the AttributeError at fix 0, a speed column stays listed; every other name, coordinates, times, invariant unchanged"),
        ("TracklibVerif.Props.C17", "TV.C17.abscurv_shared_class", "computeAbsCurv(track k) on a pool of Geo (or ENU) observations SHARED between tracks, as one step of a history: prefix sums of the class distance of the current positions whatever foreign slots the objects carry; track k reads them under abs_curv"),
        ("TracklibVerif.Props.C17", "TV.C17.speed_shared_class", "estimate_speed(track k) on shared Geo (or ENU) observations: speed column of the class distance of the current positions and of the absolute times of the CURRENT timestamp fields"),
        ("TracklibVerif.Props.C17", "TV.C17.positions_and_stamps_unchanged_class", "for EVERY kernel (ENU, Geo, ECEF with its refusal and AttributeError, anything else), every world and every feature operation, exceptions included: position and stamp (seven calendar fields and zone) of every observation object and the reference list of every track are unchanged"),
        ("TracklibVerif.Props.C17", "TV.C17.zone_not_read_class", "for every kernel: no operation on features reads the zone field of a stamp (same value / same exception on a world with rewritten zones, rewritten final world)"),
    ]
    partial = []
    open_statements = ["IEEE rounding of sqrt / + / division is outside the theorems (ordered-field statement; the recurrences abscurv_prefix / abscurv_table / speed_table hold for any scalar type, so also for the Float operations in Python's order); sampled by the transfer check with rel. tolerance 1e-9",
                       "Model/CinematicsCoords.lean (the list model of one track per coordinate class, driver `C17.coords`) and Model/CinematicsTabK.lean (the same dispatch behind the Track API, driver `C17.worldc`) are two models of the same Python: both are compared with the implementation on every run, no Lean theorem relates them to each other (the table theorems *_table_class are about the second)",
                       "Track.length() (3D, Obs.distanceTo -> GeoCoords / ECEFCoords.distanceTo) is modelled for ENUCoords only: not generated on Geo / ECEF pools",
                       "the ENU kernel of Model/CinematicsTabK.lean (worldc N) answers NaN when the THIRD coordinate of a fix is NaN, whereas ENUCoords.distance2DTo does not read U; the pools generated and the hypotheses of the class theorems have finite coordinates (the ENU world stream proper, `world`, goes through Model/CinematicsTab.lean, which does not read U)",
                       "geo_distance_horizontal is over the reals: the rounding of the geodetic -> ECEF -> local-frame chain (sin, cos, atan2, pow, sqrt of libm) is outside the theorems; the oracle bounds it by 1e-6 m against its own geodesy (measured < 1e-8 m)",
                       "GeoCoords.toENUCoords is modelled for STANDARD_PROJ == 1 (the module constant of this tree) only"]
    modelled = ("algo/analytics.py ds, speed; core/obs.py Obs.distance2DTo with __check_call_geom1 (ECEF refused); core/obs_coords.py ENUCoords.distance2DTo/distanceTo/__sub__/norm2D/norm, "
                "GeoCoords.distance2DTo = toENUCoords(point).norm2D() (toECEFCoords, ECEFCoords.toENUCoords / toGeoCoords of C14's Model/Geo.lean), ECEFCoords (no distance2DTo: AttributeError); "
                "core/track.py addAnalyticalFeature's exception path (column created before the loop, values written so far kept); core/operators.py Integrator.execute, "
                "Differentiator.execute; core/utils.py addListToAF; algo/cinematics.py computeAbsCurv, estimate_speed, computeCurvAbsBetweenTwoPoints; "
                "core/track.py addAnalyticalFeature (IndexError -> NaN), createAnalyticalFeature (append + index len(dico)), removeAnalyticalFeature, "
                "get/setObsAnalyticalFeature, getAnalyticalFeature, __setitem__(name, list), estimate_speed, getAbsCurv/getSpeed, length, isSorted, duration, getT, "
                "__add__, extract, __getitem__(slice), copy (deep copy with memo), Track.estimate_speed (the method, kernel=None: its own model operation), setTimeZone; "
                "core/obs_time.py toAbsTime / __sub__ from the CURRENT fields (C03's ObsTimeG.toAbsG), the zone field of ObsTime (carried by every observation object of the world; read by no feature program); "
                "two models: Model/Cinematics.lean (a track = lists + name->column map) and Model/CinematicsTab.lean (the programs on the Track API of C01's "
                "Model/Features.lean, instantiated at the specification table and at a WORLD of observation objects shared between tracks); "
                "Model/CinematicsCoords.lean: the same programs on a track of one coordinate class (ENU / Geo / ECEF), with the dispatch of distance2DTo and the exceptions; "
                "Model/CinematicsTabK.lean: that dispatch (Obs.__check_call_geom1, <class>.distance2DTo) as a KERNEL behind the Track API — analytics.ds / speed, addAnalyticalFeature with its "
                "exception path, computeAbsCurv, estimate_speed (function and method), computeCurvAbsBetweenTwoPoints written once for any kernel — and `stepK`: the histories of the world model "
                "(shared Obs objects, +, extract, slicing, copy(), in-place edits, removals) on pools of GeoCoords / ECEFCoords position objects")
    trusted = ["math.sqrt / x**2 are taken as correctly rounded sqrt and x*x (ENU path); on the Geo path x ** 2 is libm's pow(x, 2.0) and sin / cos / atan2 / sqrt are libm's, the same functions Lean's Float calls",
               "class pools of the world stream (`worldc`): Features.Err has no constructor for CoordTypeError / AttributeError; the model's kernel takes the two Err values as parameters (the theorems hold for every choice other than IndexError), the driver instantiates them (Err.type, Err.key) and prints them err:refused / err:attr",
               "coords stream: which exception CLASS a refusal raises is not compared (obs.py raises CoordTypeError without importing the name, so a NameError surfaces); NameError and CoordTypeError both count as the refusal",
               "single-track stream (`run`): ObsTime.toAbsTime() values are computed by the harness as sec + ms/1000.0; world stream: the model computes them from the timestamp fields (C03's toAbsG)"]
    rule = ("exhaustive: all tracks of 2..4 (quick) / 2..5 (thorough) fixes whose legs are k*(3,4), k in {-1,0,1,2}, with dt in {0,1,2} s, op word 'asas'; "
            "all histories of 2 (quick) / 3 (thorough) operations over {computeAbsCurv, estimate_speed on a track and on a section sharing its observations, "
            "addAnalyticalFeature(speed), remove abs_curv / speed, in-place edit of a position / of a timestamp field / of a zone field, duration()} on a 4-fix pool; "
            "random single-track cases (2..8 fixes, one in 40 of 16..300 fixes): exact lattice tracks at Rat, float tracks (short 1e-6 / long 1e7 legs, repeated positions and timestamps, millisecond stamps) at Float, "
            "tracks with features present beforehand, op words over {a = computeAbsCurv, s = estimate_speed(track), S = track.estimate_speed()}; 25 % of these tracks carry zone fields "
            "(one non-zero zone, two loggers set to different zones, a zone per fix); "
            "random WORLD histories (c17world.py): a pool of 3..8 observations, tracks made by +, extract, slicing (shared Obs objects) and copy(), every entry point "
            "(computeAbsCurv, estimate_speed function / method, addAnalyticalFeature(speed | ds), operate(INTEGRATOR | DIFFERENTIATOR), length, "
            "computeCurvAbsBetweenTwoPoints, getAbsCurv / getSpeed / track[name], removeAnalyticalFeature, track[name] = list, isSorted / duration / getT), in-place edits of "
            "positions (setX / setObsAnalyticalFeature / attribute) and of timestamp fields (sec, min, ms, zone; setTimeZone), 35 % of the pools stamped with zone fields (one zone, two loggers, per fix), directed templates (sum of a computed and a fresh segment, section then "
            "parent, compute-edit-remove-recompute, time evaluation then field edit then speed, all orders, deep copy) plus free random histories; the oracle keeps its own "
            "bookkeeping and checks every fresh (or still valid) computation against the CURRENT positions and stamps, and after EVERY operation every field of every stamp (zone included) of every observation; "
            "elapsed time = difference of the clock readings; between two stamps of DIFFERENT zones the difference of the instants is accepted as well (the statement does not say which); "
            "COORDINATE CLASSES (c17coords.py): directed walks (Paris, date line, equator, pole, climb) as GeoCoords and as ECEFCoords, then random tracks of 1..8 fixes, 60 % GeoCoords "
            "(steps 0 / 1e-8 .. 1 degree along a parallel, a meridian or oblique, heights -400..9000 m with jumps, longitudes wrapping at +-180, latitudes up to the poles), 20 % ENUCoords, 20 % ECEFCoords, "
            "op words over {computeAbsCurv, estimate_speed (function, method), computeCurvAbsBetweenTwoPoints, addAnalyticalFeature(ds), Obs.distance2DTo of consecutive fixes}, features present beforehand, 25 % with zone fields; the oracle recomputes "
            "the planimetric distance of Geo fixes with its own geodesy (tangent frame at either fix accepted, 1e-6 m allowance) and checks positions, their CLASS and the stamps after every case, refused or not. "
            "WORLD histories on pools of GeoCoords (70 %) / ECEFCoords (20 %) / ENUCoords (10 %) position objects (driver `C17.worldc`, at Float): the same templates and free histories on the walks of c17coords.py, "
            "in-place edits of lon / lat / hgt (setX, setObsAnalyticalFeature, attribute, new coordinate object), 10 directed histories on the Paris walk per class; the oracle checks every computation "
            "against its own geodesy of the CURRENT positions, the CLASS of every position object and every stamp field after every operation, ECEF pools for purity only (refusals expected). "
            "non-trivial = at least 2 fixes, one non-zero leg (world: and at least one computation; coords / class worlds: a class that defines a planimetric distance)")

    def setup(self):
        from tracklib.core.obs import Obs
        from tracklib.core.obs_coords import ENUCoords, GeoCoords, ECEFCoords
        from tracklib.core.obs_time import ObsTime
        from tracklib.core.track import Track
        from tracklib.algo.cinematics import computeAbsCurv, estimate_speed, computeCurvAbsBetweenTwoPoints
        from tracklib.algo.analytics import ds, speed
        from tracklib.core.operators import Operator
        self.Obs, self.ENU, self.T, self.Track = Obs, ENUCoords, ObsTime, Track
        self.COORDS = {"N": ENUCoords, "G": GeoCoords, "X": ECEFCoords}
        self.computeAbsCurv, self.estimate_speed = computeAbsCurv, estimate_speed
        self.curvAbsBetween, self.ds, self.speed, self.Operator = computeCurvAbsBetweenTwoPoints, ds, speed, Operator

    # ---------------------------------------------------------------- generators
    OPS = ["a", "s", "as", "sa", "aa", "ss", "asas", "aas", "ssa", "saas", "S", "aS", "Sa", "SS", "sS", "aSa"]   # S = the method track.estimate_speed()

    def exhaustive_scopes(self, tier):
        n = 5 if tier == "thorough" else 4
        return ["all tracks of 2..%d fixes with legs k*(3,4), k in {-1,0,1,2} and elapsed times in {0,1,2} s per leg (op word asas)" % n,
                "all histories of %d operations over {computeAbsCurv / estimate_speed on a 4-fix track and on a 2-fix section sharing its observations, "
                "addAnalyticalFeature(speed), remove abs_curv, remove speed, in-place edit of a position, in-place edit of a timestamp field, duration(), in-place edit of a zone field}"
                % (3 if tier == "thorough" else 2)]

    def cases(self, rng, tier):
        out = []
        nmax = 5 if tier == "thorough" else 4
        for n in range(2, nmax + 1):
            for ks in itertools.product((-1, 0, 1, 2), repeat=n - 1):
                for dts in itertools.product((0, 1, 2), repeat=n - 1):
                    pos, t, k = [[0, 0, 0]], [0], 0
                    for a, d in zip(ks, dts):
                        k += a
                        pos.append([3 * k, 4 * k, k % 3])
                        t.append(t[-1] + d * 1000)
                    out.append({"kind": "enum", "mode": "q", "pos": pos, "tms": t, "feats": [], "ops": "asas"})
        nrand = 2500 if tier == "quick" else 40000
        for _ in range(nrand):
            out.append(self.lattice(rng))
        for _ in range(nrand):
            out.append(self.floaty(rng))
        for _ in range(nrand // 3):
            out.append(self.prefeat(rng))
        # histories on observations shared between tracks, every entry point, in-place edits (c17world.py)
        out += W.enum_world(2)
        if tier == "thorough":
            out += W.enum_world(3)
        for _ in range(nrand * 2):
            out.append(W.gen_world(rng))
        # the same histories on pools of GeoCoords / ECEFCoords position objects (Model/CinematicsTabK.lean, driver `C17.worldc`)
        out += W.enum_world_classes()
        for _ in range(nrand // 2):
            out.append(W.gen_world(rng, cls=self.world_cls(rng)))
        # one track per coordinate class (c17coords.py): directed walks first, then random
        out += C.enum_coords()
        for _ in range(nrand):
            out.append(self.with_zones(rng, C.gen_coords(rng, self.times)))
        # single-fix tracks (outside the statement: correspondence only)
        for _ in range(20):
            out.append({"kind": "single", "mode": "q", "pos": [[rng.randrange(-5, 5), rng.randrange(-5, 5), 1]],
                        "tms": [rng.randrange(0, 10 ** 9) * 1000], "feats": [], "ops": rng.choice(self.OPS)})
        return out

    @staticmethod
    def world_cls(rng):
        r = rng.random()
        return "G" if r < 0.7 else "X" if r < 0.9 else "N"

    def times(self, rng, n, ms=False):
        t = [rng.choice([0, 1, 86399, 951782400, rng.randrange(0, 2 * 10 ** 9)]) * 1000]
        for _ in range(n - 1):
            d = rng.choice([0, 0, 1, 1, 2, 3, 5, 10, 60, 3600, 86400, rng.randrange(0, 100000)]) * 1000
            if ms:
                d += rng.choice([0, 1, 2, 10, 500, 999, rng.randrange(0, 1000)])
            t.append(t[-1] + d)
        return t

    def size(self, rng):
        """2..8 fixes; one track in 40 is long (a branch taken only above some size must not escape)"""
        return rng.choice([16, 33, 64, 129, 300]) if rng.random() < 0.025 else rng.randrange(2, 9)

    def lattice(self, rng):
        n = self.size(rng)
        shape = rng.choice(["line", "rect", "axis"])
        bx, by = rng.randrange(-50, 50), rng.randrange(-50, 50)
        pos = []
        if shape == "line":
            s = rng.choice([1, 1, 2, 7, 1000, 10 ** 6])
            k = 0
            for _ in range(n):
                pos.append([bx + 3 * s * k, by + 4 * s * k])
                k += rng.choice([0, 0, 1, 1, 2, -1, -3, rng.randrange(-20, 20)])
        elif shape == "rect":
            s = rng.choice([1, 2, 5, 100])
            corners = [(0, 0), (3 * s, 0), (3 * s, 4 * s), (0, 4 * s)]
            for _ in range(n):
                c = rng.choice(corners)
                pos.append([bx + c[0], by + c[1]])
        else:
            horiz = rng.random() < 0.5
            k = 0
            for _ in range(n):
                pos.append([bx + k, by] if horiz else [bx, by + k])
                k += rng.choice([0, 1, 1, 2, -1, 10 ** 6, -10 ** 6, rng.randrange(-9, 9)])
        if rng.random() < 0.3:   # half-integer offset keeps everything dyadic
            pos = [[p[0] + 0.5, p[1] - 0.5] for p in pos]
        pos = [[p[0], p[1], rng.choice([0, 0, 1, -7, 100, rng.randrange(-50, 50)])] for p in pos]
        return self.with_zones(rng, {"kind": "lattice-" + shape, "mode": "q", "pos": pos, "tms": self.times(rng, n), "feats": [], "ops": rng.choice(self.OPS)})

    def with_zones(self, rng, case):
        """the `zone` field of the stamps (not read by toAbsTime): one other zone for the whole track, two loggers set to
        different zones, a zone per fix; most tracks keep zone 0 (no "zones" key)"""
        r, n = rng.random(), len(case["pos"])
        if r < 0.25:
            zs = [0, 1, 2, -5, 12, -11]
            if r < 0.06 or n < 2:
                case["zones"] = [rng.choice(zs[1:])] * n
            elif r < 0.18:
                m = rng.randrange(1, n)
                case["zones"] = [rng.choice(zs)] * m + [rng.choice(zs)] * (n - m)
            else:
                case["zones"] = [rng.choice(zs[:4]) for _ in range(n)]
        return case

    def floaty(self, rng):
        n = self.size(rng)
        x, y = rng.uniform(-1000, 1000), rng.uniform(-1000, 1000)
        pos = []
        for _ in range(n):
            pos.append([x, y, rng.choice([0.0, rng.uniform(-100, 100)])])
            step = rng.choice([0.0, 1e-6, 1e-3, 1.0, 10.0, 1e4, 1e7, rng.uniform(0, 100)])
            if step:
                a = rng.uniform(0, 2 * math.pi)
                x, y = x + step * math.cos(a), y + step * math.sin(a)
        ms = rng.random() < 0.3
        return self.with_zones(rng, {"kind": "float-ms" if ms else "float", "mode": "f", "pos": pos, "tms": self.times(rng, n, ms), "feats": [], "ops": rng.choice(self.OPS)})

    def prefeat(self, rng):
        c = self.lattice(rng) if rng.random() < 0.6 else self.floaty(rng)
        n = len(c["pos"])
        names = rng.sample(["w", "ds", "abs_curv", "speed", "q"], rng.randrange(1, 4))
        c["feats"] = [[nm, [rng.choice([0.0, 1.0, 2.5, -3.0, "nan", float(rng.randrange(-9, 9))]) for _ in range(n)]] for nm in names]
        c["kind"] = "pre-" + c["kind"]
        c["ops"] = rng.choice(self.OPS)
        return c

    def legs(self, case):
        p = case["pos"]
        return [math.hypot(p[i + 1][0] - p[i][0], p[i + 1][1] - p[i][1]) for i in range(len(p) - 1)]

    def describe1(self, case):
        n = len(case["pos"])
        t = case["tms"]
        return {"kind": case["kind"], "n": n, "ops": case["ops"], "zones": self.zone_tag(W.zones_of(case)),
                "repeated_pos": any(l == 0 for l in self.legs(case)), "repeated_time": any(t[i] == t[i + 1] for i in range(n - 1))}

    @staticmethod
    def zone_tag(zones):
        return "0" if not any(zones) else "one" if len(set(zones)) == 1 else "mixed"

    def nontrivial1(self, case):
        return len(case["pos"]) >= 2 and any(l > 0 for l in self.legs(case))

    # ---------------------------------------------------------------- implementation
    def stamp(self, tms, zone=0):
        """an ObsTime object reading `tms` milliseconds after 1970-01-01 00:00:00 on a clock set to `zone`"""
        t = self.T.readUnixTime(tms // 1000)
        t.ms = tms % 1000
        t.zone = zone
        return t

    def build(self, case):
        tr = self.Track([], 1)
        for p, tms, z in zip(case["pos"], case["tms"], W.zones_of(case)):
            tr.addObs(self.Obs(self.ENU(p[0], p[1], p[2]), self.stamp(tms, z)))
        for name, col in case["feats"]:
            tr.createAnalyticalFeature(name)
            for i, v in enumerate(col):
                tr.setObsAnalyticalFeature(name, i, NAN if v == "nan" else v)
        return tr

    def impl1(self, case):
        tr = self.build(case)
        rets = []
        for op in case["ops"]:
            r = self.computeAbsCurv(tr) if op == "a" else tr.estimate_speed() if op == "S" else self.estimate_speed(tr)
            rets.append(list(r))
        feats = [[nm, list(tr.getAnalyticalFeature(nm))] for nm in tr.getListAnalyticalFeatures()]
        xyz, t, tms, zones = [], [], [], []
        for i in range(tr.size()):
            o = tr.getObs(i)
            xyz.append([o.position.getX(), o.position.getY(), o.position.getZ()])
            s = o.timestamp
            t.append(s.toAbsTime())
            tms.append(calendar.timegm((s.year, s.month, s.day, s.hour, s.min, s.sec)) * 1000 + s.ms)
            zones.append(s.zone)
        return {"rets": rets, "feats": feats, "xyz": xyz, "t": t, "tms": tms, "zones": zones, "n": tr.size()}

    # ---------------------------------------------------------------- model
    def abs_t(self, tms):
        return (tms // 1000) + (tms % 1000) / 1000.0 if tms % 1000 else tms // 1000

    def requests1(self, case):
        q = case["mode"] == "q"
        enc = (lambda v: "nan" if v == "nan" else ratstr(v)) if q else (lambda v: "nan" if v == "nan" else fbits(v))
        xs = tok_list(enc(p[0]) for p in case["pos"])
        ys = tok_list(enc(p[1]) for p in case["pos"])
        if q:
            ts = tok_list(ratstr(Fraction(t, 1000)) for t in case["tms"])
        else:
            ts = tok_list(fbits((t // 1000) + (t % 1000) / 1000.0) for t in case["tms"])
        feats = tok_list((nm + ":" + tok_list(enc(v) for v in col) for nm, col in case["feats"]), sep=";")
        # the method track.estimate_speed() (kernel None) is the function: one model operation
        return ["C17.run %s %s %s %s %s %s" % (case["mode"], xs, ys, ts, feats, case["ops"].replace("S", "s"))]

    def decode1(self, case, replies):
        r = replies[0]
        if r == "bad-request":
            raise ValueError("bad-request")
        q = case["mode"] == "q"
        dec = (lambda w: NAN if w == "nan" else float(parse_rat(w))) if q else bitsf
        rets_t, feats_t, xs, ys, ts = r.split(" ")
        rets = [None if c == "none" else [dec(w) for w in untok(c)] for c in untok(rets_t, "|")]
        feats = []
        for f in untok(feats_t, ";"):
            nm, col = f.split(":")
            feats.append([nm, [dec(w) for w in untok(col)]])
        xs, ys, ts = [dec(w) for w in untok(xs)], [dec(w) for w in untok(ys)], [dec(w) for w in untok(ts)]
        return {"rets": rets, "feats": feats, "xyz": [[x, y, p[2]] for x, y, p in zip(xs, ys, case["pos"])],
                "t": ts, "tms": list(case["tms"]), "zones": W.zones_of(case), "n": len(xs)}

    # ---------------------------------------------------------------- oracle (transfer)
    def spec1(self, case, out):
        if "err" in out:
            return "raised %s (%s)" % (out["err"], out.get("detail"))
        pos, tms, n = case["pos"], case["tms"], len(case["pos"])
        # computing the features leaves positions and timestamps unchanged
        if out["n"] != n or not close(out["xyz"], pos, 0.0, 0.0):
            return "positions changed: %s -> %s" % (pos, out["xyz"])
        if out["tms"] != tms:
            return "timestamps changed: %s -> %s" % (tms, out["tms"])
        zones = W.zones_of(case)
        if out["zones"] != zones:
            return "timestamps changed: their zone fields were %s, are %s" % (zones, out["zones"])
        given = {nm for nm, _ in case["feats"]}
        after = dict((nm, col) for nm, col in out["feats"])
        for nm, col in case["feats"]:
            if nm in ("ds", "abs_curv", "speed"):
                continue
            want = [NAN if v == "nan" else v for v in col]
            if nm not in after or not close(after[nm], want, 0.0, 0.0):
                return "feature %s changed: %s -> %s" % (nm, want, after.get(nm))
        if n < 2:
            return None
        legs = [math.hypot(pos[i + 1][0] - pos[i][0], pos[i + 1][1] - pos[i][1]) for i in range(n - 1)]
        total = math.fsum(legs)
        for op, ret in zip(case["ops"], out["rets"]):
            if op == "a":
                if given & {"ds", "abs_curv"}:
                    continue      # a user `ds` is consumed / a stale `abs_curv` is reused: outside the statement
                s = ret
                if len(s) != n:
                    return "abs_curv has %d values for %d fixes" % (len(s), n)
                if any(isnan(v) for v in s):
                    return "abs_curv contains NaN: %s" % s
                if s[0] != 0:
                    return "abs_curv starts at %r, not 0" % (s[0],)
                for i in range(n - 1):
                    inc = s[i + 1] - s[i]
                    if inc < 0:
                        return "abs_curv decreases at fix %d: %r -> %r" % (i + 1, s[i], s[i + 1])
                    tol = 1e-9 * max(legs[i], abs(s[i + 1])) + 1e-300
                    if abs(inc - legs[i]) > tol:
                        return "abs_curv grows by %r between fixes %d and %d, planimetric distance is %r" % (inc, i, i + 1, legs[i])
                if abs(s[n - 1] - total) > 1e-9 * max(total, 1e-300):
                    return "abs_curv ends at %r, planimetric length is %r" % (s[n - 1], total)
            else:
                if "speed" in given:
                    continue      # an existing `speed` feature is returned as it is
                msg = self.chk_speed(ret, pos, tms, zones)
                if msg:
                    return msg
        return None

    # ---------------------------------------------------------------- shrinking / search
    def shrink1(self, case):
        n = len(case["pos"])
        if len(case["ops"]) > 1:
            for i in range(len(case["ops"])):
                yield dict(case, ops=case["ops"][:i] + case["ops"][i + 1:])
        if n > 2:
            for i in range(n):
                c = dict(case, pos=case["pos"][:i] + case["pos"][i + 1:], tms=case["tms"][:i] + case["tms"][i + 1:],
                         feats=[[nm, col[:i] + col[i + 1:]] for nm, col in case["feats"]])
                if case.get("zones"):
                    c["zones"] = case["zones"][:i] + case["zones"][i + 1:]
                yield c
        if case["feats"]:
            for i in range(len(case["feats"])):
                yield dict(case, feats=case["feats"][:i] + case["feats"][i + 1:])
        if any(case.get("zones") or []):
            yield {k: v for k, v in case.items() if k != "zones"}
        if any(p[2] != 0 for p in case["pos"]):
            yield dict(case, pos=[[p[0], p[1], 0] for p in case["pos"]])
        t0 = case["tms"][0]
        if t0 != 0:
            yield dict(case, tms=[t - t0 for t in case["tms"]])

    def mutate(self, case, rng):
        for _ in range(10):
            yield self.lattice(rng)
        for _ in range(20):
            yield W.gen_world(rng)
        for _ in range(8):
            yield W.gen_world(rng, cls=self.world_cls(rng))
        for _ in range(10):
            yield self.with_zones(rng, C.gen_coords(rng, self.times))

    def search_cases(self, rng):
        """failing-input search after a broken correspondence: three more draws of the quick generators (the thorough
        generator enumerates 11 000 three-operation histories and 80 000 random ones: too slow for the every-change run)"""
        out = []
        for _ in range(3):
            out += [c for c in self.cases(rng, "quick") if c.get("kind") not in ("enum", "world-enum")]
        return out

    # ---------------------------------------------------------------- dispatch: single-track cases / world histories
    def impl(self, case):
        return self.w_impl(case) if "hist" in case else self.c_impl(case) if "cls" in case else self.impl1(case)

    def requests(self, case):
        return self.w_requests(case) if "hist" in case else self.c_requests(case) if "cls" in case else self.requests1(case)

    def decode(self, case, replies):
        return self.w_decode(case, replies) if "hist" in case else self.c_decode(case, replies) if "cls" in case else self.decode1(case, replies)

    def spec(self, case, out):
        return self.w_spec(case, out) if "hist" in case else self.c_spec(case, out) if "cls" in case else self.spec1(case, out)

    def shrink(self, case):
        return self.w_shrink(case) if "hist" in case else C.shrink_coords(case) if "cls" in case else self.shrink1(case)

    def describe(self, case):
        return self.w_describe(case) if "hist" in case else self.c_describe(case) if "cls" in case else self.describe1(case)

    def nontrivial(self, case):
        return self.w_nontrivial(case) if "hist" in case else self.c_nontrivial(case) if "cls" in case else self.nontrivial1(case)

    # ================================================================ one track per coordinate class (c17coords.py)
    def c_build(self, case):
        cls = self.COORDS[case["cls"]]
        tr = self.Track([], 1)
        for p, tms, z in zip(case["pos"], case["tms"], W.zones_of(case)):
            tr.addObs(self.Obs(cls(p[0], p[1], p[2]), self.stamp(tms, z)))
        for name, col in case["feats"]:
            tr.createAnalyticalFeature(name)
            for i, v in enumerate(col):
                tr.setObsAnalyticalFeature(name, i, NAN if v == "nan" else v)
        return tr

    def c_err(self, e):
        """which exception CLASS a refusal raises is not part of the statement: `raise CoordTypeError(...)` in obs.py surfaces as
        a NameError on this tree (the name is not imported there); both are the refusal of Obs.__check_call_geom1"""
        nm = type(e).__name__
        if nm in ("NameError", "CoordTypeError"):
            return "err:refused"
        if nm == "AttributeError":
            return "err:attr"
        return err_kind(e)

    def c_impl(self, case):
        tr = self.c_build(case)
        n = tr.size()
        rets = []
        for op in case["ops"]:
            try:
                if op == "a":
                    r = list(self.computeAbsCurv(tr))
                elif op == "s":
                    r = list(self.estimate_speed(tr))
                elif op == "S":
                    r = list(tr.estimate_speed())
                elif op == "d":
                    r = list(tr.addAnalyticalFeature(self.ds, "ds"))
                elif op == "c":
                    r = self.curvAbsBetween(tr)
                elif op == "o":
                    r = [tr[i].distance2DTo(tr[i + 1]) for i in range(n - 1)]
                else:
                    raise ValueError(op)
            except BaseException as e:
                if isinstance(e, KeyboardInterrupt):
                    raise
                r = self.c_err(e)
            rets.append(r)
        feats = [[nm, list(tr.getAnalyticalFeature(nm))] for nm in tr.getListAnalyticalFeatures()]
        xyz, tms, classes, zones = [], [], [], []
        for i in range(tr.size()):
            o = tr.getObs(i)
            xyz.append([o.position.getX(), o.position.getY(), o.position.getZ()])
            classes.append(type(o.position).__name__)
            s = o.timestamp
            tms.append(calendar.timegm((s.year, s.month, s.day, s.hour, s.min, s.sec)) * 1000 + s.ms)
            zones.append(s.zone)
        return {"rets": rets, "feats": feats, "xyz": xyz, "classes": classes, "tms": tms, "zones": zones, "n": tr.size()}

    def c_requests(self, case):
        enc = lambda v: "nan" if v == "nan" else fbits(v)
        cols = [tok_list(enc(float(p[k])) for p in case["pos"]) for k in range(3)]
        ts = tok_list(fbits((t // 1000) + (t % 1000) / 1000.0) for t in case["tms"])
        feats = tok_list((nm + ":" + tok_list(enc(v) for v in col) for nm, col in case["feats"]), sep=";")
        return ["C17.coords %s %s %s %s %s %s %s" % (case["cls"], cols[0], cols[1], cols[2], ts, feats, case["ops"].replace("S", "s"))]

    def c_decode(self, case, replies):
        r = replies[0]
        if r == "bad-request":
            raise ValueError("bad-request")
        rets_t, feats_t = r.split(" ")
        rets = []
        for c in untok(rets_t, "|"):
            if c.startswith("err:"):
                rets.append(c)
            elif c == "none":
                rets.append(None)
            elif c[0] == "n":
                rets.append(bitsf(c[1:]))
            else:
                rets.append([bitsf(w) for w in untok(c[1:])])
        feats = []
        for f in untok(feats_t, ";"):
            nm, col = f.split(":")
            feats.append([nm, [bitsf(w) for w in untok(col)]])
        # the model has no operation that writes a position or a stamp (`CinCoords.pure_coords`): they are the inputs
        return {"rets": rets, "feats": feats, "xyz": [[float(v) for v in p] for p in case["pos"]],
                "classes": [self.COORDS[case["cls"]].__name__] * len(case["pos"]), "tms": list(case["tms"]), "zones": W.zones_of(case),
                "n": len(case["pos"])}

    def c_spec(self, case, out):
        if "err" in out:
            return "raised %s (%s)" % (out["err"], out.get("detail"))
        pos, tms, n, cls = case["pos"], case["tms"], len(case["pos"]), case["cls"]
        # computing the features leaves positions (values AND class of the coordinate objects) and timestamps unchanged,
        # whatever the class and also when the computation is refused
        if out["n"] != n or not close(out["xyz"], pos, 0.0, 0.0):
            return "positions changed: %s -> %s" % (pos, out["xyz"])
        if out["classes"] != [self.COORDS[cls].__name__] * n:
            return "the class of the position objects changed: %s" % out["classes"]
        if out["tms"] != tms:
            return "timestamps changed: %s -> %s" % (tms, out["tms"])
        zones = W.zones_of(case)
        if out["zones"] != zones:
            return "timestamps changed: their zone fields were %s, are %s" % (zones, out["zones"])
        given = {nm for nm, _ in case["feats"]}
        after = dict((nm, col) for nm, col in out["feats"])
        for nm, col in case["feats"]:
            if nm in ("ds", "abs_curv", "speed"):
                continue
            want = [NAN if v == "nan" else v for v in col]
            if nm not in after or not close(after[nm], want, 0.0, 0.0):
                return "feature %s changed: %s -> %s" % (nm, want, after.get(nm))
        if cls == "X" or n < 2:
            return None         # ECEFCoords define no planimetric distance / a single fix: outside the statement
        legs = [C.leg_range(cls, pos[i + 1], pos[i]) for i in range(n - 1)]
        for j, (op, r) in enumerate(zip(case["ops"], out["rets"])):
            if isinstance(r, str):
                return "operation %d (%s) raised %s on a track of %s" % (j, op, r, self.COORDS[cls].__name__)
            msg = None
            if op == "a" and not (given & {"ds", "abs_curv"}):
                msg = self.chk_abscurv_rng(r, legs)
            elif op == "d":
                msg = self.chk_ds_rng(r, legs)
            elif op in "sS" and "speed" not in given:
                msg = self.chk_speed_rng(r, cls, pos, tms, zones)
            elif op == "c":
                lo, hi, at = math.fsum(l[0] for l in legs), math.fsum(l[1] for l in legs), sum(l[2] for l in legs)
                if isnan(r) or r < lo - at - 1e-9 * lo or r > hi + at + 1e-9 * hi:
                    msg = "computeCurvAbsBetweenTwoPoints = %r, planimetric length is %r%s" % (r, lo, "" if lo == hi else " .. %r" % hi)
            elif op == "o":
                if not isinstance(r, list) or len(r) != n - 1:
                    msg = "%s distances for %d legs" % (len(r) if isinstance(r, list) else r, n - 1)
                else:
                    for i, (lo, hi, at) in enumerate(legs):
                        if isnan(r[i]) or r[i] < lo - at - 1e-9 * lo or r[i] > hi + at + 1e-9 * hi:
                            msg = "Obs.distance2DTo(fix %d, fix %d) = %r, planimetric distance is %r" % (i, i + 1, r[i], lo)
                            break
            if msg:
                return "operation %d (%s) on a track of %s: %s" % (j, op, self.COORDS[cls].__name__, msg)
        # the feature is observed both ways: what the call returned is what track['abs_curv'] / track['speed'] reads
        for op, nm in (("a", "abs_curv"), ("sS", "speed")):
            last = [r for o, r in zip(case["ops"], out["rets"]) if o in op]
            if last and (nm not in after or not close(after[nm], last[-1], 0.0, 0.0)):
                return "%s returned %s but track['%s'] reads %s" % ({"a": "computeAbsCurv", "sS": "estimate_speed"}[op], last[-1], nm, after.get(nm))
        return None

    def chk_abscurv_rng(self, s, legs):
        """the clauses of the statement about abs_curv, each leg known as a range (lo, hi, absolute allowance)"""
        n = len(legs) + 1
        if not isinstance(s, list) or len(s) != n:
            return "abs_curv has %s values for %d fixes" % (len(s) if isinstance(s, list) else s, n)
        if any(isnan(v) for v in s):
            return "abs_curv contains NaN: %s" % s
        if s[0] != 0:
            return "abs_curv starts at %r, not 0" % (s[0],)
        for i, (lo, hi, at) in enumerate(legs):
            inc = s[i + 1] - s[i]
            if inc < 0:
                return "abs_curv decreases at fix %d: %r -> %r" % (i + 1, s[i], s[i + 1])
            tol = 1e-9 * max(hi, abs(s[i + 1])) + at
            if inc < lo - tol or inc > hi + tol:
                return "abs_curv grows by %r between fixes %d and %d, planimetric distance is %r" % (inc, i, i + 1, lo)
        lo, hi, at = math.fsum(l[0] for l in legs), math.fsum(l[1] for l in legs), sum(l[2] for l in legs)
        if s[n - 1] < lo - at - 1e-9 * lo or s[n - 1] > hi + at + 1e-9 * hi:
            return "abs_curv ends at %r, planimetric length is %r" % (s[n - 1], lo)
        return None

    def chk_ds_rng(self, d, legs):
        n = len(legs) + 1
        if not isinstance(d, list) or len(d) != n:
            return "ds has %s values for %d fixes" % (len(d) if isinstance(d, list) else d, n)
        if d[0] != 0:
            return "ds[0] = %r, not 0" % (d[0],)
        for i, (lo, hi, at) in enumerate(legs):
            if isnan(d[i + 1]) or d[i + 1] < lo - at - 1e-9 * lo or d[i + 1] > hi + at + 1e-9 * hi:
                return "ds[%d] = %r, planimetric distance to the previous fix is %r" % (i + 1, d[i + 1], lo)
        return None

    def chk_speed_rng(self, v, cls, pos, tms, zones=None):
        """as chk_speed, the distance of each pair known as a range (lo, hi, absolute allowance); between stamps of different
        zones the difference of the readings and the difference of the instants are both accepted as the elapsed time"""
        n = len(pos)
        if not isinstance(v, list) or len(v) != n:
            return "speed has %s values for %d fixes" % (len(v) if isinstance(v, list) else v, n)
        if any(tms[i] > tms[i + 1] for i in range(n - 1)):
            return None
        tmax = max(abs(t) for t in tms) / 1000.0
        zmax = 3600.0 * max([abs(z) for z in zones or [0]])       # instants = readings shifted by the zone: float seconds of that size
        for i in range(n):
            a, b = (1, 0) if i == 0 else (n - 1, n - 2) if i == n - 1 else (i + 1, i - 1)
            els = [Fraction(tms[a] - tms[b], 1000)]
            if zones is not None and zones[a] != zones[b]:
                els.append(els[0] - 3600 * (zones[a] - zones[b]))
            if isnan(v[i]):
                if all(el != 0 for el in els):
                    return "speed[%d] is NaN although %s s elapsed between fixes %d and %d" % (i, float(els[0]), b, a)
                continue
            if all(el == 0 for el in els):
                return "speed[%d] = %r although no time elapsed between fixes %d and %d (NaN expected)" % (i, v[i], b, a)
            lo, hi, at = C.leg_range(cls, pos[a], pos[b])
            bad = None
            for el in els:
                if el == 0:
                    continue
                fe = float(el)
                tm = tmax + zmax
                rel = 1e-9 + (4 * ulp(tm) / abs(fe) if any(t % 1000 for t in tms) else 0.0)
                wlo, whi = sorted((lo / fe, hi / fe))
                if wlo - rel * abs(wlo) - at / abs(fe) <= v[i] <= whi + rel * abs(whi) + at / abs(fe):
                    bad = None
                    break
                bad = bad or ("speed[%d] = %r, expected distance(fix %d, fix %d) / elapsed = %r / %s = %r"
                              % (i, v[i], b, a, lo, fe, lo / fe))
            if bad:
                return bad
        return None

    def c_describe(self, case):
        n = len(case["pos"])
        t = case["tms"]
        return {"kind": case["kind"], "n": n, "ops": "".join(sorted(set(case["ops"]))), "pre": bool(case["feats"]), "zones": self.zone_tag(W.zones_of(case)),
                "repeated_pos": any(case["pos"][i] == case["pos"][i + 1] for i in range(n - 1)),
                "repeated_time": any(t[i] == t[i + 1] for i in range(n - 1))}

    def c_nontrivial(self, case):
        p = case["pos"]
        return case["cls"] != "X" and len(p) >= 2 and any(p[i][:2] != p[i + 1][:2] for i in range(len(p) - 1))

    # ================================================================ world histories (c17world.py)
    # ---------------------------------------------------------------- implementation
    def w_impl(self, case):
        if not W.valid_case(case):
            return {"invalid": True}
        H = []
        cls = self.COORDS[case.get("cls", "N")]
        for p, tms, z in zip(case["pos"], case["tms"], W.zones_of(case)):
            H.append(self.Obs(cls(p[0], p[1], p[2]), self.stamp(tms, z)))
        tracks = [self.Track(list(H), 1)]
        ops = []
        for op in case["hist"]:
            k = op[1]
            pre = self.w_table(tracks[k])
            try:
                rec = {"r": self.w_apply(H, tracks, op, cls)}
            except BaseException as e:
                if isinstance(e, KeyboardInterrupt):
                    raise
                rec = {"err": self.c_err(e) if "cls" in case else err_kind(e)}
            rec["pre"], rec["post"], rec["heap"] = pre, self.w_table(tracks[k]), self.w_heap(H)
            ops.append(rec)
        final = []
        for tr in tracks:
            tab = self.w_table(tr)
            tab["ids"] = self.w_ids(H, tr)
            final.append(tab)
        return {"ops": ops, "tracks": final}

    def w_ids(self, H, tr):
        """heap numbers of the observation objects of a track; an object not seen before (a copy) gets the next number"""
        where = {id(o): h for h, o in enumerate(H)}
        out = []
        for o in tr.getObsList():
            if id(o) not in where:
                where[id(o)] = len(H)
                H.append(o)
            out.append(where[id(o)])
        return out

    def w_table(self, tr):
        """names and columns of a track, read without going through the library (an observer must not have effects)"""
        dico = tr._Track__analyticalFeaturesDico
        names, cols = list(dico.keys()), []
        for nm in names:
            idx = dico[nm]
            try:
                cols.append([o.features[idx] for o in tr.getObsList()])
            except IndexError:
                cols.append("err:index")
        return {"names": names, "cols": cols}

    def w_heap(self, H):
        out = []
        for o in H:
            s, c = o.timestamp, o.position
            out.append({"xyz": [c.getX(), c.getY(), c.getZ()], "cls": type(c).__name__, "t": [s.year, s.month, s.day, s.hour, s.min, s.sec, s.ms, s.zone], "nf": len(o.features)})
        return out

    ATTRS = {"ENUCoords": ("E", "N", "U"), "GeoCoords": ("lon", "lat", "hgt"), "ECEFCoords": ("X", "Y", "Z")}

    def w_apply(self, H, tracks, op, cls=None):
        kind, tr = op[0], tracks[op[1]]
        cls = cls or self.ENU
        if kind == "a":
            return list(self.computeAbsCurv(tr))
        if kind == "s":
            return list(self.estimate_speed(tr))
        if kind == "S":
            return list(tr.estimate_speed())
        if kind == "f":
            return list(tr.addAnalyticalFeature(self.speed))
        if kind == "d":
            return list(tr.addAnalyticalFeature(self.ds, "ds"))
        if kind == "I":
            return list(tr.operate(self.Operator.INTEGRATOR, "ds", "abs_curv"))
        if kind == "E":
            return tr.operate("abs_curv=I{ds}")
        if kind == "D":
            return list(tr.operate(self.Operator.DIFFERENTIATOR, "abs_curv", "dd"))
        if kind == "L":
            return tr.length()
        if kind == "c":
            return self.curvAbsBetween(tr)
        if kind == "g":
            nm = op[2]
            return list(tr.getAbsCurv() if nm == "abs_curv" else tr.getSpeed() if nm == "speed" else tr[nm])
        if kind == "rm":
            tr.removeAnalyticalFeature(op[2])
            return None
        if kind == "w":
            tr[op[2]] = [NAN if v == "nan" else v for v in op[3]]
            return None
        if kind == "q":
            return tr.isSorted() if op[2] == "sorted" else tr.duration() if op[2] == "dur" else list(tr.getT())
        if kind == "ex":
            o, c, v, form = tr.getObs(op[2]), op[3], op[4], (op[5] if len(op) > 5 else 0)
            if form == 1:
                tr.setObsAnalyticalFeature(c, op[2], v)
            elif form == 2:
                setattr(o.position, self.ATTRS[cls.__name__]["xyz".index(c)], v)
            elif form == 3:               # a new coordinate object instead of an in-place change
                p = o.position
                o.position = cls(v if c == "x" else p.getX(), v if c == "y" else p.getY(), v if c == "z" else p.getZ())
            else:
                {"x": o.position.setX, "y": o.position.setY, "z": o.position.setZ}[c](v)
            return None
        if kind == "et":
            setattr(tr.getObs(op[2]).timestamp, op[3], op[4])
            return None
        if kind == "tz":
            tr.setTimeZone(op[2])
            return None
        if kind == "add":
            new = tr + tracks[op[2]]
        elif kind == "ext":
            new = tr.extract(op[2], op[3])
        elif kind == "sl":
            new = tr[op[2]:op[3]]
        elif kind == "cp":
            new = tr.copy()
        else:
            raise ValueError(kind)
        tracks.append(new)
        return self.w_ids(H, new)

    # ---------------------------------------------------------------- model
    def w_requests(self, case):
        if not W.valid_case(case):
            return []
        q = case["mode"] == "q"
        enc = (lambda v: "nan" if v == "nan" else ratstr(v)) if q else (lambda v: "nan" if v == "nan" else fbits(v))
        pool = []
        for p, tms in zip(case["pos"], case["tms"]):
            f = W.fields_of(tms)
            pool.append(",".join([enc(p[0]), enc(p[1]), enc(p[2])] + [str(f[k]) for k in W.FIELDS]))
        pool = [o + "," + str(z) for o, z in zip(pool, W.zones_of(case))]
        ops = []
        for op in case["hist"]:
            kind = op[0]
            if kind in ("a", "s", "S", "f", "d", "I", "E", "D", "L", "c", "cp"):
                ops.append("%s:%d" % (kind, op[1]))
            elif kind in ("g", "rm", "q"):
                ops.append("%s:%d:%s" % (kind, op[1], op[2]))
            elif kind == "w":
                ops.append("w:%d:%s:%s" % (op[1], op[2], tok_list(enc(v) for v in op[3])))
            elif kind == "add":
                ops.append("add:%d:%d" % (op[1], op[2]))
            elif kind in ("ext", "sl"):
                ops.append("%s:%d:%d:%d" % (kind, op[1], op[2], op[3]))
            elif kind == "ex":
                ops.append("ex:%d:%d:%s:%s" % (op[1], op[2], op[3], enc(op[4])))
            elif kind == "et":
                ops.append("et:%d:%d:%s:%d" % (op[1], op[2], op[3], op[4]))
            elif kind == "tz":
                ops.append("tz:%d:%d" % (op[1], op[2]))
        if "cls" in case:
            return ["C17.worldc %s %s %s" % (case["cls"], tok_list(pool, ";"), tok_list(ops, ";"))]
        return ["C17.world %s %s %s" % (case["mode"], tok_list(pool, ";"), tok_list(ops, ";"))]

    def w_decode(self, case, replies):
        if not replies:
            return {"invalid": True}
        r = replies[0]
        if r == "bad-request":
            raise ValueError("bad-request")
        q = case["mode"] == "q"
        dec = (lambda w: NAN if w == "nan" else float(parse_rat(w))) if q else bitsf

        def table(names, cols):
            names = untok(names)
            return {"names": names, "cols": [c if c.startswith("err:") else [dec(w) for w in untok(c)] for c in (untok(cols, ";") if names else [])]}

        blocks = r.split(" ")
        nops = len(case["hist"])
        ops = []
        for b in blocks[:nops]:
            res, n0, c0, n1, c1, heap = b.split("~")
            if res.startswith("err:"):
                rec = {"err": res}
            elif res == "-":
                rec = {"r": None}
            elif res[0] == "n":
                rec = {"r": dec(res[1:])}
            elif res[0] == "c":
                rec = {"r": [dec(w) for w in untok(res[1:])]}
            elif res[0] == "b":
                rec = {"r": res[1:] == "1"}
            else:
                rec = {"r": [int(w) for w in untok(res[1:])]}
            rec["pre"], rec["post"] = table(n0, c0), table(n1, c1)
            hp = []
            for o in untok(heap, ";"):
                w = o.split(",")
                hp.append({"xyz": [dec(w[0]), dec(w[1]), dec(w[2])], "cls": self.COORDS[case.get("cls", "N")].__name__,
                           "t": [int(x) for x in w[3:10]] + [int(w[11])], "nf": int(w[10])})
            rec["heap"] = hp
            ops.append(rec)
        tracks = []
        for b in blocks[nops:]:
            ids, names, cols = b[1:].split("~")
            t = table(names, cols)
            t["ids"] = [int(w) for w in untok(ids)]
            tracks.append(t)
        return {"ops": ops, "tracks": tracks}

    # ---------------------------------------------------------------- oracle on histories
    def w_legs(self, sym, ids):
        return [math.hypot(sym.pos[ids[i + 1]][0] - sym.pos[ids[i]][0], sym.pos[ids[i + 1]][1] - sym.pos[ids[i]][1]) for i in range(len(ids) - 1)]

    def chk_abscurv(self, s, legs):
        n = len(legs) + 1
        if not isinstance(s, list) or len(s) != n:
            return "abs_curv has %s values for %d fixes" % (len(s) if isinstance(s, list) else s, n)
        if any(isnan(v) for v in s):
            return "abs_curv contains NaN: %s" % s
        if s[0] != 0:
            return "abs_curv starts at %r, not 0" % (s[0],)
        total = math.fsum(legs)
        for i in range(n - 1):
            inc = s[i + 1] - s[i]
            if inc < 0:
                return "abs_curv decreases at fix %d: %r -> %r" % (i + 1, s[i], s[i + 1])
            tol = 1e-9 * max(legs[i], abs(s[i + 1])) + 1e-300
            if abs(inc - legs[i]) > tol:
                return "abs_curv grows by %r between fixes %d and %d, planimetric distance is %r" % (inc, i, i + 1, legs[i])
        if abs(s[n - 1] - total) > 1e-9 * max(total, 1e-300):
            return "abs_curv ends at %r, planimetric length is %r" % (s[n - 1], total)
        return None

    def chk_ds(self, d, legs):
        n = len(legs) + 1
        if not isinstance(d, list) or len(d) != n:
            return "ds has %s values for %d fixes" % (len(d) if isinstance(d, list) else d, n)
        if d[0] != 0:
            return "ds[0] = %r, not 0" % (d[0],)
        for i in range(n - 1):
            if isnan(d[i + 1]) or abs(d[i + 1] - legs[i]) > 1e-9 * max(legs[i], 1e-300):
                return "ds[%d] = %r, planimetric distance to the previous fix is %r" % (i + 1, d[i + 1], legs[i])
        return None

    def chk_speed(self, v, pos, tms, zones=None):
        """the clauses of the statement about speed. `tms`: clock readings (ms) of the stamps, `zones`: their zone fields.
        "The time elapsed between" two stamps of the SAME zone is the difference of their readings. Between stamps of
        DIFFERENT zones the statement leaves it open whether it is the difference of the readings (the library's t2 - t1,
        which does not read `zone`) or of the instants (readings brought to one zone): either is accepted there."""
        n = len(pos)
        if not isinstance(v, list) or len(v) != n:
            return "speed has %s values for %d fixes" % (len(v) if isinstance(v, list) else v, n)
        tmax = max(abs(t) for t in tms) / 1000.0
        zmax = 3600.0 * max([abs(z) for z in zones or [0]])       # instants = readings shifted by the zone: float seconds of that size
        for i in range(n):
            a, b = (1, 0) if i == 0 else (n - 1, n - 2) if i == n - 1 else (i + 1, i - 1)
            els = [Fraction(tms[a] - tms[b], 1000)]
            if zones is not None and zones[a] != zones[b]:
                els.append(els[0] - 3600 * (zones[a] - zones[b]))
            if isnan(v[i]):
                if all(el != 0 for el in els):
                    return ("speed[%d] is NaN although %s s elapsed between fixes %d and %d" % (i, float(els[0]), b, a))
                continue
            if all(el == 0 for el in els):
                return "speed[%d] = %r although no time elapsed between fixes %d and %d (NaN expected)" % (i, v[i], b, a)
            d = math.hypot(pos[a][0] - pos[b][0], pos[a][1] - pos[b][1])
            bad = None
            for el in els:
                if el == 0:
                    continue
                want = d / float(el)
                tm = tmax + zmax
                rel = 1e-9 + (4 * ulp(tm) / abs(float(el)) if any(t % 1000 for t in tms) else 0.0)
                if abs(v[i] - want) <= rel * max(abs(want), 1e-300):
                    bad = None
                    break
                bad = bad or ("speed[%d] = %r, expected distance(fix %d, fix %d) / elapsed = %r / %s = %r"
                              % (i, v[i], b, a, d, float(el), want))
            if bad:
                return bad
        return None

    def w_spec(self, case, out):
        if "err" in out:
            return "raised %s (%s)" % (out["err"], out.get("detail"))
        if out.get("invalid"):
            return None
        sym = W.Sym(case)
        prev_heap = []
        for j, (op, rec) in enumerate(zip(case["hist"], out["ops"])):
            msg = self.w_check(sym, op, rec, prev_heap)
            if msg:
                return "operation %d %s: %s" % (j, json_short(op), msg)
            prev_heap = rec["heap"]
        return None

    def w_sync(self, sym, k, table, heap):
        """WHICH names a track lists and how many feature slots an observation carries are the implementation's business
        (the statement speaks of abs_curv and speed, not of the temporary ds nor of what a derived track inherits): the
        bookkeeping adopts what the implementation's table shows; a name that is gone is no longer a valid computation"""
        if sym.lost:
            return
        t = sym.tracks[k]
        t["names"] = list(table["names"])
        t["valid"] &= set(t["names"])
        for h, o in enumerate(heap[:len(sym.slots)]):
            sym.slots[h] = o["nf"]

    def w_check(self, sym, op, rec, prev_heap=()):
        if sym.lost:
            return None
        self.w_sync(sym, op[1], rec["pre"], prev_heap)
        msg = self.w_check1(sym, op, rec)
        self.w_sync(sym, op[1], rec["post"], rec["heap"])
        return msg

    def w_check1(self, sym, op, rec):
        kind, k = op[0], op[1]
        applicable = sym.valid_op(op)        # on the table the implementation shows: the names the operation refers to are listed
        ok = sym.ok(k)
        mono = sym.monotone(k)
        if not applicable and (kind in W.NEW_OPS or kind in W.EDIT_OPS):
            sym.lost = True                  # cannot happen on a valid case (indices only): the oracle stops rather than guess
            return None
        info = sym.apply(op) if applicable else {"check": None}     # bookkeeping: positions / stamps after edits, names, slots, validity
        ids = sym.tracks[k]["ids"]
        n = len(ids)
        heap = rec["heap"]
        if kind in W.NEW_OPS:
            # which objects the new track references is the implementation's business (sharing or copying is not part of
            # this property): adopt its numbering, provided the fixes are the designated ones; otherwise the oracle no
            # longer knows which object is which and stops
            if "err" in rec or not isinstance(rec.get("r"), list) or len(rec["r"]) != len(sym.tracks[-1]["ids"]):
                sym.lost = True
            else:
                want = sym.tracks[-1]["ids"]
                for j, h in enumerate(rec["r"]):
                    if h >= len(sym.pos):
                        if h != len(sym.pos) or h >= len(heap):
                            sym.lost = True
                            break
                        sym.pos.append(list(sym.pos[want[j]]))
                        sym.fld.append(dict(sym.fld[want[j]]))
                        sym.slots.append(heap[h]["nf"])
                    elif sym.pos[h] != sym.pos[want[j]] or sym.fld[h] != sym.fld[want[j]]:
                        sym.lost = True
                        break
                if not sym.lost:
                    sym.tracks[-1]["ids"] = list(rec["r"])
        if sym.lost:
            return None
        # computing, reading, deriving tracks: positions and timestamps of EVERY observation stay what the history made them
        if len(heap) < len(sym.pos):
            return "%d observations exist, %d expected" % (len(heap), len(sym.pos))
        for h, o in enumerate(heap[:len(sym.pos)]):
            if not close(o["xyz"], sym.pos[h], 0.0, 0.0):
                return "position of observation %d is %s, expected %s" % (h, o["xyz"], sym.pos[h])
            if o.get("cls", "ENUCoords") != self.COORDS[sym.cls].__name__:
                return "the position object of observation %d is a %s, was a %s" % (h, o.get("cls"), self.COORDS[sym.cls].__name__)
            if o["t"] != [sym.fld[h][f] for f in W.ZFIELDS]:
                return "timestamp of observation %d is %s (year, month, day, hour, min, sec, ms, zone), expected %s" % (h, o["t"], [sym.fld[h][f] for f in W.ZFIELDS])
        if kind in W.NEW_OPS or kind in W.EDIT_OPS or not applicable:
            return None
        if not ok:
            if "err" in rec:
                sym.tainted = True          # partial effects of an exception on a misaligned table: outside the statement from here on
            return None
        if "err" in rec:
            if sym.cls == "X" and kind in ("a", "s", "S", "f", "d", "c"):
                return None             # ECEFCoords define no planimetric distance: the statement does not apply (purity was checked)
            return "raised %s on a track whose feature table is aligned" % rec["err"]
        # the other features of the track are left as they were
        touched = set(W.TOUCHED.get(kind, ())) | ({op[2]} if kind in ("rm", "w") else set())
        pre = dict(zip(rec["pre"]["names"], rec["pre"]["cols"]))
        post = dict(zip(rec["post"]["names"], rec["post"]["cols"]))
        for nm, col in pre.items():
            if nm in touched or nm.startswith("#"):
                continue          # '#…' are the library's scratch names (operate(str) purges them all in its `finally`): not the user's features
            if nm not in post or not close(post[nm], col, 0.0, 0.0):
                return "feature %s of the track changed: %s -> %s" % (nm, col, post.get(nm))
        r = rec["r"]
        stored = info.get("stored")
        if info.get("void"):
            if r is not None or stored not in post:
                return "returned %s, track['%s'] reads %s" % (r, stored, post.get(stored))
            r = post[stored]              # the operation returns nothing: what it stored is what is checked
        elif stored is not None and (stored not in post or not close(post[stored], r, 0.0, 0.0)):
            return "returned %s but track['%s'] reads %s" % (r, stored, post.get(stored))
        chk = info["check"]
        if chk is None or n < 2 or sym.cls == "X":
            return None
        pos = [sym.pos[h] for h in ids]
        if sym.cls != "N":
            return self.w_check_class(sym.cls, chk, r, pos, [sym.tms(h) for h in ids], [sym.zone(h) for h in ids], mono)
        legs = self.w_legs(sym, ids)
        if chk == "abs_curv":
            return self.chk_abscurv(r, legs)
        if chk == "ds":
            return self.chk_ds(r, legs)
        if chk == "speed":
            return self.chk_speed(r, pos, [sym.tms(h) for h in ids], [sym.zone(h) for h in ids]) if mono else None
        if chk == "curvabs":
            total = math.fsum(legs)
            if isnan(r) or abs(r - total) > 1e-9 * max(total, 1e-300):
                return "computeCurvAbsBetweenTwoPoints = %r, planimetric length is %r" % (r, total)
        if chk == "length" and all(p[2] == pos[0][2] for p in pos):
            total = math.fsum(legs)
            if isnan(r) or abs(r - total) > 1e-9 * max(total, 1e-300):
                return "length() = %r on a track of constant height, planimetric length is %r" % (r, total)
        return None

    def w_check_class(self, cls, chk, r, pos, tms, zones, mono):
        """the clauses of the statement on a track of GeoCoords positions: every leg known as a range (c17coords.leg_range)"""
        n = len(pos)
        legs = [C.leg_range(cls, pos[i + 1], pos[i]) for i in range(n - 1)]
        if chk == "abs_curv":
            return self.chk_abscurv_rng(r, legs)
        if chk == "ds":
            return self.chk_ds_rng(r, legs)
        if chk == "speed":
            return self.chk_speed_rng(r, cls, pos, tms, zones) if mono else None
        if chk == "curvabs":
            lo, hi, at = math.fsum(l[0] for l in legs), math.fsum(l[1] for l in legs), sum(l[2] for l in legs)
            if not isinstance(r, float) or isnan(r) or r < lo - at - 1e-9 * lo or r > hi + at + 1e-9 * hi:
                return "computeCurvAbsBetweenTwoPoints = %r, planimetric length is %r%s" % (r, lo, "" if lo == hi else " .. %r" % hi)
        return None

    # ---------------------------------------------------------------- known-finding classes
    def classify(self, case, impl_out, msg):
        """`list-init-on-shared-obs`: `track.operate("abs_curv=I{ds}")` (expression front end: the assignment goes through
        createAnalyticalFeature(name, LIST), which APPENDS the values instead of writing the index it registers) on a track
        some of whose Obs objects carry a slot left by a track sharing them: abs_curv then reads the stale slot.
        The generators do not produce this situation; the oracle is not relaxed for it."""
        if "hist" in case and msg and msg.startswith("operation "):
            j = W.list_init_on_foreign_slots(case)
            if j is not None and msg.startswith("operation %d " % j):
                return "list-init-on-shared-obs"
        return None

    # ---------------------------------------------------------------- shrinking / tags
    def w_shrink(self, case):
        hist = case["hist"]
        known = W.list_init_on_foreign_slots(case) is not None
        for i in range(len(hist) - 1, -1, -1):
            c = dict(case, hist=hist[:i] + hist[i + 1:])
            if W.valid_case(c) and (known or W.list_init_on_foreign_slots(c) is None):
                yield c
        if any(case.get("zones") or []):
            yield {k: v for k, v in case.items() if k != "zones"}
        t0 = min(case["tms"])
        base = t0 - t0 % 3600000
        if base:
            yield dict(case, tms=[t - base for t in case["tms"]])

    def w_describe(self, case):
        kinds = [op[0] for op in case["hist"]]
        return {"kind": case["kind"] + "-" + case["mode"], "n": len(case["pos"]), "len": len(kinds),
                "shared": any(k in ("add", "ext", "sl") for k in kinds), "edits": any(k in ("ex", "et", "tz") for k in kinds),
                "zones": "edited" if any(op[0] == "tz" or (op[0] == "et" and op[3] == "zone") for op in case["hist"]) else self.zone_tag(W.zones_of(case)),
                "ops": "".join(sorted(set(k[0] for k in kinds)))}

    def w_nontrivial(self, case):
        p = case["pos"]
        return (case.get("cls") != "X" and len(p) >= 2 and any(p[i][:2] != p[i + 1][:2] for i in range(len(p) - 1))
                and any(op[0] in "asSfdIE" for op in case["hist"]))


# ---- tie to the source by translation (tools/py2lean.py -> lean/TracklibVerif/Gen/ObsCoords.lean, regenerated on every run)
P.tie_modules = ["TracklibVerif.Tie.C17"]
P.theorems = P.theorems + [
    ("TracklibVerif.Tie.C17", "TV.Tie.C17.tie_sub", "the Lean translation of the CURRENT source of ENUCoords.__sub__ is the component-wise difference"),
    ("TracklibVerif.Tie.C17", "TV.Tie.C17.tie_distance2DTo", "the translation of the CURRENT source of ENUCoords.distance2DTo (with __sub__, norm2D) equals the model's dist2D on all arguments (x ** 2 = x * x)"),
]

# ---- tie of algo/analytics.py::ds and ::speed (Gen/Analytics.lean) to the model's dsAt / speedAt, on the view (E, N, U, toAbsTime()) of an observation
P.theorems = P.theorems + [
    ("TracklibVerif.Tie.C17", "TV.Tie.C17.tie_ds", "the translation of the CURRENT source of analytics.ds, every track and every index k >= 0: returns the model's dsAt when it is some v, raises IndexError exactly when it is none (x ** 2 = x * x)"),
    ("TracklibVerif.Tie.C17", "TV.Tie.C17.dsAt_eq_none_iff", "the model's dsAt is none exactly for an index >= 1 past the end"),
    ("TracklibVerif.Tie.C17", "TV.Tie.C17.tie_ds_inrange", "for k in range(len(track)) analytics.ds does not raise and returns the model's dsAt value"),
    ("TracklibVerif.Tie.C17", "TV.Tie.C17.tie_speed", "the translation of the CURRENT source of analytics.speed, every track and every index k >= 0: IndexError iff k >= len(track) or len(track) < 2, else the model's speedAt with NAN for none (x ** 2 = x * x; the model's == is Python's float ==)"),
    ("TracklibVerif.Tie.C17", "TV.Tie.C17.speedAt_out", "where analytics.speed raises IndexError (k >= len(track) or len(track) < 2) the model's speedAt is none"),
    ("TracklibVerif.Tie.C17", "TV.Tie.C17.tie_speed_some", "if the model's speedAt is some v then analytics.speed returns v"),
    ("TracklibVerif.Tie.C17", "TV.Tie.C17.tie_speed_none", "if the model's speedAt is none then analytics.speed returns NAN when k < len(track) and len(track) >= 2, raises IndexError otherwise"),
    ("TracklibVerif.Tie.C17", "TV.Tie.C17.ds_neg", "outside the model (negative Python index): analytics.ds(track, -j) = analytics.ds(track, len(track) - j) for 1 <= j < len(track)"),
]
