"""C17 — curvilinear abscissa and speed features match their geometric definitions
(tracklib/algo/cinematics.py computeAbsCurv / estimate_speed, algo/analytics.py ds / speed,
core/operators.py Integrator)."""
import math, calendar, itertools
from fractions import Fraction
from engine import Prop, fbits, bitsf, ratstr, parse_rat, tok_list, untok, close

NAN = float("nan")


def isnan(v):
    return isinstance(v, float) and v != v


def ulp(x):
    return math.ulp(abs(float(x)))


class P(Prop):
    id = "C17"
    design_ref = "DESIGN.md section 5, C17"
    theorems = [
        ("TracklibVerif.Props.C17", "TV.C17.abscurv_prefix", "abs_curv[i] = sum of the first i planimetric legs: s[0]=0, s[i+1]=s[i]+|P[i]P[i+1]| (any scalar type, any sqrt)"),
        ("TracklibVerif.Props.C17", "TV.C17.abscurv_geometric", "over an ordered field with a genuine sqrt: each increment is the non-negative d with d*d = dx^2+dy^2, the column is non-decreasing and ends at the planimetric length"),
        ("TracklibVerif.Props.C17", "TV.C17.speed_def", "speed[i] for n>=2: one-sided at both ends, neighbours (i-1,i+1) inside, NaN exactly when the elapsed time is zero"),
        ("TracklibVerif.Props.C17", "TV.C17.pure", "computeAbsCurv / estimate_speed leave positions, timestamps and every other feature unchanged"),
        ("TracklibVerif.Props.C17", "TV.C17.only_adds", "on a fresh track the feature table only gains one appended column (abs_curv resp. speed); the temporary ds is removed"),
        ("TracklibVerif.Props.C17", "TV.C17.idempotent", "a second computeAbsCurv / estimate_speed returns the same column and leaves the track as it was"),
    ]
    partial = []
    open_statements = ["IEEE rounding of sqrt / + / division is outside the theorems (ordered-field statement); sampled by the transfer check with rel. tolerance 1e-9"]
    modelled = ("algo/analytics.py ds, speed; core/obs_coords.py ENUCoords.distance2DTo/__sub__/norm2D; core/operators.py Integrator.execute; "
                "algo/cinematics.py computeAbsCurv, estimate_speed; core/track.py addAnalyticalFeature (IndexError -> NaN); the feature table is "
                "abstracted to an ordered name -> column map (its alignment is C01)")
    trusted = ["ObsTime.toAbsTime() values are computed by the harness as sec + ms/1000.0 (C03 covers the calendar conversion)",
               "math.sqrt / x**2 are taken as correctly rounded sqrt and x*x"]
    rule = ("exhaustive: all tracks of 2..4 (quick) / 2..5 (thorough) fixes whose legs are k*(3,4), k in {-1,0,1,2}, with dt in {0,1,2} s, op word 'asas'; "
            "random: exact lattice tracks (collinear 3-4-5 steps, scaled 3x4 rectangle corners, axis steps; integer seconds) run at Rat, "
            "float tracks (short 1e-6 / long 1e7 legs, repeated positions and timestamps, optional millisecond stamps) run at Float with bit patterns, "
            "and tracks with features present beforehand (other names, stale abs_curv / speed, user ds); op words over {a = computeAbsCurv, s = estimate_speed} "
            "with repetitions. non-trivial = at least 2 fixes and at least one non-zero leg")

    def setup(self):
        from tracklib.core.obs import Obs
        from tracklib.core.obs_coords import ENUCoords
        from tracklib.core.obs_time import ObsTime
        from tracklib.core.track import Track
        from tracklib.algo.cinematics import computeAbsCurv, estimate_speed
        self.Obs, self.ENU, self.T, self.Track = Obs, ENUCoords, ObsTime, Track
        self.computeAbsCurv, self.estimate_speed = computeAbsCurv, estimate_speed

    # ---------------------------------------------------------------- generators
    OPS = ["a", "s", "as", "sa", "aa", "ss", "asas", "aas", "ssa", "saas"]

    def exhaustive_scopes(self, tier):
        n = 5 if tier == "thorough" else 4
        return ["all tracks of 2..%d fixes with legs k*(3,4), k in {-1,0,1,2} and elapsed times in {0,1,2} s per leg (op word asas)" % n]

    def cases(self, rng, tier):
        out = []
        nmax = 5 if tier == "thorough" else 4
        for n in range(2, nmax + 1):
            for ks in itertools.product((-1, 0, 1, 2), repeat=n - 1):
                for dts in itertools.product((0, 1, 2), repeat=n - 1):
                    pos, t, k = [[0, 0, 0]], [0], 0
                    for a, d in zip(ks, dts):
                        k += a
                        pos.append([3 * k, 4 * k, k % 3])
                        t.append(t[-1] + d * 1000)
                    out.append({"kind": "enum", "mode": "q", "pos": pos, "tms": t, "feats": [], "ops": "asas"})
        nrand = 2500 if tier == "quick" else 40000
        for _ in range(nrand):
            out.append(self.lattice(rng))
        for _ in range(nrand):
            out.append(self.floaty(rng))
        for _ in range(nrand // 3):
            out.append(self.prefeat(rng))
        # single-fix tracks (outside the statement: correspondence only)
        for _ in range(20):
            out.append({"kind": "single", "mode": "q", "pos": [[rng.randrange(-5, 5), rng.randrange(-5, 5), 1]],
                        "tms": [rng.randrange(0, 10 ** 9) * 1000], "feats": [], "ops": rng.choice(self.OPS)})
        return out

    def times(self, rng, n, ms=False):
        t = [rng.choice([0, 1, 86399, 951782400, rng.randrange(0, 2 * 10 ** 9)]) * 1000]
        for _ in range(n - 1):
            d = rng.choice([0, 0, 1, 1, 2, 3, 5, 10, 60, 3600, 86400, rng.randrange(0, 100000)]) * 1000
            if ms:
                d += rng.choice([0, 1, 2, 10, 500, 999, rng.randrange(0, 1000)])
            t.append(t[-1] + d)
        return t

    def lattice(self, rng):
        n = rng.randrange(2, 9)
        shape = rng.choice(["line", "rect", "axis"])
        bx, by = rng.randrange(-50, 50), rng.randrange(-50, 50)
        pos = []
        if shape == "line":
            s = rng.choice([1, 1, 2, 7, 1000, 10 ** 6])
            k = 0
            for _ in range(n):
                pos.append([bx + 3 * s * k, by + 4 * s * k])
                k += rng.choice([0, 0, 1, 1, 2, -1, -3, rng.randrange(-20, 20)])
        elif shape == "rect":
            s = rng.choice([1, 2, 5, 100])
            corners = [(0, 0), (3 * s, 0), (3 * s, 4 * s), (0, 4 * s)]
            for _ in range(n):
                c = rng.choice(corners)
                pos.append([bx + c[0], by + c[1]])
        else:
            horiz = rng.random() < 0.5
            k = 0
            for _ in range(n):
                pos.append([bx + k, by] if horiz else [bx, by + k])
                k += rng.choice([0, 1, 1, 2, -1, 10 ** 6, -10 ** 6, rng.randrange(-9, 9)])
        if rng.random() < 0.3:   # half-integer offset keeps everything dyadic
            pos = [[p[0] + 0.5, p[1] - 0.5] for p in pos]
        pos = [[p[0], p[1], rng.choice([0, 0, 1, -7, 100, rng.randrange(-50, 50)])] for p in pos]
        return {"kind": "lattice-" + shape, "mode": "q", "pos": pos, "tms": self.times(rng, n), "feats": [], "ops": rng.choice(self.OPS)}

    def floaty(self, rng):
        n = rng.randrange(2, 9)
        x, y = rng.uniform(-1000, 1000), rng.uniform(-1000, 1000)
        pos = []
        for _ in range(n):
            pos.append([x, y, rng.choice([0.0, rng.uniform(-100, 100)])])
            step = rng.choice([0.0, 1e-6, 1e-3, 1.0, 10.0, 1e4, 1e7, rng.uniform(0, 100)])
            if step:
                a = rng.uniform(0, 2 * math.pi)
                x, y = x + step * math.cos(a), y + step * math.sin(a)
        ms = rng.random() < 0.3
        return {"kind": "float-ms" if ms else "float", "mode": "f", "pos": pos, "tms": self.times(rng, n, ms), "feats": [], "ops": rng.choice(self.OPS)}

    def prefeat(self, rng):
        c = self.lattice(rng) if rng.random() < 0.6 else self.floaty(rng)
        n = len(c["pos"])
        names = rng.sample(["w", "ds", "abs_curv", "speed", "q"], rng.randrange(1, 4))
        c["feats"] = [[nm, [rng.choice([0.0, 1.0, 2.5, -3.0, "nan", float(rng.randrange(-9, 9))]) for _ in range(n)]] for nm in names]
        c["kind"] = "pre-" + c["kind"]
        c["ops"] = rng.choice(self.OPS)
        return c

    def legs(self, case):
        p = case["pos"]
        return [math.hypot(p[i + 1][0] - p[i][0], p[i + 1][1] - p[i][1]) for i in range(len(p) - 1)]

    def describe(self, case):
        n = len(case["pos"])
        t = case["tms"]
        return {"kind": case["kind"], "n": n, "ops": case["ops"],
                "repeated_pos": any(l == 0 for l in self.legs(case)), "repeated_time": any(t[i] == t[i + 1] for i in range(n - 1))}

    def nontrivial(self, case):
        return len(case["pos"]) >= 2 and any(l > 0 for l in self.legs(case))

    # ---------------------------------------------------------------- implementation
    def build(self, case):
        tr = self.Track([], 1)
        for p, tms in zip(case["pos"], case["tms"]):
            t = self.T.readUnixTime(tms // 1000)
            t.ms = tms % 1000
            tr.addObs(self.Obs(self.ENU(p[0], p[1], p[2]), t))
        for name, col in case["feats"]:
            tr.createAnalyticalFeature(name)
            for i, v in enumerate(col):
                tr.setObsAnalyticalFeature(name, i, NAN if v == "nan" else v)
        return tr

    def impl(self, case):
        tr = self.build(case)
        rets = []
        for op in case["ops"]:
            r = self.computeAbsCurv(tr) if op == "a" else self.estimate_speed(tr)
            rets.append(list(r))
        feats = [[nm, list(tr.getAnalyticalFeature(nm))] for nm in tr.getListAnalyticalFeatures()]
        xyz, t, tms = [], [], []
        for i in range(tr.size()):
            o = tr.getObs(i)
            xyz.append([o.position.getX(), o.position.getY(), o.position.getZ()])
            s = o.timestamp
            t.append(s.toAbsTime())
            tms.append(calendar.timegm((s.year, s.month, s.day, s.hour, s.min, s.sec)) * 1000 + s.ms)
        return {"rets": rets, "feats": feats, "xyz": xyz, "t": t, "tms": tms, "n": tr.size()}

    # ---------------------------------------------------------------- model
    def abs_t(self, tms):
        return (tms // 1000) + (tms % 1000) / 1000.0 if tms % 1000 else tms // 1000

    def requests(self, case):
        q = case["mode"] == "q"
        enc = (lambda v: "nan" if v == "nan" else ratstr(v)) if q else (lambda v: "nan" if v == "nan" else fbits(v))
        xs = tok_list(enc(p[0]) for p in case["pos"])
        ys = tok_list(enc(p[1]) for p in case["pos"])
        if q:
            ts = tok_list(ratstr(Fraction(t, 1000)) for t in case["tms"])
        else:
            ts = tok_list(fbits((t // 1000) + (t % 1000) / 1000.0) for t in case["tms"])
        feats = tok_list((nm + ":" + tok_list(enc(v) for v in col) for nm, col in case["feats"]), sep=";")
        return ["C17.run %s %s %s %s %s %s" % (case["mode"], xs, ys, ts, feats, case["ops"])]

    def decode(self, case, replies):
        r = replies[0]
        if r == "bad-request":
            raise ValueError("bad-request")
        q = case["mode"] == "q"
        dec = (lambda w: NAN if w == "nan" else float(parse_rat(w))) if q else bitsf
        rets_t, feats_t, xs, ys, ts = r.split(" ")
        rets = [None if c == "none" else [dec(w) for w in untok(c)] for c in untok(rets_t, "|")]
        feats = []
        for f in untok(feats_t, ";"):
            nm, col = f.split(":")
            feats.append([nm, [dec(w) for w in untok(col)]])
        xs, ys, ts = [dec(w) for w in untok(xs)], [dec(w) for w in untok(ys)], [dec(w) for w in untok(ts)]
        return {"rets": rets, "feats": feats, "xyz": [[x, y, p[2]] for x, y, p in zip(xs, ys, case["pos"])],
                "t": ts, "tms": list(case["tms"]), "n": len(xs)}

    # ---------------------------------------------------------------- oracle (transfer)
    def spec(self, case, out):
        if "err" in out:
            return "raised %s (%s)" % (out["err"], out.get("detail"))
        pos, tms, n = case["pos"], case["tms"], len(case["pos"])
        # computing the features leaves positions and timestamps unchanged
        if out["n"] != n or not close(out["xyz"], pos, 0.0, 0.0):
            return "positions changed: %s -> %s" % (pos, out["xyz"])
        if out["tms"] != tms:
            return "timestamps changed: %s -> %s" % (tms, out["tms"])
        given = {nm for nm, _ in case["feats"]}
        after = dict((nm, col) for nm, col in out["feats"])
        for nm, col in case["feats"]:
            if nm in ("ds", "abs_curv", "speed"):
                continue
            want = [NAN if v == "nan" else v for v in col]
            if nm not in after or not close(after[nm], want, 0.0, 0.0):
                return "feature %s changed: %s -> %s" % (nm, want, after.get(nm))
        if n < 2:
            return None
        legs = [math.hypot(pos[i + 1][0] - pos[i][0], pos[i + 1][1] - pos[i][1]) for i in range(n - 1)]
        total = math.fsum(legs)
        for op, ret in zip(case["ops"], out["rets"]):
            if op == "a":
                if given & {"ds", "abs_curv"}:
                    continue      # a user `ds` is consumed / a stale `abs_curv` is reused: outside the statement
                s = ret
                if len(s) != n:
                    return "abs_curv has %d values for %d fixes" % (len(s), n)
                if any(isnan(v) for v in s):
                    return "abs_curv contains NaN: %s" % s
                if s[0] != 0:
                    return "abs_curv starts at %r, not 0" % (s[0],)
                for i in range(n - 1):
                    inc = s[i + 1] - s[i]
                    if inc < 0:
                        return "abs_curv decreases at fix %d: %r -> %r" % (i + 1, s[i], s[i + 1])
                    tol = 1e-9 * max(legs[i], abs(s[i + 1])) + 1e-300
                    if abs(inc - legs[i]) > tol:
                        return "abs_curv grows by %r between fixes %d and %d, planimetric distance is %r" % (inc, i, i + 1, legs[i])
                if abs(s[n - 1] - total) > 1e-9 * max(total, 1e-300):
                    return "abs_curv ends at %r, planimetric length is %r" % (s[n - 1], total)
            else:
                if "speed" in given:
                    continue      # an existing `speed` feature is returned as it is
                v = ret
                if len(v) != n:
                    return "speed has %d values for %d fixes" % (len(v), n)
                tmax = max(abs(t) for t in tms) / 1000.0
                for i in range(n):
                    a, b = (1, 0) if i == 0 else (n - 1, n - 2) if i == n - 1 else (i + 1, i - 1)
                    el = Fraction(tms[a] - tms[b], 1000)
                    if el == 0:
                        if not isnan(v[i]):
                            return "speed[%d] = %r although no time elapsed between fixes %d and %d (NaN expected)" % (i, v[i], b, a)
                        continue
                    d = math.hypot(pos[a][0] - pos[b][0], pos[a][1] - pos[b][1])
                    want = d / float(el)
                    # float seconds since 1970 carry an absolute error of one ulp each when milliseconds are present
                    rel = 1e-9 + (4 * ulp(tmax) / float(el) if any(t % 1000 for t in tms) else 0.0)
                    if isnan(v[i]) or abs(v[i] - want) > rel * max(abs(want), 1e-300):
                        return ("speed[%d] = %r, expected distance(fix %d, fix %d) / elapsed = %r / %s = %r"
                                % (i, v[i], b, a, d, float(el), want))
        return None

    # ---------------------------------------------------------------- shrinking / search
    def shrink(self, case):
        n = len(case["pos"])
        if len(case["ops"]) > 1:
            for i in range(len(case["ops"])):
                yield dict(case, ops=case["ops"][:i] + case["ops"][i + 1:])
        if n > 2:
            for i in range(n):
                yield dict(case, pos=case["pos"][:i] + case["pos"][i + 1:], tms=case["tms"][:i] + case["tms"][i + 1:],
                           feats=[[nm, col[:i] + col[i + 1:]] for nm, col in case["feats"]])
        if case["feats"]:
            for i in range(len(case["feats"])):
                yield dict(case, feats=case["feats"][:i] + case["feats"][i + 1:])
        if any(p[2] != 0 for p in case["pos"]):
            yield dict(case, pos=[[p[0], p[1], 0] for p in case["pos"]])
        t0 = case["tms"][0]
        if t0 != 0:
            yield dict(case, tms=[t - t0 for t in case["tms"]])

    def mutate(self, case, rng):
        for _ in range(20):
            yield self.lattice(rng)


# ---- tie to the source by translation (tools/py2lean.py -> lean/TracklibVerif/Gen/ObsCoords.lean, regenerated on every run)
P.tie_modules = ["TracklibVerif.Tie.C17"]
P.theorems = P.theorems + [
    ("TracklibVerif.Tie.C17", "TV.Tie.C17.tie_sub", "the Lean translation of the CURRENT source of ENUCoords.__sub__ is the component-wise difference"),
    ("TracklibVerif.Tie.C17", "TV.Tie.C17.tie_distance2DTo", "the translation of the CURRENT source of ENUCoords.distance2DTo (with __sub__, norm2D) equals the model's dist2D on all arguments (x ** 2 = x * x)"),
]
