"""C20 — projecting a point on a polyline returns its nearest point
(tracklib/util/geometry.py cartesienne / projection_droite / proj_segment / proj_polyligne,
 tracklib/algo/mapping.py mapOnTrack / __projOnTrack)."""
import math
from fractions import Fraction as F
from engine import Prop, fbits, bitsf, tok_list, close

TOL = 1e-9


# ------------------------------------------------------------------------------------------
# exact rational geometry (the oracle): nothing here shares the implementation's algorithm
# ------------------------------------------------------------------------------------------
def fr(v):
    return F(v)  # exact value of a float / int


def seg_d2(px, py, x1, y1, x2, y2):
    """exact squared distance from (px,py) to the closed segment (x1,y1)-(x2,y2) (a point when degenerate)"""
    ux, uy = x2 - x1, y2 - y1
    uu = ux * ux + uy * uy
    if uu == 0:
        return (px - x1) ** 2 + (py - y1) ** 2
    t = ((px - x1) * ux + (py - y1) * uy) / uu
    t = min(F(1), max(F(0), t))
    cx, cy = x1 + t * ux, y1 + t * uy
    return (px - cx) ** 2 + (py - cy) ** 2


def end_d2(px, py, x1, y1, x2, y2):
    return min((px - x1) ** 2 + (py - y1) ** 2, (px - x2) ** 2 + (py - y2) ** 2)


def segments(X, Y):
    return [(fr(X[i]), fr(Y[i]), fr(X[i + 1]), fr(Y[i + 1])) for i in range(len(X) - 1)]


def degenerate(s):
    return s[0] == s[2] and s[1] == s[3]


def is_vertical(s):
    return s[0] == s[2] and s[1] != s[3]


def is_horizontal_fp(xs, ys, i):
    """horizontal segment whose ordinate is not reproduced by the code's `yb = -c / b` in double
    arithmetic (a decidable predicate on the input floats; evaluated with the same three operations)"""
    x1, y1, x2, y2 = float(xs[i]), float(ys[i]), float(xs[i + 1]), float(ys[i + 1])
    if y1 != y2 or x1 == x2:
        return False
    a = y2 - y1
    b = -(x2 - x1)
    c = -(a * x1 + b * y1)
    return (-c / b) != y1


def scale_of(X, Y, q):
    return max([1.0] + [abs(float(v)) for v in list(X) + list(Y) + list(q)])


def check_answer(X, Y, q, d, xp, yp, i, reduced=()):
    """None if (d, (xp,yp), i) is the nearest point of the polyline to q, carried by segment i,
    at distance d; else what fails. `reduced` = indices of segments replaced by their two end
    points when the minimum is taken (used only by classify() to recognise the listed defects)."""
    for v in (d, xp, yp):
        if not isinstance(v, (int, float)) or isinstance(v, bool) or v != v or math.isinf(v):
            return "non-finite output %r" % ([d, xp, yp],)
    n = len(X)
    if isinstance(i, bool) or not isinstance(i, int) or not (0 <= i <= n - 2):
        return "segment index %r outside 0..%d" % (i, n - 2)
    segs = segments(X, Y)
    qx, qy = fr(q[0]), fr(q[1])
    sc = max(scale_of(X, Y, q), abs(d))
    tol = TOL * sc
    off2 = seg_d2(fr(xp), fr(yp), *segs[i])
    if off2 > F(tol) ** 2:
        return "returned point (%r, %r) is not on segment %d of the polyline (off by %.3g)" % (xp, yp, i, math.sqrt(off2))
    dq = math.sqrt((qx - fr(xp)) ** 2 + (qy - fr(yp)) ** 2)
    if abs(dq - d) > tol:
        return "returned distance %r differs from the distance %r between the query and the returned point" % (d, dq)
    m2 = min((end_d2(qx, qy, *s) if j in reduced else seg_d2(qx, qy, *s)) for j, s in enumerate(segs))
    m = math.sqrt(m2)
    if abs(m - d) > tol:
        return "not-minimal: returned distance %r, minimum distance from the query to the polyline is %r" % (d, m)
    return None


class P(Prop):
    id = "C20"
    design_ref = "DESIGN.md section 5, C20"
    M = "TracklibVerif.Props.C20"
    theorems = [
        (M, "TV.C20.proj_on_segment", "whenever proj_segment returns, the returned point lies on the segment (every orientation)"),
        (M, "TV.C20.proj_dist_consistent", "the returned distance is the distance from the query to the returned point (every segment on which it returns)"),
        (M, "TV.C20.proj_segment_min_partial", "non-vertical segment: proj_segment returns and its distance is <= the distance to every point of the segment"),
        (M, "TV.C20.vertical_as_coded", "vertical segment, as coded: ZeroDivisionError or the nearer END point (never the foot)"),
        (M, "TV.C20.proj_polyline_min_partial", "proj_polyligne: index of a non-skipped segment carrying the point, d = distance to it, d <= distance to every point of every non-vertical non-skipped segment and to the end points of all non-skipped ones"),
        (M, "TV.C20.proj_polyline_total", "no vertical non-skipped segment and at least one non-skipped segment: proj_polyligne returns (no exception)"),
        (M, "TV.C20.projOnTrack_spec", "__projOnTrack / mapOnTrack(coord) = proj_polyligne reordered as (point, distance, index)"),
        (M, "TV.C20.mapOnTrack_rows", "mapOnTrack(track): one row per query, in order, row j = projection of query j"),
        (M, "TV.C20.proj_segment_min_fails_on_vertical", "refutation of the full statement: segment (0,0)-(0,8), query (3,4), over every ordered field"),
    ]
    partial = ["proj_segment_min_partial / proj_polyline_min_partial: minimality proved for non-vertical segments only; for vertical segments the statement is "
               "false of the code (D16, proj_segment_min_fails_on_vertical); points of skipped (near-)zero-length segments are covered only through the end "
               "points of their non-skipped neighbours; IEEE rounding (D17) is outside the theorems and sampled by the transfer check"]
    open_statements = ["proj_segment_min (all orientations): FALSE of the current code, kept as a comment in Props/C20.lean with its refutation"]
    modelled = ("util/geometry.py cartesienne, projection_droite (b == 0 special case as coded), proj_segment, proj_polyligne; "
                "algo/mapping.py __projOnTrack, mapOnTrack (coordinate and track variants); Float instance, bit patterns")
    rule = ("exhaustive lattice scopes, then random polylines of 2..5 vertices built from oblique / horizontal / vertical / zero-length steps "
            "on an integer lattice (exact in double arithmetic) and on two-decimal coordinates (transfer stream), queries beside a segment, "
            "beyond its ends, on it, at a vertex, far away; entry points proj_segment, proj_polyligne, mapOnTrack(coord), mapOnTrack(track). "
            "non-trivial = the polyline has at least one segment of non-zero length. Outside the property's domain (an error is accepted there): "
            "proj_segment on a zero-length segment, a polyline all of whose vertices coincide.")
    trusted = ["math.sqrt / Float.sqrt correctly rounded; the sentinel 1e400 (+inf) modelled as 'no current minimum'"]

    def setup(self):
        from tracklib.util import geometry
        from tracklib.algo import mapping
        from tracklib.core import ENUCoords, Obs
        from tracklib import Track
        self.g, self.m, self.E, self.Obs, self.Track = geometry, mapping, ENUCoords, Obs, Track

    # ------------------------------------------------------------------ generators
    def exhaustive_scopes(self, tier):
        if tier == "thorough":
            return ["proj_segment: both end points in {0..3}^2, query in {-1..4}^2 (9216 cases)",
                    "proj_polyligne: 3 vertices in {0,1,2}^2, query in {-1..3}^2 (18225 cases)"]
        return ["proj_segment: both end points in {0,1,2}^2, query in {-1..3}^2 (2025 cases)",
                "proj_polyligne: 3 vertices in {0,1}^2, query in {-1..2}^2 (1024 cases)"]

    def cases(self, rng, tier):
        out = []
        big = tier == "thorough"
        pr = range(0, 4) if big else range(0, 3)
        qr = range(-1, 5) if big else range(-1, 4)
        for x1 in pr:
            for y1 in pr:
                for x2 in pr:
                    for y2 in pr:
                        for x in qr:
                            for y in qr:
                                out.append({"kind": "seg", "s": [float(x1), float(y1), float(x2), float(y2)], "q": [float(x), float(y)]})
        vr = [(x, y) for x in ((0, 1, 2) if big else (0, 1)) for y in ((0, 1, 2) if big else (0, 1))]
        qr = range(-1, 4) if big else range(-1, 3)
        for a in vr:
            for b in vr:
                for c in vr:
                    for x in qr:
                        for y in qr:
                            out.append({"kind": "poly", "X": [float(a[0]), float(b[0]), float(c[0])],
                                        "Y": [float(a[1]), float(b[1]), float(c[1])], "q": [float(x), float(y)]})
        n = 60000 if big else 7000
        for k in range(n):
            stream = "lattice" if k % 5 < 3 else "decimal"
            out.append(self.random_case(rng, stream))
        return out

    def rand_coord(self, rng, stream):
        if stream == "lattice":
            return float(rng.randint(-3, 8))
        return round(rng.randint(-300, 1500) / 100.0, 2)

    def step(self, rng, stream, p):
        """next vertex after p: oblique, horizontal, vertical or zero-length step"""
        kind = rng.choices(["oblique", "horizontal", "vertical", "zero"], weights=[5, 3, 2, 1])[0]
        for _ in range(20):
            nx, ny = self.rand_coord(rng, stream), self.rand_coord(rng, stream)
            if kind == "oblique" and nx != p[0] and ny != p[1]:
                return (nx, ny)
            if kind == "horizontal" and nx != p[0]:
                return (nx, p[1])
            if kind == "vertical" and ny != p[1]:
                return (p[0], ny)
            if kind == "zero":
                return (p[0], p[1])
        return (p[0] + 1.0, p[1] + 2.0)

    def rand_query(self, rng, stream, pts):
        i = rng.randrange(len(pts) - 1)
        (x1, y1), (x2, y2) = pts[i], pts[i + 1]
        ux, uy = x2 - x1, y2 - y1
        how = rng.choices(["beside", "beyond", "on", "vertex", "far", "any"], weights=[5, 3, 2, 2, 1, 2])[0]
        if stream == "lattice":
            t = rng.choice([0.25, 0.5, 0.75, 0.125])
            k = float(rng.choice([-3, -2, -1, 1, 2, 3]))
            if how == "beside":
                return [x1 + t * ux - k * uy, y1 + t * uy + k * ux]
            if how == "beyond":
                t = rng.choice([-1.0, -0.5, 1.5, 2.0, -2.0, 3.0])
                return [x1 + t * ux - k * uy * rng.choice([0, 1]), y1 + t * uy + k * ux * rng.choice([0, 1])]
            if how == "on":
                return [x1 + t * ux, y1 + t * uy]
        else:
            t = rng.random()
            k = rng.choice([-1, 1]) * rng.choice([0.01, 0.25, 1.0, 3.17])
            if how == "beside":
                return [round(x1 + t * ux - k * uy, 2), round(y1 + t * uy + k * ux, 2)]
            if how == "beyond":
                t = rng.choice([-1.3, -0.2, 1.1, 2.6])
                return [round(x1 + t * ux - k * uy * rng.choice([0, 1]), 2), round(y1 + t * uy + k * ux * rng.choice([0, 1]), 2)]
            if how == "on":
                if uy == 0:
                    return [round(x1 + t * ux, 2), y1]
                if ux == 0:
                    return [x1, round(y1 + t * uy, 2)]
                return [x1 + 0.5 * ux, y1 + 0.5 * uy]
        if how == "vertex":
            v = rng.choice(pts)
            return [v[0], v[1]]
        if how == "far":
            s = rng.choice([1e3, 1e5, 1e6])
            return [float(rng.randint(-3, 3)) * s + x1, float(rng.randint(-3, 3)) * s + y1]
        return [self.rand_coord(rng, stream), self.rand_coord(rng, stream)]

    def random_case(self, rng, stream):
        kind = rng.choices(["seg", "poly", "map", "mapt"], weights=[3, 4, 2, 1])[0]
        n = 2 if kind == "seg" else rng.randint(2, 5)
        pts = [(self.rand_coord(rng, stream), self.rand_coord(rng, stream))]
        while len(pts) < n:
            pts.append(self.step(rng, stream, pts[-1]))
        if all(p == pts[0] for p in pts) and rng.random() < 0.9:
            pts[-1] = (pts[0][0] + 2.0, pts[0][1] + 1.0)   # all-degenerate polylines kept rare (outside the domain)
        X, Y = [p[0] for p in pts], [p[1] for p in pts]
        if kind == "seg":
            return {"kind": "seg", "stream": stream, "s": [X[0], Y[0], X[1], Y[1]], "q": self.rand_query(rng, stream, pts)}
        if kind == "mapt":
            return {"kind": "mapt", "stream": stream, "X": X, "Y": Y,
                    "Q": [self.rand_query(rng, stream, pts) for _ in range(rng.randint(1, 4))]}
        return {"kind": kind, "stream": stream, "X": X, "Y": Y, "q": self.rand_query(rng, stream, pts)}

    def poly_of(self, case):
        if case["kind"] == "seg":
            s = case["s"]
            return [s[0], s[2]], [s[1], s[3]]
        return case["X"], case["Y"]

    def describe(self, case):
        X, Y = self.poly_of(case)
        segs = segments(X, Y)
        t = {"kind": case["kind"], "stream": case.get("stream", "enum"), "vertices": len(X)}
        t["orient"] = "".join(sorted({("z" if degenerate(s) else "v" if s[0] == s[2] else "h" if s[1] == s[3] else "o") for s in segs}))
        return t

    def nontrivial(self, case):
        X, Y = self.poly_of(case)
        return any(not degenerate(s) for s in segments(X, Y))

    # ------------------------------------------------------------------ implementation
    def track(self, X, Y):
        return self.Track([self.Obs(self.E(x, y, 0)) for x, y in zip(X, Y)])

    def impl(self, case):
        k = case["kind"]
        if k == "seg":
            d, xp, yp = self.g.proj_segment(list(case["s"]), case["q"][0], case["q"][1])
            return {"d": float(d), "p": [float(xp), float(yp)]}
        if k == "poly":
            d, xp, yp, i = self.g.proj_polyligne(list(case["X"]), list(case["Y"]), case["q"][0], case["q"][1])
            return {"d": float(d), "p": [float(xp), float(yp)], "i": int(i)}
        if k == "map":
            c, d, i = self.m.mapOnTrack(self.E(case["q"][0], case["q"][1], 0), self.track(case["X"], case["Y"]))
            return {"d": float(d), "p": [float(c.getX()), float(c.getY())], "i": int(i), "z": float(c.getZ())}
        if k == "mapt":
            qt = self.track([q[0] for q in case["Q"]], [q[1] for q in case["Q"]])
            o = self.m.mapOnTrack(qt, self.track(case["X"], case["Y"]))
            D, Ed = o.getAnalyticalFeature("dist"), o.getAnalyticalFeature("edge")
            return {"rows": [[float(D[j]), float(o.getX(j)), float(o.getY(j)), int(Ed[j])] for j in range(o.size())],
                    "n": o.size(), "features": sorted(o.getListAnalyticalFeatures())}
        raise ValueError(k)

    # ------------------------------------------------------------------ model
    def requests(self, case):
        k = case["kind"]
        fl = lambda L: tok_list(fbits(v) for v in L)
        if k == "seg":
            return ["C20.seg " + " ".join(fbits(v) for v in list(case["s"]) + list(case["q"]))]
        if k in ("poly", "map"):
            return ["C20.%s %s %s %s %s" % (k, fl(case["X"]), fl(case["Y"]), fbits(case["q"][0]), fbits(case["q"][1]))]
        if k == "mapt":
            return ["C20.mapt %s %s %s %s" % (fl(case["X"]), fl(case["Y"]), fl([q[0] for q in case["Q"]]), fl([q[1] for q in case["Q"]]))]

    ERR = {"zerodiv": "err:zerodiv", "unbound": "err:UnboundLocalError"}

    def decode(self, case, replies):
        r = replies[0].split()
        k = case["kind"]
        if r[0] == "err":
            return {"err": self.ERR[r[1]]}
        if r[0] != "ok":
            raise ValueError(replies[0])
        if k == "seg":
            return {"d": bitsf(r[1]), "p": [bitsf(r[2]), bitsf(r[3])]}
        if k == "poly":
            return {"d": bitsf(r[1]), "p": [bitsf(r[2]), bitsf(r[3])], "i": int(r[4])}
        if k == "map":
            return {"d": bitsf(r[3]), "p": [bitsf(r[1]), bitsf(r[2])], "i": int(r[4]), "z": 0.0}
        rows = []
        for item in ([] if len(r) < 2 or r[1] == "_" else r[1].split(";")):
            xp, yp, d, i = item.split(",")
            rows.append([bitsf(d), bitsf(xp), bitsf(yp), int(i)])
        return {"rows": rows, "n": len(rows), "features": ["dist", "edge"]}

    def compare(self, case, impl_out, model_out):
        a = {k: v for k, v in impl_out.items() if k != "detail"}
        if close(a, model_out, self.rel_tol):
            return None
        # freedom left by the property: a tie (same distance reached on two segments / at two points). The two
        # answers must then have the same distance and the same standing w.r.t. the oracle (both right, or both
        # in the same listed defect class); everything else must be equal.
        if "err" not in a and "err" not in model_out:
            ra, rm = self.rows_of(case, a), self.rows_of(case, model_out)
            rest_a = {k: v for k, v in a.items() if k not in ("rows", "d", "p", "i")}
            rest_m = {k: v for k, v in model_out.items() if k not in ("rows", "d", "p", "i")}
            if len(ra) == len(rm) and rest_a == rest_m:
                X, Y = self.poly_of(case)
                ok = True
                for (q, d1, x1, y1, i1), (_, d2, x2, y2, i2) in zip(ra, rm):
                    if close([d1, x1, y1, i1], [d2, x2, y2, i2], self.rel_tol):
                        continue
                    v1 = self.classify_one(X, Y, q, (d1, x1, y1, i1))
                    v2 = self.classify_one(X, Y, q, (d2, x2, y2, i2))
                    if not (close(d1, d2, self.rel_tol) and v1 is not None and v1 == v2):
                        ok = False
                if ok:
                    return None
        return "impl=%s model=%s" % (a, model_out)

    # ------------------------------------------------------------------ oracle
    def rows_of(self, case, out):
        """[(query, d, xp, yp, i)] of a non-error output"""
        k = case["kind"]
        if k == "mapt":
            return [(case["Q"][j], r[0], r[1], r[2], r[3]) for j, r in enumerate(out["rows"])]
        return [(case["q"], out["d"], out["p"][0], out["p"][1], out.get("i", 0))]

    def in_domain(self, case):
        X, Y = self.poly_of(case)
        return any(not degenerate(s) for s in segments(X, Y))

    def spec(self, case, out):
        X, Y = self.poly_of(case)
        if not self.in_domain(case):
            if "err" in out:
                return None     # zero-length segment / single-point polyline: outside the property's domain
        if "err" in out:
            return "raised %s" % out["err"]
        k = case["kind"]
        if k == "mapt":
            if out["n"] != len(case["Q"]) or len(out["rows"]) != len(case["Q"]):
                return "mapOnTrack returned %d observations for %d queries" % (out["n"], len(case["Q"]))
            if out["features"] != ["dist", "edge"]:
                return "mapOnTrack output carries the features %s" % out["features"]
        if k == "map" and out.get("z") != 0.0:
            return "mapOnTrack returned a point with z = %r" % out.get("z")
        for (q, d, xp, yp, i) in self.rows_of(case, out):
            w = check_answer(X, Y, q, d, xp, yp, i)
            if w:
                return "query %s: %s" % (q, w)
        return None

    # ------------------------------------------------------------------ known findings
    def classify_one(self, X, Y, q, row):
        """class of a single failing query: `row` is None for an exception, else (d, xp, yp, i)"""
        segs = segments(X, Y)
        live = [j for j, s in enumerate(segs) if not (abs(float(X[j]) - float(X[j + 1])) + abs(float(Y[j]) - float(Y[j + 1])) < 1e-16)]
        vert = [j for j in live if is_vertical(segs[j])]
        hfp = [j for j in live if is_horizontal_fp(X, Y, j)]
        if row is None:
            return None
        d, xp, yp, i = row
        if check_answer(X, Y, q, d, xp, yp, i) is None:
            return "ok"
        if vert and check_answer(X, Y, q, d, xp, yp, i, reduced=vert) is None:
            return "vertical-segment"
        if hfp and check_answer(X, Y, q, d, xp, yp, i, reduced=hfp) is None:
            return "horizontal-segment-fp"
        if vert and hfp and check_answer(X, Y, q, d, xp, yp, i, reduced=vert + hfp) is None:
            return "vertical-segment"
        return None

    def zerodiv_vertical(self, X, Y, q):
        """the ZeroDivisionError of D16: a vertical segment with the query abscissa equal to the segment's
        and the code's pseudo-foot (x, a = y2 - y1) inside the segment's bounding box"""
        for j in range(len(X) - 1):
            x1, y1, x2, y2 = float(X[j]), float(Y[j]), float(X[j + 1]), float(Y[j + 1])
            if x1 == x2 and y1 != y2 and float(q[0]) == x1 and min(y1, y2) <= (y2 - y1) <= max(y1, y2):
                return True
        return False

    def classify(self, case, impl_out, msg):
        if not msg or impl_out is None:
            return None
        X, Y = self.poly_of(case)
        queries = case["Q"] if case["kind"] == "mapt" else [case["q"]]
        if "err" in impl_out:
            if impl_out["err"] == "err:zerodiv" and any(self.zerodiv_vertical(X, Y, q) for q in queries):
                # an earlier query of a mapOnTrack(track) call must not hide a different failure: every query
                # before the raising one is not observable, so the exception is all there is to classify
                return "vertical-segment"
            return None
        if case["kind"] == "mapt" and (impl_out.get("n") != len(queries) or impl_out.get("features") != ["dist", "edge"]):
            return None
        if case["kind"] == "map" and impl_out.get("z") != 0.0:
            return None
        classes = []
        for (q, d, xp, yp, i) in self.rows_of(case, impl_out):
            c = self.classify_one(X, Y, q, (d, xp, yp, i))
            if c is None:
                return None
            if c != "ok":
                classes.append(c)
        return classes[0] if classes else None

    # ------------------------------------------------------------------ shrinking / search
    def shrink(self, case):
        k = case["kind"]
        if k == "mapt":
            for q in case["Q"]:
                yield {"kind": "map", "X": case["X"], "Y": case["Y"], "q": q}
            return
        if k == "map":
            yield dict(case, kind="poly")
        if k in ("poly", "map"):
            X, Y = case["X"], case["Y"]
            if len(X) == 2 and k == "poly":
                yield {"kind": "seg", "s": [X[0], Y[0], X[1], Y[1]], "q": case["q"]}
            for j in range(len(X)):
                if len(X) > 2:
                    yield dict(case, X=X[:j] + X[j + 1:], Y=Y[:j] + Y[j + 1:])
        # simpler numbers
        def simpler(v):
            r = float(round(v))
            return [r] if r != v else []
        if k == "seg":
            for j, v in enumerate(case["s"]):
                for r in simpler(v):
                    s = list(case["s"]); s[j] = r
                    yield dict(case, s=s)
        else:
            for name in ("X", "Y"):
                for j, v in enumerate(case[name]):
                    for r in simpler(v):
                        L = list(case[name]); L[j] = r
                        yield dict(case, **{name: L})
        for j, v in enumerate(case["q"]):
            for r in simpler(v):
                qq = list(case["q"]); qq[j] = r
                yield dict(case, q=qq)

    def mutate(self, case, rng):
        if case["kind"] == "mapt":
            for q in case["Q"]:
                yield {"kind": "map", "X": case["X"], "Y": case["Y"], "q": q}
            return
        for dx, dy in ((0, 0), (1, 0), (-1, 0), (0, 1), (0, -1), (0.5, 0.5), (2, -1)):
            yield dict(case, q=[case["q"][0] + dx, case["q"][1] + dy])


# ---- tie to the source by translation (tools/py2lean.py -> lean/TracklibVerif/Gen/Geometry.lean, regenerated on every run)
P.tie_modules = ["TracklibVerif.Tie.C20"]
P.theorems = P.theorems + [
    ("TracklibVerif.Tie.C20", "TV.Tie.C20.tie_cartesienne", "the Lean translation of the CURRENT source of geometry.cartesienne equals the model's cartesienne on every list of >= 4 numbers"),
    ("TracklibVerif.Tie.C20", "TV.Tie.C20.tie_cartesienne_short", "the translated cartesienne raises IndexError on every shorter list"),
    ("TracklibVerif.Tie.C20", "TV.Tie.C20.tie_projection_droite", "the translation of the CURRENT source of geometry.projection_droite equals the model's projectionDroite on all arguments, exceptions included"),
    ("TracklibVerif.Tie.C20", "TV.Tie.C20.tie_proj_segment", "the translation of the CURRENT source of geometry.proj_segment equals the model's projSegment on all arguments, exceptions included"),
]
