"""C20 — projecting a point on a polyline returns its nearest point
(tracklib/util/geometry.py cartesienne / projection_droite / proj_segment / proj_polyligne,
 tracklib/algo/mapping.py mapOnTrack / __projOnTrack)."""
import math
from fractions import Fraction as F
from engine import Prop, fbits, bitsf, tok_list, close, err_kind

TOL = 1e-9


class Plumbing(Exception):
    """an exception raised while the HARNESS builds the inputs of a call (tracks, observations, coordinates, in-place edits of
    a sequence) or reads back what it has just built: not an answer of the projection. impl() reports it as
    {"plumbing": ...}: the oracle does not judge it (it is not about the property), the correspondence does (no model
    output has that shape)."""


def plumb(fn, *a, **kw):
    try:
        return fn(*a, **kw)
    except Plumbing:
        raise
    except KeyboardInterrupt:
        raise
    except BaseException as e:
        raise Plumbing("%s: %s" % (type(e).__name__, str(e)[:160]))


# names of the analytical features a track of queries / a reference track may carry before the call ("dist" and "edge" are
# the names mapOnTrack itself writes: a track that was snapped before carries them); values of such a pre-existing feature
FEAT_NAMES = ["dist", "edge", "speed", "abs_curv", "d", "Dist", "edge2", "hdop_"]
FEAT_VALUES = [0.0, 0.5, 3.0, 12.25, -1.0, 1e6, 7.0, 99.0]


# ------------------------------------------------------------------------------------------
# exact rational geometry (the oracle): nothing here shares the implementation's algorithm
# ------------------------------------------------------------------------------------------
def fr(v):
    return F(v)  # exact value of a float / int


def seg_d2(px, py, x1, y1, x2, y2):
    """exact squared distance from (px,py) to the closed segment (x1,y1)-(x2,y2) (a point when degenerate)"""
    ux, uy = x2 - x1, y2 - y1
    uu = ux * ux + uy * uy
    if uu == 0:
        return (px - x1) ** 2 + (py - y1) ** 2
    t = ((px - x1) * ux + (py - y1) * uy) / uu
    t = min(F(1), max(F(0), t))
    cx, cy = x1 + t * ux, y1 + t * uy
    return (px - cx) ** 2 + (py - cy) ** 2


def end_d2(px, py, x1, y1, x2, y2):
    return min((px - x1) ** 2 + (py - y1) ** 2, (px - x2) ** 2 + (py - y2) ** 2)


def segments(X, Y):
    return [(fr(X[i]), fr(Y[i]), fr(X[i + 1]), fr(Y[i + 1])) for i in range(len(X) - 1)]


def degenerate(s):
    return s[0] == s[2] and s[1] == s[3]


def is_vertical(s):
    return s[0] == s[2] and s[1] != s[3]


def is_horizontal_fp(xs, ys, i):
    """horizontal segment whose ordinate is not reproduced by the code's `yb = -c / b` in double
    arithmetic (a decidable predicate on the input floats; evaluated with the same three operations)"""
    x1, y1, x2, y2 = float(xs[i]), float(ys[i]), float(xs[i + 1]), float(ys[i + 1])
    if y1 != y2 or x1 == x2:
        return False
    a = y2 - y1
    b = -(x2 - x1)
    c = -(a * x1 + b * y1)
    return (-c / b) != y1


def is_near_horizontal_fp(xs, ys, i):
    """a segment that is horizontal up to rounding (its two ordinates are within 64 ulps of each other, and differ): the
    code's inclusion test on y is then decided by the rounding of `yb = -c / b` — the situation of D17, one ulp away"""
    x1, y1, x2, y2 = float(xs[i]), float(ys[i]), float(xs[i + 1]), float(ys[i + 1])
    if y1 == y2 or x1 == x2:
        return False
    return abs(y2 - y1) <= 64 * math.ulp(max(abs(y1), abs(y2)))


def is_near_vertical_fp(xs, ys, i, tol):
    """a segment so close to vertical that the base point (0, yb = -c / b) through which the code constructs the foot has an
    ordinate whose rounding unit exceeds the oracle's tolerance: the ordinate of the foot is then lost in `(y - yb)` and
    `yb + ...` (decidable on the input floats; evaluated with the code's own operations). Continuous counterpart of D16."""
    x1, y1, x2, y2 = float(xs[i]), float(ys[i]), float(xs[i + 1]), float(ys[i + 1])
    if x1 == x2:
        return False
    a = y2 - y1
    b = -(x2 - x1)
    c = -(a * x1 + b * y1)
    yb = -c / b
    return yb != yb or math.isinf(yb) or 4 * math.ulp(abs(yb)) > tol


def is_inclusion_fp(xs, ys, i, q, ulps=64):
    """The inclusion test of the foot on segment i is decided by ROUNDING for the query q: the exact foot of the
    perpendicular lies on the segment (parameter 0 <= t <= 1, exact rational arithmetic), yet the foot the code computes in
    doubles (cartesienne, projection_droite: evaluated here with the code's own operations) fails `proj_segment`'s box test,
    missing the box by at most `ulps` units in the last place of the coordinate concerned. The general form of D17 (an exactly
    horizontal segment whose ordinate -c / b does not reproduce is the case t anywhere, miss of one ulp): e.g. a segment
    horizontal up to 1e-9 and a foot 1e-6 from one of its ends, whose ordinate differs from the end's by less than an ulp.
    Decidable on the input floats; the code then falls back on the nearer END point."""
    x1, y1, x2, y2 = float(xs[i]), float(ys[i]), float(xs[i + 1]), float(ys[i + 1])
    x, y = float(q[0]), float(q[1])
    if not all(finite(v) for v in (x1, y1, x2, y2, x, y)) or (x1 == x2 and y1 == y2):
        return False
    u1 = x2 - x1
    u2 = y2 - y1
    b = -u1
    a = u2
    c = -(a * x1 + b * y1)
    if b == 0:
        return False
    try:
        xv = -b
        yv = a
        norm = math.sqrt(xv * xv + yv * yv)
        yb = -c / b
        BH = ((x - 0) * xv + (y - yb) * yv) / norm
        xp = 0 + BH * xv / norm
        yp = yb + BH * yv / norm
    except (ZeroDivisionError, OverflowError, ValueError):
        return False
    if not (finite(xp) and finite(yp)):
        return False
    inx = (x1 <= xp <= x2) or (x2 <= xp <= x1)
    iny = (y1 <= yp <= y2) or (y2 <= yp <= y1)
    if inx and iny:
        return False
    ux, uy = fr(x2) - fr(x1), fr(y2) - fr(y1)
    t = ((fr(x) - fr(x1)) * ux + (fr(y) - fr(y1)) * uy) / (ux * ux + uy * uy)
    if not (0 <= t <= 1):
        return False
    mx = 0.0 if inx else min(abs(xp - x1), abs(xp - x2))
    my = 0.0 if iny else min(abs(yp - y1), abs(yp - y2))
    return mx <= ulps * math.ulp(max(abs(x1), abs(x2), abs(xp))) and my <= ulps * math.ulp(max(abs(y1), abs(y2), abs(yp)))


def line_d2(px, py, x1, y1, x2, y2):
    """exact squared distance from (px,py) to the LINE through (x1,y1), (x2,y2)"""
    ux, uy = x2 - x1, y2 - y1
    uu = ux * ux + uy * uy
    cr = (px - x1) * uy - (py - y1) * ux
    return cr * cr / uu


def check_fragile(X, Y, q, d, xp, yp, i, frag, reduced, removed=()):
    """The widest behaviour the code can have when the segments `frag` are numerically vertical: on such a segment it returns
    either the distance to its LINE with a foot whose ordinate is rounding noise, or its nearer end point. None if
    (d, (xp,yp), i) is explained that way (all other segments behaving correctly, those in `reduced` as in D16 / D17)."""
    for v in (d, xp, yp):
        if not isinstance(v, (int, float)) or isinstance(v, bool) or v != v or math.isinf(v):
            return "non-finite"
    n = len(X)
    if isinstance(i, bool) or not isinstance(i, int) or not (0 <= i <= n - 2):
        return "index"
    segs = segments(X, Y)
    qx, qy = fr(q[0]), fr(q[1])
    tol = TOL * max(scale_of(X, Y, q), abs(d))
    lo, hi = [], []
    for j, sg in enumerate(segs):
        if degenerate(sg) or j in removed:
            continue
        if j in frag:
            lo.append(line_d2(qx, qy, *sg)); hi.append(end_d2(qx, qy, *sg))
        elif j in reduced:
            lo.append(end_d2(qx, qy, *sg)); hi.append(end_d2(qx, qy, *sg))
        else:
            lo.append(seg_d2(qx, qy, *sg)); hi.append(seg_d2(qx, qy, *sg))
    if not lo or not (math.sqrt(min(lo)) - tol <= d <= math.sqrt(min(hi)) + tol):
        return "distance outside the explained range"
    dq = math.sqrt((qx - fr(xp)) ** 2 + (qy - fr(yp)) ** 2)
    if i in frag:
        at_end = min((fr(xp) - segs[i][0]) ** 2 + (fr(yp) - segs[i][1]) ** 2, (fr(xp) - segs[i][2]) ** 2 + (fr(yp) - segs[i][3]) ** 2) <= F(tol) ** 2
        if at_end and abs(dq - d) <= tol:
            return None
        if abs(math.sqrt(line_d2(qx, qy, *segs[i])) - d) <= tol:
            return None
        return "fragile segment: neither an end point nor the line distance"
    if seg_d2(fr(xp), fr(yp), *segs[i]) > F(tol) ** 2 or abs(dq - d) > tol:
        return "point / distance inconsistent on a well-conditioned segment"
    return None


def scale_of(X, Y, q):
    return max([1.0] + [abs(float(v)) for v in list(X) + list(Y) + list(q)])


NONFINITE = ("inf", "-inf", "nan")     # a non-finite query coordinate of a case (cases stay strict JSON); float() reads them
DMAX2 = F(2) ** 1024                   # a squared distance >= 2**1024 is not a finite double


def finite(v):
    v = float(v)
    return v == v and not math.isinf(v)


def out_of_range(X, Y, q):
    """No nearest point at a distance the code can hold: a coordinate of the query or of the polyline is inf / NaN, or the
    EXACT squared distance from the query to every segment that proj_polyligne does not skip (to its first vertex when it
    skips them all) is >= 2**1024 (proj_segment / proj_polyligne compute squared distances in doubles: they are all inf /
    NaN there). Decided on the input alone, in exact rational arithmetic. On such an input the property does not constrain
    the code (no distance is < the sentinel 1e400 = +inf: it answers from the first vertex with the distance inf / NaN, or
    raises OverflowError at `(x - xproj) ** 2` on Python floats); the correspondence with the model is still checked."""
    vals = [float(v) for v in list(X) + list(Y) + list(q)]
    if not all(finite(v) for v in vals):
        return True
    if max([0.0] + [abs(v) for v in vals]) < 1e150:
        return False          # every squared distance is below 8e300
    qx, qy = fr(float(q[0])), fr(float(q[1]))
    live = [s for j, s in enumerate(segments(X, Y))
            if not (abs(float(X[j]) - float(X[j + 1])) + abs(float(Y[j]) - float(Y[j + 1])) < 1e-16)]
    if not live:
        return len(X) >= 1 and len(Y) >= 1 and (qx - fr(float(X[0]))) ** 2 + (qy - fr(float(Y[0]))) ** 2 >= DMAX2
    return all(seg_d2(qx, qy, *s) >= DMAX2 for s in live)


def zf(v):
    """altitude of a case: None stands for NaN (cases stay strict JSON)"""
    return float("nan") if v is None else float(v)


def flat(zs):
    return all(v is not None and float(v) == 0.0 for v in zs)


NP_CONT = ("npf", "npi")          # containers whose elements are numpy scalars (`-c / b` never raises)
INT_CONT = ("npi", "int")         # containers of integers (lattice stream only)


def check_answer(X, Y, q, d, xp, yp, i, reduced=(), removed=()):
    """None if (d, (xp,yp), i) is the nearest point of the polyline to q, carried by segment i,
    at distance d; else what fails. `reduced` = indices of segments replaced by their two end
    points when the minimum is taken, `removed` = indices of segments left out of the minimum (both used only by
    classify() to recognise the listed defects; the oracle proper, spec(), passes neither)."""
    for v in (d, xp, yp):
        if not isinstance(v, (int, float)) or isinstance(v, bool) or v != v or math.isinf(v):
            return "non-finite output %r" % ([d, xp, yp],)
    n = len(X)
    if isinstance(i, bool) or not isinstance(i, int) or not (0 <= i <= n - 2):
        return "segment index %r outside 0..%d" % (i, n - 2)
    segs = segments(X, Y)
    qx, qy = fr(q[0]), fr(q[1])
    sc = max(scale_of(X, Y, q), abs(d))
    tol = TOL * sc
    off2 = seg_d2(fr(xp), fr(yp), *segs[i])
    if off2 > F(tol) ** 2:
        return "returned point (%r, %r) is not on segment %d of the polyline (off by %.3g)" % (xp, yp, i, math.sqrt(off2))
    dq = math.sqrt((qx - fr(xp)) ** 2 + (qy - fr(yp)) ** 2)
    if abs(dq - d) > tol:
        return "returned distance %r differs from the distance %r between the query and the returned point" % (d, dq)
    m2 = min([(end_d2(qx, qy, *s) if j in reduced else seg_d2(qx, qy, *s)) for j, s in enumerate(segs) if j not in removed] or [seg_d2(qx, qy, *segs[i])])
    m = math.sqrt(m2)
    if abs(m - d) > tol:
        return "not-minimal: returned distance %r, minimum distance from the query to the polyline is %r" % (d, m)
    return None


class P(Prop):
    id = "C20"
    design_ref = "DESIGN.md section 5, C20"
    M = "TracklibVerif.Props.C20"
    theorems = [
        (M, "TV.C20.proj_on_segment", "whenever proj_segment returns, the returned point lies on the segment (every orientation)"),
        (M, "TV.C20.proj_dist_consistent", "the returned distance is the distance from the query to the returned point (every segment on which it returns)"),
        (M, "TV.C20.proj_segment_min_partial", "non-vertical segment: proj_segment returns and its distance is <= the distance to every point of the segment"),
        (M, "TV.C20.vertical_as_coded", "vertical segment, as coded: ZeroDivisionError or the nearer END point (never the foot)"),
        (M, "TV.C20.proj_polyline_min_partial", "proj_polyligne on a polyline with a kept segment: index of a non-skipped segment carrying the point, d = distance to it, d <= distance to every point of every non-vertical non-skipped segment and to the end points of all non-skipped ones"),
        (M, "TV.C20.proj_polyline_total", "no vertical non-skipped segment and at least one vertex: proj_polyligne returns (no exception), whether or not a segment is kept"),
        (M, "TV.C20.proj_polyline_all_skipped", "every segment skipped (all vertices coincide up to 1e-16 per segment; a single vertex): returns the FIRST vertex, index 0, d = distance to it; every point of the (t+1)-th segment is within (t+1) * 1e-16 of it, so d is the minimum distance up to that bound (the case repaired by fix 563eeba)"),
        (M, "TV.C20.proj_polyline_on", "ANY polyline, kept segment or not: vertex i exists, d = distance to the returned point, which lies on segment i when the polyline has >= 2 vertices (is the vertex when it has one)"),
        (M, "TV.C20.projPolyligne_vs_old", "the repair is conservative: wherever the pre-fix function (projPolyligneOld) returned, the current one returns the same; where it raised UnboundLocalError on a non-empty polyline the current one returns the first vertex"),
        (M, "TV.C20.projOnTrack_spec", "__projOnTrack / mapOnTrack(coord) = proj_polyligne reordered as (point, distance, index)"),
        (M, "TV.C20.mapOnTrack_rows", "mapOnTrack(track): one row per query, in order, row j = projection of query j"),
        (M, "TV.C20.proj_segment_min_fails_on_vertical", "refutation of the full statement: segment (0,0)-(0,8), query (3,4), over every ordered field"),
        (M, "TV.C20.proj_segment_nearest_partial", "non-vertical segment (oblique / horizontal, any direction): returns a point ON the segment, d = distance to it, d <= distance to every point of the segment (the three clauses together)"),
        (M, "TV.C20.proj_segment_horizontal", "horizontal segment, exact arithmetic: returned ordinate = the segment's; query abscissa between the ends -> the foot (x, y1) at distance |y - y1|; minimal in every case"),
        (M, "TV.C20.proj_polyline_vertices", "skipped segments being true zero-length ones: d <= distance to EVERY vertex of the polyline (those of skipped segments included)"),
        (M, "TV.C20.proj_polyline_nearest_partial", "polyline of >= 2 vertices with no kept vertical segment, skipped ones zero-length (NO segment need be kept: all vertices may coincide): returns (d, p, i) with p on segment i, d = |q - p|, d <= distance to every point of every segment (skipped included)"),
        (M, "TV.C20.projSegmentG_lists", "proj_segment on a list / tuple of Python numbers is the kernel projSegment of the theorems"),
        (M, "TV.C20.projSegmentG_numpy_nonvertical", "proj_segment on numpy scalars (-c / b never raises) equals the kernel on every non-vertical segment"),
        (M, "TV.C20.projPolyligneXY_spec", "proj_polyligne(Xp, Yp, ..) with len(Yp) >= len(Xp) is the kernel on zip(Xp, Yp) (lists; numpy arrays when no kept segment is vertical)"),
        (M, "TV.C20.projPolyligneXY_short", "len(Yp) < len(Xp): proj_polyligne never returns a value (IndexError / earlier error)"),
        (M, "TV.C20.projOnTrack3_planimetric", "__projOnTrack on 3D positions is planimetric: (ENUCoords(px, py, 0), d, i) with (d, px, py, i) = proj_polyligne on the (X, Y) of track and query; no altitude is read"),
        (M, "TV.C20.mapOnTrack3_coord", "mapOnTrack(coord, track): one (ENUCoords(px, py, 0), d, i), the planimetric projection of the coordinate"),
        (M, "TV.C20.mapOnTrack3_track", "mapOnTrack(track, track): one row per query in order, row j = (ENUCoords(px, py, 0), d, i) the planimetric projection of query j"),
        (M, "TV.C20.proj_polyline_skipped_partial", "a skipped segment of NON-zero length < 1e-16 one of whose ends is an end of a kept segment: d <= distance from the query to every point of it + 1e-16 (the error made by skipping it is below the threshold)"),
        (M, "TV.C20.mapOnTrackT_rows", "mapOnTrack(track, track) on track OBJECTS (feature tables, time stamps): the output has exactly the features dist, edge, default time stamps, one observation per query; its positions / dist / edge columns are the point, distance, segment index of THIS projection of query j — whatever features (dist / edge included) the track of queries carried"),
        (M, "TV.C20.mapOnTrackT_ignores_state", "the result of mapOnTrack(track, track) depends on the positions of the two tracks only, not on their analytical features / time stamps"),
        (M, "TV.C20.mapOnTrackT_empty", "a track of queries without observation: AnalyticalFeatureError (createAnalyticalFeature on the empty output)"),
        (M, "TV.C20.mapChain_calls", "chained snapping mapOnTrack(mapOnTrack(q, ref0), ref1) ...: output k is mapOnTrack(output k-1, ref k) — its dist / edge are those of the projection of the previous output's positions, not the dist / edge that output carries"),
        (M, "TV.C20.proj_polyline_skipped_run", "a RUN of consecutive skipped segments of non-zero length going forward from an end of a kept segment: d <= distance from the query to every point of the (t+1)-th segment of the run + (t+1) * 1e-16"),
        (M, "TV.C20.proj_polyline_skipped_run_back", "the same for a run going backward to an end of a kept segment: every point of segment w + t of the run is covered up to (r - t) * 1e-16; with the forward form and proj_polyline_min_partial every point of a polyline that has a kept segment is covered"),
        (M, "TV.C20.vertical_zerodiv_iff", "vertical segment: ZeroDivisionError exactly when the query has the segment's abscissa and a = y2 - y1 lies between y1 and y2 (the harness predicate zerodiv_vertical); an end point otherwise"),
        (M, "TV.C20.proj_polyline_vertical_case", "any polyline with a kept segment, kept vertical segments included: segment i is kept and EITHER exactly vertical, the returned point being one of its END points, OR non-vertical with the answer right once the kept vertical segments are left out (on segment i, d = |q - p|, d <= every point of every kept non-vertical segment): the model's side of the class vertical-segment"),
        (M, "TV.C20.mapOnTrackT_nearest_partial", "the property at full strength through the track form, tracks with any state: reference of >= 2 positions (all may coincide) without kept vertical segment, at least one query -> returns; for every query the output's point lies on segment edge[j], dist[j] = distance to it, minimal over every point of every segment"),
    ]
    partial = ["proj_segment_min_partial / proj_segment_nearest_partial / proj_polyline_min_partial / proj_polyline_nearest_partial: the property is proved at full "
               "strength (point on the carrying segment, index, d = |q - p|, d minimal over every point of every segment, skipped zero-length segments included) "
               "for every NON-vertical orientation; for vertical segments the statement is false of the code (D16, pinned by test_geometry.py::testProjSegment; "
               "proj_segment_min_fails_on_vertical, vertical_as_coded, vertical_zerodiv_iff): there only the end points are covered; proj_polyline_vertical_case states what "
               "an answer on a polyline WITH kept vertical segments still guarantees (reported segment vertical -> one of its end points; else right w.r.t. the non-vertical ones). A skipped segment of non-zero length < 1e-16 is "
               "covered up to 1e-16 when it touches a kept segment (proj_polyline_skipped_partial), a run of k consecutive skipped segments from a kept end up to "
               "k * 1e-16 (proj_polyline_skipped_run, proj_polyline_skipped_run_back: every maximal run touches a kept segment unless all segments are skipped — then proj_polyline_all_skipped: the first vertex is returned, and the polyline is that point up to (number of segments) * 1e-16). mapOnTrackT_nearest_partial carries the same statement through the track form (track objects with features / time stamps, "
               "chained calls by mapChain_calls). Exact arithmetic: IEEE rounding (D17, horizontal segments) is outside the theorems and sampled by the transfer check; "
               "the numpy form on a vertical segment (inf / nan instead of ZeroDivisionError) is IEEE-only and checked by correspondence"]
    open_statements = ["proj_segment_min (all orientations, vertical included): FALSE of the current code (D16), kept as a comment in Props/C20.lean with its refutation"]
    modelled = ("util/geometry.py cartesienne, projection_droite (b == 0 special case as coded), proj_segment (segment given as list / tuple / numpy array: "
                "-c / b raises or not), proj_polyligne on its two sequences (lists / tuples / numpy arrays, range(len(Xp) - 1), IndexError on a shorter Yp, "
                "extra ordinates ignored, initial answer Xp[0], Yp[0], 0 (IndexError on an empty sequence), near-zero-length segments skipped, strict < minimum, distance to the first vertex when nothing was kept with `** 2` raising OverflowError on Python floats (the code since fix 563eeba)); core/track.py Track.getX() / getY() on 3D "
                "positions (ENU / Geo / ECEF: only getX, getY are read); algo/mapping.py __projOnTrack (ENUCoords(xproj, yproj, 0), altitudes never read), "
                "mapOnTrack with its dispatch on the first argument (coordinate / track of queries, dist and edge columns); the Track branch on track OBJECTS "
                "(Model/ProjTrack.lean): output = Track(), addObs(Obs(proj[0])) with the default time stamp, createAnalyticalFeature('dist' / 'edge', list) through "
                "the feature-table model of C01 (Model/Features.lean createC: silent no-op on an existing name, AnalyticalFeatureError on an empty track), the "
                "track of queries and the reference track with their own features and time stamps, chained calls (mapChain); Float instance, bit patterns")
    rule = ("exhaustive lattice scopes, then random polylines of 2..5 (one in nine: 6..30, one in eighty: 31..120, one in 1250: 300..1200) vertices built from oblique / horizontal / "
            "vertical / zero-length / collinear (forward and folding back) / back-to-an-earlier-vertex steps in every direction. Streams: integer lattice (exact in "
            "double arithmetic), two-decimal coordinates, longitudes / latitudes with 5 decimals around (2.35, 48.85), projected coordinates around "
            "(650000, 6860000), and 'nearaxis' (two-decimal, vertical / horizontal steps off by 0..1e6 ulps, very short segments 1e-17..1e-3 around the 1e-16 skip "
            "threshold). Queries beside a segment, beyond its ends, on it, at a vertex, far away, anywhere. Entry points proj_segment, proj_polyligne, "
            "__projOnTrack, mapOnTrack(coord), mapOnTrack(track); argument forms list / tuple / numpy float array / numpy int array / list of ints for the "
            "polyline, float / numpy scalar / int for the query, Yp longer or shorter than Xp; positions ENUCoords / GeoCoords / ECEFCoords with altitudes flat, "
            "equal on track and query, only on the track, only on the query, varying, NaN (the projection is planimetric: every clause is checked in the (X, Y) "
            "plane); sequences on ONE track object: project, modify in place (vertex moved, whole track shifted, vertex appended, object replaced), project "
            "again (one query in four repeats an earlier query of the sequence) — each projection checked against the geometry of that moment; mapOnTrack(track, track) on track objects that carry STATE (kind mapf, "
            "1 random case in 13): the track of queries has analytical features of its own (names among dist, edge, speed, abs_curv, ...: one case in two "
            "has a feature called dist and / or edge, the names mapOnTrack writes) and time stamps, the reference tracks have features, 0..2 further calls are "
            "chained (the output track of call k, which carries the dist / edge of call k, is the track of queries of call k + 1, on the same / a shifted / "
            "another reference), one case in twenty passes the reference track object itself as track of queries, one in a hundred an empty track; every "
            "call is judged on the queries it was given (read from the track of queries just before the call). Track objects are never recycled within a process (no identity reuse). "
            "non-trivial = in the domain. A polyline (>= 2 vertices) ALL of whose vertices coincide, exactly or up to the 1e-16 under which proj_polyligne skips a segment, is IN the domain since fix 563eeba "
            "(judged like any other: point on segment 0, d = distance to it = minimum distance; about 1 random polyline in 25 is one, on every stream and entry point, plus 1 sentinel case in 5). "
            "Outside the property's domain (an error is accepted there): "
            "proj_segment on a zero-length segment, "
            "a Yp shorter than Xp, a track of queries without observation, and an input whose distances are all outside the double range (a non-finite coordinate, or the exact squared "
            "distance from the query to every non-skipped segment — to the first vertex when all are skipped — >= 2**1024: proj_polyligne then keeps nothing against its sentinel 1e400 and answers from "
            "the first vertex with distance inf / NaN, or raises OverflowError at `** 2` on Python floats). Sentinel stream (1 case in 41, appended): proj_polyligne / its two-sequence forms with a query coordinate inf / -inf / "
            "nan / +-1e200 / +-1e308 / +-max double, or vertices at +-1e308, kept only when out of range in that exact sense; checked against the "
            "sentinel-faithful model bit for bit, not constrained by the oracle. Failing answers are excused only inside the listed classes: vertical-segment (D16) and horizontal-segment-fp (D17, also segments "
            "horizontal up to 64 ulps, and — its general form — any segment and query for which the exact foot lies on the segment while the foot computed in doubles "
            "with the code's own operations misses the inclusion box by <= 64 ulps: is_inclusion_fp). The class vertical-segment is recognised from the CASE, not from one failure pattern: the query is projected on a "
            "polyline with a KEPT EXACTLY VERTICAL segment (x1 == x2: b == 0, where projection_droite's special case is wrong and pinned by the test suite) and "
            "the failing answer (d, p, i) is explained by proj_segment answering anything at all on those segments, everything else being right: i is such a "
            "segment, or i is not and the answer is right once they are left out of the minimum (p on segment i, d = |q - p|, d minimal over the other "
            "segments); an exception raised while such a polyline is projected on belongs to the class too (proj_segment is called on every kept segment "
            "for every query). An index outside 0..n-2, and any failure on a polyline without kept vertical segment, are reported. Also in that class: "
            "segments vertical up to rounding, where the foot built through (0, -c / b) loses its ordinate (near-vertical finding, recognised by check_fragile).")
    trusted = ["math.sqrt / Float.sqrt correctly rounded; `v ** 2` is v * v (libm pow(v, 2.0) up to its rounding) and raises OverflowError exactly when v is a finite Python float with an infinite square; the sentinel 1e400 is the double +inf (driver: 1.0 / 0.0), compared `dist < inf` / `distmin == inf` as in the code "
               "(sentinel-faithful forms projPolyligneS / projPolyligneXYS, tied exactly by tie_proj_polyligne_exact); the theorems of Props/C20 are about the "
               "'no current minimum' forms, equal to them whenever every distance met is < inf and no square overflows (Lemmas/ProjSentinel.lean)"]

    def setup(self):
        from tracklib.util import geometry
        from tracklib.algo import mapping
        from tracklib.core import ENUCoords, Obs, ObsTime
        from tracklib import Track
        self.ObsTime = ObsTime
        from tracklib.core import GeoCoords, ECEFCoords
        import numpy
        self.g, self.m, self.E, self.Obs, self.Track, self.np = geometry, mapping, ENUCoords, Obs, Track, numpy
        self.C = {"ENU": ENUCoords, "GEO": GeoCoords, "ECEF": ECEFCoords}
        self.projOnTrack = getattr(mapping, "__projOnTrack")
        self._live, self._pinned = [], []

    # ------------------------------------------------------------------ generators
    def exhaustive_scopes(self, tier):
        if tier == "thorough":
            return ["proj_segment: both end points in {0..3}^2, query in {-1..4}^2 (9216 cases)",
                    "proj_polyligne: 3 vertices in {0,1,2}^2, query in {-1..3}^2 (18225 cases)"]
        return ["proj_segment: both end points in {0,1,2}^2, query in {-1..3}^2 (2025 cases)",
                "proj_polyligne: 3 vertices in {0,1}^2, query in {-1..2}^2 (1024 cases)"]

    def cases(self, rng, tier):
        out = []
        big = tier == "thorough"
        pr = range(0, 4) if big else range(0, 3)
        qr = range(-1, 5) if big else range(-1, 4)
        for x1 in pr:
            for y1 in pr:
                for x2 in pr:
                    for y2 in pr:
                        for x in qr:
                            for y in qr:
                                out.append({"kind": "seg", "s": [float(x1), float(y1), float(x2), float(y2)], "q": [float(x), float(y)]})
        vr = [(x, y) for x in ((0, 1, 2) if big else (0, 1)) for y in ((0, 1, 2) if big else (0, 1))]
        qr = range(-1, 4) if big else range(-1, 3)
        for a in vr:
            for b in vr:
                for c in vr:
                    for x in qr:
                        for y in qr:
                            out.append({"kind": "poly", "X": [float(a[0]), float(b[0]), float(c[0])],
                                        "Y": [float(a[1]), float(b[1]), float(c[1])], "q": [float(x), float(y)]})
        n = 60000 if big else 12000
        streams = ["lattice"] * 10 + ["decimal"] * 6 + ["geo", "geo", "lambert", "nearaxis"]
        for k in range(n):
            out.append(self.random_case(rng, streams[k % len(streams)]))
        # the sentinel stream (appended: the cases above are unchanged for a given seed): proj_polyligne on inputs whose
        # distances are all inf / NaN, where `dist < distmin` never holds against the sentinel 1e400 (the answer then comes from
        # the lines after the loop: the first vertex, distance inf / NaN, or OverflowError at `** 2` on Python floats)
        for k in range(n // 40):
            out.append(self.nonfinite_case(rng))
        return out

    # streams: lattice = integer lattice (exact in double arithmetic, the correspondence stream proper); decimal = two-decimal
    # coordinates; geo = longitudes / latitudes around (2.35, 48.85) with 5 decimals (segments of 1e-5..1e-2 degree);
    # lambert = projected coordinates around (650000, 6860000) with 2 decimals (large offsets); nearaxis = decimal, with the
    # vertical / horizontal steps off by a few ulps (segments that are axis-parallel up to rounding: translated data)
    DIGITS = {"decimal": 2, "nearaxis": 2, "geo": 5, "lambert": 2}

    def rand_xy(self, rng, stream):
        if stream == "lattice":
            return (float(rng.randint(-3, 8)), float(rng.randint(-3, 8)))
        if stream == "geo":
            return (round(2.35 + rng.randint(0, 1000) / 1e5, 5), round(48.85 + rng.randint(0, 1000) / 1e5, 5))
        if stream == "lambert":
            return (round(650000.0 + rng.randint(0, 50000) / 100.0, 2), round(6860000.0 + rng.randint(0, 50000) / 100.0, 2))
        return (round(rng.randint(-300, 1500) / 100.0, 2), round(rng.randint(-300, 1500) / 100.0, 2))

    def rand_offset(self, rng, stream):
        if stream == "lattice":
            return (float(rng.randint(-3, 8)), float(rng.randint(-3, 8)))
        if stream == "geo":
            return (rng.randint(-500, 500) / 1e5, rng.randint(-500, 500) / 1e5)
        return (round(rng.randint(-300, 1500) / 100.0, 2), round(rng.randint(-300, 1500) / 100.0, 2))

    def rnd(self, v, stream):
        return v if stream == "lattice" else round(v, self.DIGITS[stream])

    def ulps(self, rng, v, stream):
        """v, moved by a few ulps on the nearaxis stream"""
        if stream != "nearaxis":
            return v
        k = rng.choice([0, 1, 2, 3, 8, 100, 10 ** 4, 10 ** 6]) * rng.choice([-1, 1])
        return v + k * math.ulp(v)

    def step(self, rng, stream, pts):
        """next vertex after pts[-1]: oblique, horizontal, vertical, zero-length, collinear with the previous
        segment (forward: an extension; backward: folding back over it), or back to an earlier vertex"""
        p = pts[-1]
        kind = rng.choices(["oblique", "horizontal", "vertical", "zero", "collinear", "back"], weights=[10, 6, 4, 2, 2, 1])[0]
        if stream == "nearaxis" and rng.random() < 0.2:
            # a very short segment (below, at and above the 1e-16 threshold of proj_polyligne, up to 1e-3), any direction
            dl = rng.choice([1e-17, 1e-16, 3e-16, 1e-14, 1e-12, 1e-9, 1e-6, 1e-3])
            return (p[0] + rng.choice([-2, -1, 0, 1, 2]) * dl, p[1] + rng.choice([-2, -1, 0, 1, 2]) * dl)
        if kind == "collinear" and len(pts) >= 2 and pts[-2] != p:
            o = pts[-2]
            k = rng.choice([1.0, 2.0, 0.5, -0.5, -1.0, -2.0])
            nx, ny = p[0] + k * (p[0] - o[0]), p[1] + k * (p[1] - o[1])
            return (self.rnd(nx, stream), self.rnd(ny, stream))
        if kind == "back" and len(pts) >= 2:
            return rng.choice(pts[:-1])
        for _ in range(20):
            nx, ny = self.rand_xy(rng, stream)
            if kind == "horizontal" and nx != p[0]:
                return (nx, self.ulps(rng, p[1], stream))
            if kind == "vertical" and ny != p[1]:
                return (self.ulps(rng, p[0], stream), ny)
            if kind == "zero":
                return (p[0], p[1])
            if kind in ("oblique", "collinear", "back") and nx != p[0] and ny != p[1]:
                return (nx, ny)
        return (p[0] + 1.0, p[1] + 2.0) if stream == "lattice" else (self.rnd(p[0] + 0.001, stream), self.rnd(p[1] + 0.002, stream))

    def rand_query(self, rng, stream, pts):
        if len(pts) >= 2 and all(abs(p[0] - pts[0][0]) + abs(p[1] - pts[0][1]) < 1e-15 for p in pts) and rng.random() < 0.7:
            o = self.rand_offset(rng, stream)        # a point-like polyline: the constructions below all give the point itself
            return [self.rnd(pts[0][0] + o[0], stream), self.rnd(pts[0][1] + o[1], stream)]
        i = rng.randrange(len(pts) - 1)
        (x1, y1), (x2, y2) = pts[i], pts[i + 1]
        ux, uy = x2 - x1, y2 - y1
        how = rng.choices(["beside", "beyond", "on", "vertex", "far", "any"], weights=[5, 3, 2, 2, 1, 2])[0]
        if stream == "lattice":
            t = rng.choice([0.25, 0.5, 0.75, 0.125])
            k = float(rng.choice([-3, -2, -1, 1, 2, 3]))
            if how == "beside":
                return [x1 + t * ux - k * uy, y1 + t * uy + k * ux]
            if how == "beyond":
                t = rng.choice([-1.0, -0.5, 1.5, 2.0, -2.0, 3.0])
                return [x1 + t * ux - k * uy * rng.choice([0, 1]), y1 + t * uy + k * ux * rng.choice([0, 1])]
            if how == "on":
                return [x1 + t * ux, y1 + t * uy]
        else:
            t = rng.random()
            k = rng.choice([-1, 1]) * rng.choice([0.01, 0.25, 1.0, 3.17])
            nd = self.DIGITS[stream]
            if how == "beside":
                return [round(x1 + t * ux - k * uy, nd), round(y1 + t * uy + k * ux, nd)]
            if how == "beyond":
                t = rng.choice([-1.3, -0.2, 1.1, 2.6])
                return [round(x1 + t * ux - k * uy * rng.choice([0, 1]), nd), round(y1 + t * uy + k * ux * rng.choice([0, 1]), nd)]
            if how == "on":
                if uy == 0:
                    return [round(x1 + t * ux, nd), y1]
                if ux == 0:
                    return [x1, round(y1 + t * uy, nd)]
                return [x1 + 0.5 * ux, y1 + 0.5 * uy]
        if how == "vertex":
            v = rng.choice(pts)
            return [v[0], v[1]]
        if how == "far":
            s = rng.choice([1e3, 1e5, 1e6]) * (1e-4 if stream == "geo" else 1.0)
            return [float(rng.randint(-3, 3)) * s + x1, float(rng.randint(-3, 3)) * s + y1]
        return list(self.rand_xy(rng, stream))

    ALTS = [-12.5, 3.0, 35.0, 250.25, 1e4]

    def rand_alt(self, rng, n, nq):
        """(pattern, track altitudes, query altitudes); None = NaN"""
        pat = rng.choices(["flat", "same", "track", "query", "vary", "nan"], weights=[3, 3, 1, 2, 3, 1])[0]
        A = self.ALTS
        if pat == "flat":
            return pat, [0.0] * n, [0.0] * nq
        if pat == "same":
            h = rng.choice(A)
            return pat, [h] * n, [h] * nq
        if pat == "track":
            return pat, [rng.choice(A) for _ in range(n)], [0.0] * nq
        if pat == "query":
            return pat, [0.0] * n, [rng.choice(A) for _ in range(nq)]
        if pat == "vary":
            return pat, [rng.choice(A) for _ in range(n)], [rng.choice(A) for _ in range(nq)]
        Z = [None if rng.random() < 0.4 else rng.choice(A + [0.0]) for _ in range(n)]
        QZ = [None if rng.random() < 0.5 else rng.choice(A + [0.0]) for _ in range(nq)]
        if all(v is not None for v in Z + QZ):
            QZ[0] = None
        return pat, Z, QZ

    def rand_points(self, rng, stream, n):
        pts = [self.rand_xy(rng, stream)]
        while len(pts) < n:
            pts.append(self.step(rng, stream, pts))
        return pts

    def rand_point_polyline(self, rng, stream, n):
        """a polyline all of whose segments are skipped by proj_polyligne: n coinciding vertices (exactly, or — nearaxis stream /
        one in three elsewhere but on the lattice — up to steps of 1e-17, below the 1e-16 threshold). In the domain since fix 563eeba."""
        p = self.rand_xy(rng, stream)
        pts = [p]
        tiny = stream == "nearaxis" or (stream != "lattice" and rng.random() < 0.33)
        while len(pts) < n:
            q = pts[-1]
            if tiny and rng.random() < 0.6:
                q = (q[0] + rng.choice([-1, 0, 1]) * 1e-17, q[1] + rng.choice([-1, 0, 1]) * 1e-17)
                if abs(pts[-1][0] - q[0]) + abs(pts[-1][1] - q[1]) >= 1e-16:
                    q = pts[-1]
            pts.append(q)
        return pts

    def random_case(self, rng, stream):
        kind = rng.choices(["seg", "poly", "polyxy", "map", "proj", "mapt", "seq", "mapf"], weights=[30, 40, 4, 20, 8, 10, 8, 10])[0]
        r = rng.random()
        n = 2 if kind == "seg" else (rng.randint(300, 1200) if r < 0.0008 else rng.randint(31, 120) if r < 0.0125 else rng.randint(6, 30) if r < 0.125 else rng.randint(2, 5))
        pts = self.rand_points(rng, stream, n)
        if kind != "seg" and rng.random() < 0.04:
            pts = self.rand_point_polyline(rng, stream, min(n, rng.choice([2, 2, 3, 5, 9])))      # every segment skipped: the polyline is a point
            n = len(pts)
        X, Y = [p[0] for p in pts], [p[1] for p in pts]
        if kind in ("seg", "poly", "polyxy"):
            conts = ["list", "tuple", "npf"] + (["npi", "int"] if stream == "lattice" else [])
            cont = rng.choices(conts, weights=[4, 1, 3, 1, 1][:len(conts)])[0]
            q = self.rand_query(rng, stream, pts)
            if cont in INT_CONT and not all(float(v).is_integer() for v in X + Y):
                cont = "npf"        # half-integer vertices (collinear steps): not representable in an integer container
            qform = rng.choices(["float", "np", "int"], weights=[6, 2, 1])[0]
            if qform == "int" and not all(float(v).is_integer() for v in q):
                qform = "float"
            if kind == "seg":
                return {"kind": "seg", "stream": stream, "cont": cont, "qform": qform, "s": [X[0], Y[0], X[1], Y[1]], "q": q}
            if kind == "polyxy":
                if rng.random() < 0.5:
                    Y = Y + [self.rand_xy(rng, stream)[1] for _ in range(rng.randint(1, 2))]
                else:
                    Y = Y[:rng.randint(0, len(Y) - 1)]
            return {"kind": kind, "stream": stream, "cont": cont, "qform": qform, "X": X, "Y": Y, "q": q}
        coords = rng.choices(["ENU", "GEO", "ECEF"], weights=[1, 8, 0] if stream == "geo" else [6, 2, 1])[0]
        if kind == "seq":
            return self.random_seq(rng, stream, pts, coords)
        if kind == "mapf":
            return self.random_mapf(rng, stream, pts, coords)
        nq = rng.randint(1, 4) if kind == "mapt" else 1
        alt, Z, QZ = self.rand_alt(rng, n, nq)
        base = {"kind": kind, "stream": stream, "coords": coords, "alt": alt, "X": X, "Y": Y, "Z": Z}
        if kind == "mapt":
            return dict(base, Q=[self.rand_query(rng, stream, pts) for _ in range(nq)], QZ=QZ)
        return dict(base, q=self.rand_query(rng, stream, pts), qz=QZ[0])

    HUGE = [1e308, -1e308]

    def nonfinite_case(self, rng):
        """proj_polyligne where every distance the loop meets overflows: an infinite / NaN query coordinate ("inf", "-inf",
        "nan"), a huge one (1e200, 1e308, the largest double), or vertices at +-1e308 (finite: the polyline is a polyline).
        Only candidates that are out_of_range (decided exactly on the input) are kept; the vertices are always finite."""
        for _ in range(60):
            how = rng.choice(["qinf", "qinf", "qhuge", "vhuge"])
            n = rng.randint(2, 5)
            if how == "vhuge":
                V = self.HUGE + [0.0, 1.0, 2.0]
                pts = [(rng.choice(V), rng.choice(V)) for _ in range(n)]
                Q = self.HUGE + [0.0, 3.0, -1.0]
                q = [rng.choice(Q), rng.choice(Q)]
            else:
                pts = self.rand_points(rng, "lattice", n)
                q = list(self.rand_query(rng, "lattice", pts))
                B = list(NONFINITE) if how == "qinf" else self.HUGE + [1e200, -1e200, 1.7976931348623157e308, -1.7976931348623157e308]
                which = rng.choice([(0,), (1,), (0, 1)])
                for j in which:
                    q[j] = rng.choice(B)
            if how != "vhuge" and rng.random() < 0.2:
                pts = [pts[0]] * n                       # a point-like polyline: the lines after the loop alone produce the answer
            X, Y = [p[0] for p in pts], [p[1] for p in pts]
            if out_of_range(X, Y, q):
                break
        else:
            X, Y, q = [0.0, 1.0, 2.0], [0.0, 1.0, 0.0], ["inf", 0.0]
        kind = rng.choice(["poly", "poly", "poly", "polyxy"])
        if kind == "polyxy":
            if rng.random() < 0.5:
                Y = Y + [float(rng.randint(-3, 8)) for _ in range(rng.randint(1, 2))]
            else:
                Y = Y[:rng.randint(0, len(Y) - 1)]
        return {"kind": kind, "stream": "nonfinite", "cont": rng.choice(["list", "list", "tuple", "npf"]),
                "qform": rng.choice(["float", "float", "np"]), "X": X, "Y": Y, "q": q}

    def random_mapf(self, rng, stream, pts, coords):
        """mapOnTrack(track_of_queries, track) on track objects that carry STATE: the track of queries has analytical features
        of its own ("feats": [[name, values]], names drawn from FEAT_NAMES — "dist" / "edge" included, the names mapOnTrack
        writes), time stamps ("times"), the reference tracks have features too ("rfeats"); "more": further reference
        polylines — the OUTPUT track of call k is the track of queries of call k + 1 (chained snapping: it carries the dist /
        edge of call k); "alias": the track of queries of the first call IS the reference track object."""
        n = len(pts)
        nq = 0 if rng.random() < 0.01 else rng.randint(1, 5)
        alt, Z, QZ = self.rand_alt(rng, n, max(nq, 1))
        QZ = QZ[:nq]
        Q = [self.rand_query(rng, stream, pts) for _ in range(nq)]
        alias = rng.random() < 0.05
        if alias:
            Q, QZ, nq = [[p[0], p[1]] for p in pts], list(Z), n
        more = []
        for _ in range(rng.choices([0, 1, 2], weights=[5, 4, 1])[0]):
            how = rng.choice(["same", "shift", "other", "other"])
            if how == "same":
                P2 = list(pts)
            elif how == "shift":
                tx, ty = self.rand_offset(rng, stream)
                P2 = [(p[0] + tx, p[1] + ty) for p in pts]
            else:
                P2 = self.rand_points(rng, stream, rng.randint(2, 5))
            Z2 = [0.0] * len(P2) if rng.random() < 0.5 else [rng.choice(self.ALTS) for _ in P2]
            more.append({"X": [p[0] for p in P2], "Y": [p[1] for p in P2], "Z": Z2})
        names = rng.sample(FEAT_NAMES[2:], rng.choice([0, 0, 1, 2]))
        r = rng.random()
        if r < 0.5:
            names += rng.choice([["dist"], ["edge"], ["dist", "edge"], ["edge", "dist"]])
        rng.shuffle(names)
        feats = [[nm, [rng.choice(FEAT_VALUES) for _ in range(nq)]] for nm in names] if nq else []
        times = None
        if rng.random() < 0.5:
            t0 = float(rng.choice([0, 1000, 86400 * 365, 1600000000]))
            times = [t0 + 5.0 * j + rng.choice([0.0, 0.5]) for j in range(nq)]
        rfeats = rng.sample(FEAT_NAMES, rng.choice([0, 0, 1, 2]))
        return {"kind": "mapf", "stream": stream, "coords": coords, "alt": alt, "X": [p[0] for p in pts], "Y": [p[1] for p in pts], "Z": Z,
                "more": more, "Q": Q, "QZ": QZ, "feats": feats, "times": times, "rfeats": rfeats, "alias": alias}

    def random_seq(self, rng, stream, pts, coords):
        """operations on ONE track object: ["q", x, y, z] project a coordinate; ["qt", [[x, y, z], ..]] project a track of
        queries; ["set", i, x, y, z] move vertex i in place; ["shift", tx, ty] shift every vertex in place;
        ["app", x, y, z] append a vertex; ["new"] replace the object by a fresh one with the same geometry"""
        pts = list(pts)
        alt, Z, _ = self.rand_alt(rng, len(pts), 1)
        case = {"kind": "seq", "stream": stream, "coords": coords, "alt": alt,
                "X": [p[0] for p in pts], "Y": [p[1] for p in pts], "Z": list(Z), "ops": []}
        alts = sorted({v for v in Z if v is not None} | {0.0})

        asked = []

        def query():
            # one query in four is one that was already projected earlier in the sequence (same coordinates, the track having
            # possibly changed in between): an answer remembered per query would be stale
            if asked and rng.random() < 0.25:
                return list(rng.choice(asked))
            q = self.rand_query(rng, stream, pts)
            asked.append([q[0], q[1], rng.choice(alts + ([None] if alt == "nan" else []))])
            return list(asked[-1])
        ops = case["ops"]
        ops.append(["q"] + query())
        for _ in range(rng.randint(1, 5)):
            o = rng.choices(["q", "qt", "set", "shift", "app", "new"], weights=[5, 1, 3, 3, 1, 1])[0]
            if o == "q":
                ops.append(["q"] + query())
            elif o == "qt":
                ops.append(["qt", [query() for _ in range(rng.randint(1, 3))]])
            elif o == "set":
                i = rng.randrange(len(pts))
                nv = self.step(rng, stream, pts[:i] if i > 0 else [pts[0]])
                pts[i] = nv
                ops.append(["set", i, nv[0], nv[1], rng.choice(alts)])
            elif o == "shift":
                tx, ty = self.rand_offset(rng, stream)
                pts = [(p[0] + tx, p[1] + ty) for p in pts]
                ops.append(["shift", tx, ty])
            elif o == "app":
                nv = self.step(rng, stream, pts)
                pts.append(nv)
                ops.append(["app", nv[0], nv[1], rng.choice(alts)])
            else:
                ops.append(["new"])
        ops.append(["q"] + query())
        return case

    # ------------------------------------------------------------------ geometry of a case
    def seq_steps(self, case):
        """[(X, Y, Z, [x, y, z])]: for every query of a "seq" case, in order, the geometry of the track at that
        moment — computed here from the operations, independently of the track object"""
        X, Y, Z = list(case["X"]), list(case["Y"]), list(case["Z"])
        out = []
        for op in case["ops"]:
            if op[0] == "q":
                out.append((list(X), list(Y), list(Z), list(op[1:4])))
            elif op[0] == "qt":
                for q in op[1]:
                    out.append((list(X), list(Y), list(Z), list(q)))
            elif op[0] == "set":
                X[op[1]], Y[op[1]], Z[op[1]] = op[2], op[3], op[4]
            elif op[0] == "shift":
                X = [v + op[1] for v in X]
                Y = [v + op[2] for v in Y]
            elif op[0] == "app":
                X.append(op[1]); Y.append(op[2]); Z.append(op[3])
        return out

    def poly_of(self, case):
        if case["kind"] == "seg":
            s = case["s"]
            return [s[0], s[2]], [s[1], s[3]]
        n = min(len(case["X"]), len(case["Y"]))      # extra ordinates are ignored (polyxy)
        return case["X"][:n], case["Y"][:n]

    def queries_of(self, case):
        """[(X, Y, [qx, qy], flat?)] — one entry per projected query, with the polyline it is projected on"""
        k = case["kind"]
        if k == "seq":
            return [(X, Y, q[:2], flat(Z) and flat([q[2]])) for (X, Y, Z, q) in self.seq_steps(case)]
        X, Y = self.poly_of(case)
        if k == "mapf":     # the queries of the FIRST call only (those of the later calls are outputs: see spec_mapf)
            return [(X, Y, q[:2], flat(case["Z"]) and flat([q[2]])) for q in self.mapf_queries0(case)]
        if k == "mapt":
            QZ = case.get("QZ", [0.0] * len(case["Q"]))
            return [(X, Y, q, flat(case.get("Z", [0.0])) and flat([QZ[j]])) for j, q in enumerate(case["Q"])]
        return [(X, Y, case["q"], flat(case.get("Z", [0.0])) and flat([case.get("qz", 0.0)]))]

    def describe(self, case):
        X, Y = self.poly_of(case)
        segs = segments(X, Y)
        t = {"kind": case["kind"], "stream": case.get("stream", "enum"), "vertices": len(X) if len(X) <= 5 else "6-30" if len(X) <= 30 else "31-120" if len(X) <= 120 else "300-1200"}
        t["orient"] = "".join(sorted({("z" if degenerate(s) else "v" if s[0] == s[2] else "h" if s[1] == s[3] else "o") for s in segs}))
        if case["kind"] in ("seg", "poly", "polyxy"):
            t["container"] = case.get("cont", "list")
            t["query"] = case.get("qform", "float")
        else:
            t["coords"] = case.get("coords", "ENU")
            t["altitudes"] = case.get("alt", "flat")
        if case["kind"] == "mapf":
            nm = [f[0] for f in case.get("feats", [])]
            t["calls"] = 1 + len(case.get("more", []))
            t["query_features"] = "none" if not nm else "dist/edge" if ("dist" in nm or "edge" in nm) else "other"
            t["query_track"] = ("alias" if case.get("alias") else "empty" if not case["Q"] else "timed" if case.get("times") else "untimed")
        return t

    def nontrivial(self, case):
        return self.in_domain(case)

    # ------------------------------------------------------------------ implementation
    def container(self, L, cont):
        if cont in INT_CONT and not all(float(v).is_integer() for v in L):
            cont = "npf" if cont == "npi" else "list"       # not representable as integers: same argument form, floats
        if cont == "tuple":
            return tuple(L)
        if cont == "npf":
            return self.np.array(L, dtype=float)
        if cont == "npi":
            return self.np.array([int(v) for v in L], dtype=self.np.int64)
        if cont == "int":
            return [int(v) for v in L]
        return list(L)

    def track(self, X, Y, Z=None, coords="ENU", times=None):
        """A Track. Every Track object made here stays referenced until the end of the process (emptied once its case is
        over): CPython then never gives a later track the `id` of an earlier one, so that what a case observes depends on
        that case alone (state keyed by object identity is exercised by the "seq" cases, deterministically)."""
        C = self.C[coords]
        Z = [0.0] * len(X) if Z is None else Z
        if times is None:
            T = plumb(lambda: self.Track([self.Obs(C(x, y, zf(z))) for x, y, z in zip(X, Y, Z)]))
        else:
            T = plumb(lambda: self.Track([self.Obs(C(x, y, zf(z)), self.ObsTime.readUnixTime(t)) for x, y, z, t in zip(X, Y, Z, times)]))
        self._live.append(T)
        return T

    def release(self):
        for T in self._live:
            T.setObsList([])
        self._pinned += self._live
        self._live = []

    def row(self, c, d, i):
        return [float(d), float(c.getX()), float(c.getY()), int(i), float(c.getZ())]

    def impl(self, case):
        try:
            return self.impl_(case)
        except Plumbing as e:
            return {"plumbing": str(e)}
        except Exception as e:
            if case["kind"] == "mapf":      # impl_mapf catches what the calls raise: anything else comes from the harness
                return {"plumbing": "%s: %s" % (type(e).__name__, str(e)[:160])}
            raise

    def impl_(self, case):
        self.release()
        k = case["kind"]
        cont = case.get("cont", "list")
        if k in ("seg", "poly", "polyxy"):
            qf = case.get("qform", "float")      # the query as Python floats, numpy scalars or Python ints
            qx, qy = [(self.np.float64(v) if qf == "np" else int(v) if (qf == "int" and float(v).is_integer()) else float(v)) for v in case["q"]]
        if k == "seg":
            d, xp, yp = self.g.proj_segment(self.container(case["s"], cont), qx, qy)
            return {"d": float(d), "p": [float(xp), float(yp)]}
        if k in ("poly", "polyxy"):
            d, xp, yp, i = self.g.proj_polyligne(self.container(case["X"], cont), self.container(case["Y"], cont), qx, qy)
            return {"d": float(d), "p": [float(xp), float(yp)], "i": int(i)}
        coords = case.get("coords", "ENU")
        C = self.C[coords]
        if k in ("map", "proj"):
            T = self.track(case["X"], case["Y"], case.get("Z"), coords)
            pt = plumb(C, case["q"][0], case["q"][1], zf(case.get("qz", 0.0)))
            c, d, i = self.projOnTrack(pt, T) if k == "proj" else self.m.mapOnTrack(pt, T)
            r = self.row(c, d, i)
            return {"d": r[0], "p": [r[1], r[2]], "i": r[3], "z": r[4]}
        if k == "mapt":
            QZ = case.get("QZ", [0.0] * len(case["Q"]))
            qt = self.track([q[0] for q in case["Q"]], [q[1] for q in case["Q"]], QZ, coords)
            o = self.m.mapOnTrack(qt, self.track(case["X"], case["Y"], case.get("Z"), coords))
            return {"rows": self.rows_of_track(o), "n": o.size(), "features": sorted(o.getListAnalyticalFeatures())}
        if k == "mapf":
            return self.impl_mapf(case, coords)
        if k == "seq":
            T = self.track(case["X"], case["Y"], case["Z"], coords)
            rows = []
            for op in case["ops"]:
                if op[0] == "q":
                    rows.append(self.row(*self.m.mapOnTrack(plumb(C, op[1], op[2], zf(op[3])), T)))
                elif op[0] == "qt":
                    qt = self.track([q[0] for q in op[1]], [q[1] for q in op[1]], [q[2] for q in op[1]], coords)
                    rows += self.rows_of_track(self.m.mapOnTrack(qt, T))
                elif op[0] == "set":
                    def set_(T=T, op=op):
                        pos = T.getObs(op[1]).position
                        pos.setX(op[2]); pos.setY(op[3]); pos.setZ(zf(op[4]))
                    plumb(set_)
                elif op[0] == "shift":
                    def shift_(T=T, op=op):
                        for j in range(T.size()):
                            pos = T.getObs(j).position
                            pos.setX(pos.getX() + op[1]); pos.setY(pos.getY() + op[2])
                    plumb(shift_)
                elif op[0] == "app":
                    plumb(lambda: T.addObs(self.Obs(C(op[1], op[2], zf(op[3])))))
                elif op[0] == "new":
                    T = self.track(*plumb(lambda: (T.getX(), T.getY(), T.getZ())), coords)
                else:
                    raise ValueError(op[0])
            return {"rows": rows, "n": len(rows)}
        raise ValueError(k)

    # -- mapOnTrack(track, track) on track objects that carry features / time stamps, chained (kind "mapf")
    def mapf_refs(self, case):
        return [(case["X"], case["Y"], case["Z"])] + [(r["X"], r["Y"], r["Z"]) for r in case.get("more", [])]

    def mapf_queries0(self, case):
        """[[x, y, z]]: the track of queries of the first call"""
        if case.get("alias"):
            return [[x, y, z] for x, y, z in zip(case["X"], case["Y"], case["Z"])]
        return [[q[0], q[1], z] for q, z in zip(case["Q"], case["QZ"])]

    def read_positions(self, T):
        return [[float(T.getX(j)), float(T.getY(j)), float(T.getZ(j))] for j in range(T.size())]

    def impl_mapf(self, case, coords):
        """{"calls": [one per completed call: {"Q": the positions of the track of queries as read just before the call,
        "rows", "n", "features", "t"}], and, when a call raised, "err" + "Q" (the queries of that call)}"""
        refs = [self.track(X, Y, Z, coords) for (X, Y, Z) in self.mapf_refs(case)]

        def feat(T, name, vals):
            if T.size() > 0:
                T.createAnalyticalFeature(name, list(vals))
                if list(T.getAnalyticalFeature(name)) != list(vals):
                    raise ValueError("feature %s was not stored" % name)
        for T in refs:
            for name in case.get("rfeats", []):
                plumb(feat, T, name, [float(j) for j in range(T.size())])
        if case.get("alias"):
            cur = refs[0]
        else:
            Q0 = self.mapf_queries0(case)
            cur = self.track([q[0] for q in Q0], [q[1] for q in Q0], [q[2] for q in Q0], coords, case.get("times"))
        for name, vals in case.get("feats", []):
            if not (case.get("alias") and name in case.get("rfeats", [])):
                plumb(feat, cur, name, vals)
        calls = []
        for R in refs:
            Q = plumb(self.read_positions, cur)
            try:
                o = self.m.mapOnTrack(cur, R)
                call = {"Q": Q, "rows": self.rows_of_track(o), "n": o.size(), "features": sorted(o.getListAnalyticalFeatures())}
            except BaseException as e:
                if isinstance(e, KeyboardInterrupt):
                    raise
                return {"calls": calls, "err": err_kind(e), "detail": str(e)[:200], "Q": Q}
            try:
                call["t"] = [float(o.getObs(j).timestamp.toAbsTime()) for j in range(o.size())]
            except Exception:
                call["t"] = None
            calls.append(call)
            cur = o
        return {"calls": calls}

    def rows_of_track(self, o):
        D, Ed = o.getAnalyticalFeature("dist"), o.getAnalyticalFeature("edge")
        return [[float(D[j]), float(o.getX(j)), float(o.getY(j)), int(Ed[j]), float(o.getZ(j))] for j in range(o.size())]

    # ------------------------------------------------------------------ model
    def requests(self, case):
        k = case["kind"]
        fl = lambda L: tok_list(fbits(zf(v)) for v in L)
        cont = case.get("cont", "list")
        np_ = "1" if cont in NP_CONT else "0"
        if k == "seg":
            if cont == "list":
                return ["C20.seg " + " ".join(fbits(v) for v in list(case["s"]) + list(case["q"]))]
            return ["C20.segg " + np_ + " " + " ".join(fbits(v) for v in list(case["s"]) + list(case["q"]))]
        # `(x - xproj) ** 2` after the loop: a numpy scalar (numpy container or numpy query) never raises, a Python float does on overflow
        npq = "1" if (cont in NP_CONT or case.get("qform", "float") == "np") else "0"
        if k == "poly" and cont == "list" and npq == "0":
            return ["C20.poly %s %s %s %s" % (fl(case["X"]), fl(case["Y"]), fbits(case["q"][0]), fbits(case["q"][1]))]
        if k in ("poly", "polyxy"):
            return ["C20.polyxy %s %s %s %s %s %s" % (np_, npq, fl(case["X"]), fl(case["Y"]), fbits(case["q"][0]), fbits(case["q"][1]))]
        if k in ("map", "proj"):
            if "Z" not in case:
                return ["C20.map %s %s %s %s" % (fl(case["X"]), fl(case["Y"]), fbits(case["q"][0]), fbits(case["q"][1]))]
            return ["C20.map3 %s %s %s %s %s %s" % (fl(case["X"]), fl(case["Y"]), fl(case["Z"]), fbits(case["q"][0]), fbits(case["q"][1]),
                                                    fbits(zf(case.get("qz", 0.0))))]
        if k == "mapt":
            Q = case["Q"]
            if "Z" not in case:
                return ["C20.mapt %s %s %s %s" % (fl(case["X"]), fl(case["Y"]), fl([q[0] for q in Q]), fl([q[1] for q in Q]))]
            return ["C20.mapt3 %s %s %s %s %s %s" % (fl(case["X"]), fl(case["Y"]), fl(case["Z"]), fl([q[0] for q in Q]), fl([q[1] for q in Q]),
                                                     fl(case.get("QZ", [0.0] * len(Q))))]
        if k == "seq":
            return ["C20.map3 %s %s %s %s %s %s" % (fl(X), fl(Y), fl(Z), fbits(q[0]), fbits(q[1]), fbits(zf(q[2])))
                    for (X, Y, Z, q) in self.seq_steps(case)]
        if k == "mapf":
            Q0 = self.mapf_queries0(case)
            feats = list(case.get("feats", []))
            if case.get("alias"):       # the track of queries is the reference track: it carries the reference's features too
                rf = [nm for nm in case.get("rfeats", [])]
                feats = [[nm, [float(j) for j in range(len(Q0))]] for nm in rf] + [f for f in feats if f[0] not in rf]
            if not Q0:
                feats = []
            names = ",".join(f[0] for f in feats) or "_"
            cols = ";".join(fl(f[1]) for f in feats) or "_"
            times = case.get("times") if (case.get("times") is not None and not case.get("alias")) else [0.0] * len(Q0)
            refs = "|".join("%s;%s;%s" % (fl(X), fl(Y), fl(Z)) for (X, Y, Z) in self.mapf_refs(case))
            return ["C20.mapf %s %s %s %s %s %s %s" % (names, cols, fl([q[0] for q in Q0]), fl([q[1] for q in Q0]), fl([q[2] for q in Q0]),
                                                       fl(times), refs)]

    ERR = {"zerodiv": "err:zerodiv", "index": "err:index", "overflow": "err:OverflowError", "af": "err:AnalyticalFeatureError"}

    def decode_mapf(self, case, replies):
        r = replies[0].split()
        if r[0] == "ok":
            out, toks = {}, r[1:]
        elif r[0] == "err" and len(r) >= 2:
            out, toks = {"err": self.ERR[r[1]]}, r[2:]
        else:
            raise ValueError(replies[0])
        calls = []
        for tok in toks:
            names, ts, rows = tok.split("/")
            rr = []
            for item in ([] if rows == "_" else rows.split(";")):
                f = item.split(",")
                e = bitsf(f[4])
                if not float(e).is_integer():
                    raise ValueError(tok)
                rr.append([bitsf(f[3]), bitsf(f[0]), bitsf(f[1]), int(e), bitsf(f[2])])
            calls.append({"rows": rr, "n": len(rr), "features": sorted([] if names == "_" else names.split(",")),
                          "t": [] if ts == "_" else [bitsf(v) for v in ts.split(",")]})
        out["calls"] = calls
        return out

    def decode(self, case, replies):
        k = case["kind"]
        if k == "mapf":
            return self.decode_mapf(case, replies)
        if k == "seq":
            rows = []
            for rep in replies:         # the first exception aborts the sequence
                r = rep.split()
                if r[0] == "err":
                    return {"err": self.ERR[r[1]]}
                if r[0] != "ok":
                    raise ValueError(rep)
                rows.append([bitsf(r[4]), bitsf(r[1]), bitsf(r[2]), int(r[5]), bitsf(r[3])])
            return {"rows": rows, "n": len(rows)}
        r = replies[0].split()
        if r[0] == "err":
            return {"err": self.ERR[r[1]]}
        if r[0] != "ok":
            raise ValueError(replies[0])
        if k == "seg":
            return {"d": bitsf(r[1]), "p": [bitsf(r[2]), bitsf(r[3])]}
        if k in ("poly", "polyxy"):
            return {"d": bitsf(r[1]), "p": [bitsf(r[2]), bitsf(r[3])], "i": int(r[4])}
        if k in ("map", "proj"):
            if "Z" not in case:
                return {"d": bitsf(r[3]), "p": [bitsf(r[1]), bitsf(r[2])], "i": int(r[4]), "z": 0.0}
            return {"d": bitsf(r[4]), "p": [bitsf(r[1]), bitsf(r[2])], "i": int(r[5]), "z": bitsf(r[3])}
        rows = []
        for item in ([] if len(r) < 2 or r[1] == "_" else r[1].split(";")):
            f = item.split(",")
            if "Z" not in case:
                rows.append([bitsf(f[2]), bitsf(f[0]), bitsf(f[1]), int(f[3]), 0.0])
            else:
                rows.append([bitsf(f[3]), bitsf(f[0]), bitsf(f[1]), int(f[4]), bitsf(f[2])])
        return {"rows": rows, "n": len(rows), "features": ["dist", "edge"]}

    def compare_mapf(self, case, a, m):
        """calls compared one by one; where the property leaves freedom (a tie) the implementation's answer is validated, and
        so are the calls after it (their queries are then no longer those of the model)"""
        strip = lambda o: dict({k: v for k, v in o.items() if k not in ("detail", "Q", "calls")},
                               calls=[{k: v for k, v in c.items() if k != "Q"} for c in o.get("calls", [])])
        if "calls" not in a or "calls" not in m:
            return "impl=%s model=%s" % (a, m)
        sa, sm = strip(a), strip(m)
        if close(sa, sm, self.rel_tol):
            return None
        bad = "impl=%s model=%s" % (sa, sm)
        refs = self.mapf_refs(case)
        diverged = False
        for k, ca in enumerate(a["calls"]):
            if k >= len(refs):
                return bad
            X, Y, _ = refs[k]
            cm = m["calls"][k] if k < len(m["calls"]) else None
            if not diverged:
                if cm is None or {kk: v for kk, v in ca.items() if kk not in ("rows", "Q")} != {kk: v for kk, v in cm.items() if kk != "rows"}:
                    return bad
                if len(ca["rows"]) != len(cm["rows"]) or len(ca["Q"]) != len(ca["rows"]):
                    return bad
            for j, ra in enumerate(ca["rows"]):
                if not diverged and close(ra, cm["rows"][j], self.rel_tol):
                    continue
                if j >= len(ca["Q"]) or self.classify_one(X, Y, ca["Q"][j][:2], tuple(ra[:4])) is None:
                    return bad
                if not diverged:
                    rm = cm["rows"][j]
                    if self.classify_one(X, Y, ca["Q"][j][:2], tuple(rm[:4])) is None or not close([ra[0], ra[4]], [rm[0], rm[4]], self.rel_tol):
                        return bad
                    if not close(ra[1:3], rm[1:3], self.rel_tol):
                        diverged = True      # another, equally near point: the next call projects other queries than the model's
        if diverged:
            return bad if ("err" in a and self.mapf_err_class(case, a) is None) else None
        if len(a["calls"]) != len(m["calls"]) or a.get("err") != m.get("err"):
            return bad
        return None

    def compare(self, case, impl_out, model_out):
        a = {k: v for k, v in impl_out.items() if k != "detail"}
        if "plumbing" in a:
            return "the harness could not build the inputs of the call (%s); model=%s" % (a["plumbing"], model_out)
        if case["kind"] == "mapf":
            return self.compare_mapf(case, a, model_out)
        if close(a, model_out, self.rel_tol):
            return None
        # freedom left by the property: a tie (same distance reached on two segments / at two points). The two
        # answers must then have the same distance and each must stand w.r.t. the oracle (right, or an instance of a
        # listed defect class: with `d` equal, which of two tied segments is reported decides whether the listed defect
        # of one of them shows); everything else (the third coordinate included) must be equal.
        if "err" not in a and "err" not in model_out:
            ra, rm = self.rows_of(case, a), self.rows_of(case, model_out)
            rest_a = {k: v for k, v in a.items() if k not in ("rows", "d", "p", "i")}
            rest_m = {k: v for k, v in model_out.items() if k not in ("rows", "d", "p", "i")}
            if len(ra) == len(rm) and rest_a == rest_m:
                ok = True
                for (X, Y, q, _, d1, x1, y1, i1, z1), (_, _, _, _, d2, x2, y2, i2, z2) in zip(ra, rm):
                    if close([d1, x1, y1, i1, z1], [d2, x2, y2, i2, z2], self.rel_tol):
                        continue
                    v1 = self.classify_one(X, Y, q, (d1, x1, y1, i1))
                    v2 = self.classify_one(X, Y, q, (d2, x2, y2, i2))
                    if not (close([d1, z1], [d2, z2], self.rel_tol) and v1 is not None and v2 is not None):
                        ok = False
                if ok:
                    return None
        return "impl=%s model=%s" % (a, model_out)

    # ------------------------------------------------------------------ oracle
    def rows_of(self, case, out):
        """[(X, Y, query, flat?, d, xp, yp, i, z)] of a non-error output (z = None when the entry point returns no third coordinate)"""
        qs = self.queries_of(case)
        if "rows" in out:
            return [qs[j] + (r[0], r[1], r[2], r[3], r[4] if len(r) > 4 else None) for j, r in enumerate(out["rows"][:len(qs)])]
        return [qs[0] + (out["d"], out["p"][0], out["p"][1], out.get("i", 0), out.get("z"))]

    def out_of_range(self, case):
        """a query of the case has no nearest point at a distance a double can hold (see out_of_range above)"""
        if case["kind"] == "polyxy" and len(case["Y"]) < len(case["X"]):
            return False
        return any(out_of_range(X, Y, q) for (X, Y, q, _) in self.queries_of(case))

    def in_domain(self, case):
        if case["kind"] == "mapf":
            Q0 = self.mapf_queries0(case)
            return not self.mapf_unconstrained(case["X"], case["Y"], Q0)
        if case["kind"] == "polyxy" and len(case["Y"]) < len(case["X"]):
            return False        # a Yp shorter than Xp is not a polyline
        if self.out_of_range(case):
            return False        # every distance is outside the double range: no nearest point to return
        if case["kind"] == "seg":
            return not degenerate(segments(*self.poly_of(case))[0])
        # a polyline of >= 2 vertices all of whose segments are shorter than 1e-16 (the threshold under which proj_polyligne
        # skips a segment as zero-length) is a polyline with zero-length segments: in the domain (its nearest point is the
        # point it is). A single vertex is not a polyline.
        return all(len(X) >= 2 for (X, Y, _, _) in self.queries_of(case))

    # -- the oracle on chained calls on track objects: every call is judged on the queries it was GIVEN (read from the track
    #    of queries just before the call) and on the reference polyline of that call
    @staticmethod
    def live_polyline(X, Y):
        return any(abs(float(X[j]) - float(X[j + 1])) + abs(float(Y[j]) - float(Y[j + 1])) >= 1e-16 for j in range(len(X) - 1))

    def mapf_unconstrained(self, X, Y, Q):
        """the property says nothing about this call: no query, a reference with fewer than two positions, or distances outside the double range"""
        return (not Q) or len(X) < 2 or any(out_of_range(X, Y, q[:2]) for q in Q)

    def mapf_err_class(self, case, out):
        """class of the exception that stopped the chain: "outside" (the property does not constrain that call), the listed
        class "vertical-segment" (ZeroDivisionError of D16), or None"""
        refs = self.mapf_refs(case)
        k = len(out.get("calls", []))
        Q = out.get("Q")
        if k >= len(refs) or Q is None:
            return None
        X, Y, _ = refs[k]
        if self.mapf_unconstrained(X, Y, Q):
            return "outside"
        if out["err"] == "err:zerodiv" and any(self.zerodiv_vertical(X, Y, q[:2]) for q in Q):
            return "vertical-segment"
        if self.kept_vertical(X, Y) and out["err"] != "err:AnalyticalFeatureError":
            return "vertical-segment"      # the case, not the pattern (see classify); the feature-table error is not raised by a projection
        return None

    def mapf_rows(self, case, out):
        """[(call number, X, Y, query [x, y], flat?, row)] for every row of every completed call"""
        refs = self.mapf_refs(case)
        res = []
        for k, call in enumerate(out.get("calls", [])[:len(refs)]):
            X, Y, Z = refs[k]
            for q, r in zip(call["Q"], call["rows"]):
                res.append((k, X, Y, q[:2], flat(Z) and flat([None if q[2] != q[2] else q[2]]), r))
        return res

    def spec_mapf(self, case, out):
        refs = self.mapf_refs(case)
        calls = out.get("calls", [])
        first = None
        for k, call in enumerate(calls[:len(refs)]):
            X, Y, Z = refs[k]
            Q = call["Q"]
            if self.mapf_unconstrained(X, Y, Q):
                return first      # nothing stated about this call, nor about what is chained on its output
            if call["n"] != len(Q) or len(call["rows"]) != len(Q):
                return "call %d: mapOnTrack returned %d observations for %d queries" % (k, call["n"], len(Q))
            if "dist" not in call["features"] or "edge" not in call["features"]:
                return "call %d: mapOnTrack output carries the features %s (no dist / edge to read the distance and the segment from)" % (k, call["features"])
        for (k, X, Y, q, isflat, r) in self.mapf_rows(case, out):
            if self.mapf_unconstrained(X, Y, calls[k]["Q"]):
                break
            d, xp, yp, i, z = r
            if isflat and z != 0.0:
                return "call %d, query %s: mapOnTrack returned a point with z = %r on a flat track" % (k, q, z)
            w = check_answer(X, Y, q, d, xp, yp, i)
            if w:
                msg = "call %d (mapOnTrack(track, track), track of queries %s), query %s: %s" % (
                    k, "= output of call %d" % (k - 1) if k else "with the features %s" % [f[0] for f in case.get("feats", [])], q, w)
                if self.classify_one(X, Y, q, (d, xp, yp, i)) is None:
                    return msg
                first = first or msg
        if "err" in out:
            if self.mapf_err_class(case, out) == "outside":
                return first
            return first or "call %d raised %s" % (len(calls), out["err"])
        return first

    def classify_mapf(self, case, out, msg):
        refs = self.mapf_refs(case)
        calls = out.get("calls", [])
        classes = []
        for k, call in enumerate(calls[:len(refs)]):
            X, Y, Z = refs[k]
            if self.mapf_unconstrained(X, Y, call["Q"]):
                break
            if call["n"] != len(call["Q"]) or len(call["rows"]) != len(call["Q"]) or "dist" not in call["features"] or "edge" not in call["features"]:
                return None
            for q, r in zip(call["Q"], call["rows"]):
                if flat(Z) and flat([None if q[2] != q[2] else q[2]]) and r[4] != 0.0:
                    return None
                c = self.classify_one(X, Y, q[:2], tuple(r[:4]))
                if c is None:
                    return None
                if c != "ok":
                    classes.append(c)
        else:
            if "err" in out:
                c = self.mapf_err_class(case, out)
                if c is None:
                    return None
                if c != "outside":
                    classes.append(c)
        return classes[0] if classes else None

    def spec(self, case, out):
        """The projection is PLANIMETRIC (proj_segment / proj_polyligne take x, y only; mapOnTrack reads getX(), getY()):
        every clause — point on the carrying segment, distance to the returned point, minimum distance — is checked in
        the (X, Y) plane, whatever the altitudes of the track and of the query. The third coordinate of the returned
        point is constrained only when everything is flat (a point of a polyline at altitude 0 has altitude 0)."""
        if "plumbing" in out:
            return None         # the harness failed to build the inputs (see Plumbing): not an answer of the projection, nothing to judge
        if case["kind"] == "mapf":
            return self.spec_mapf(case, out)
        if self.out_of_range(case):
            return None         # all distances inf / NaN (non-finite or overflowing coordinates): nothing to constrain, whatever is returned or raised
        if not self.in_domain(case):
            if "err" in out or case["kind"] == "polyxy":
                return None     # proj_segment on a zero-length segment / single-vertex polyline / malformed sequences: outside the property's domain
        if "err" in out:
            return "raised %s" % out["err"]
        k = case["kind"]
        qs = self.queries_of(case)
        if k in ("mapt", "seq"):
            if out["n"] != len(qs) or len(out["rows"]) != len(qs):
                return "mapOnTrack returned %d observations for %d queries" % (out["n"], len(qs))
        if k == "mapt" and not ("dist" in out["features"] and "edge" in out["features"]):
            return "mapOnTrack output carries the features %s (no dist / edge to read the distance and the segment from)" % out["features"]
        first = None
        for (X, Y, q, isflat, d, xp, yp, i, z) in self.rows_of(case, out):
            if z is not None and isflat and z != 0.0:
                return "query %s: mapOnTrack returned a point with z = %r on a flat track" % (q, z)
            w = check_answer(X, Y, q, d, xp, yp, i)
            if w:
                # several queries may fail: report first one that is not an instance of a listed defect
                if self.classify_one(X, Y, q, (d, xp, yp, i)) is None:
                    return "query %s: %s" % (q, w)
                first = first or "query %s: %s" % (q, w)
        return first

    # ------------------------------------------------------------------ known findings
    def classify_one(self, X, Y, q, row):
        """class of a single failing query: `row` is None for an exception, else (d, xp, yp, i)"""
        segs = segments(X, Y)
        live = [j for j, s in enumerate(segs) if not (abs(float(X[j]) - float(X[j + 1])) + abs(float(Y[j]) - float(Y[j + 1])) < 1e-16)]
        vert = [j for j in live if is_vertical(segs[j])]
        hfp = [j for j in live if is_horizontal_fp(X, Y, j) or is_near_horizontal_fp(X, Y, j) or is_inclusion_fp(X, Y, j, q)]
        if row is None:
            return None
        d, xp, yp, i = row
        if check_answer(X, Y, q, d, xp, yp, i) is None:
            return "ok"
        if any(isinstance(v, float) and (v != v or math.isinf(v)) for v in (d, xp, yp)):
            # numpy form of D16: `-c / b` with b == 0 yields inf / nan instead of raising
            if self.zerodiv_vertical(X, Y, q):
                return "vertical-segment"
            ok_i = isinstance(i, int) and not isinstance(i, bool) and i in vert
            return "vertical-segment" if ok_i else None      # non-finite values built on a kept vertical segment (see vertical_case)
        if vert and check_answer(X, Y, q, d, xp, yp, i, reduced=vert) is None:
            return "vertical-segment"
        if hfp and check_answer(X, Y, q, d, xp, yp, i, reduced=hfp) is None:
            return "horizontal-segment-fp"
        if vert and hfp and check_answer(X, Y, q, d, xp, yp, i, reduced=vert + hfp) is None:
            return "vertical-segment"
        if len(hfp) > 1:
            # D17 is per segment: the inclusion test of each fp-horizontal segment fails or not on its own rounding. The
            # answer is explained iff it is right once exactly the fp-horizontal segments that are NEARER than the returned
            # distance are reduced to their end points (reducing fewer gives a smaller minimum, reducing more a larger one).
            tol_ = TOL * max(scale_of(X, Y, q), abs(d))
            qx, qy = fr(q[0]), fr(q[1])
            S = [j for j in hfp if math.sqrt(seg_d2(qx, qy, *segs[j])) < d - tol_]
            if S and len(S) < len(hfp):
                if check_answer(X, Y, q, d, xp, yp, i, reduced=S) is None:
                    return "horizontal-segment-fp"
                if vert and check_answer(X, Y, q, d, xp, yp, i, reduced=vert + S) is None:
                    return "vertical-segment"
        tol = TOL * max(scale_of(X, Y, q), abs(d))
        frag = [j for j in live if is_near_vertical_fp(X, Y, j, tol)]
        if frag and check_fragile(X, Y, q, d, xp, yp, i, frag, vert + hfp) is None:
            return "vertical-segment"      # numerically vertical: same flaw (the line is parametrised by its intercept (0, -c / b))
        return self.vertical_case(X, Y, q, row, live, vert, hfp, frag)

    def vertical_case(self, X, Y, q, row, live, vert, hfp, frag):
        """The listed finding `vertical-segment` as a CASE (geometry of the input), not as one failure pattern: on a kept,
        exactly vertical segment (b == 0) proj_segment is defective (projection_droite's special case returns (x, a): pinned by
        the test suite), so WHATEVER it answers there is that finding. A failing answer (d, p, i) of a query belongs to the
        class iff it is explained by proj_segment answering anything at all on the kept vertical segments and everything else
        being right:
          * i is a kept vertical segment (the answer is the one proj_segment built on it), or
          * i is not, and the answer is right once the kept vertical segments are left out of the minimum (point on segment
            i, d = |q - p|, d minimal over the other segments — fp-horizontal ones as in D17, numerically vertical ones as
            in the near-vertical finding): the defective calls reported something not smaller.
        An index that is not an integer in 0..n-2, or a failure that involves no vertical segment, is never in the class."""
        if not vert:
            return None
        d, xp, yp, i = row
        n = len(X)
        if isinstance(i, bool) or not isinstance(i, int) or not (0 <= i <= n - 2):
            return None
        if i in vert:
            return "vertical-segment"
        out = [j for j in range(n - 1) if j in vert or j not in live]
        if check_answer(X, Y, q, d, xp, yp, i, removed=out) is None:
            return "vertical-segment"
        if hfp and check_answer(X, Y, q, d, xp, yp, i, reduced=hfp, removed=out) is None:
            return "vertical-segment"
        if len(hfp) > 1 and all(isinstance(v, (int, float)) and finite(v) for v in (d, xp, yp)):
            tol_ = TOL * max(scale_of(X, Y, q), abs(d))
            qx, qy = fr(q[0]), fr(q[1])
            segs = segments(X, Y)
            S = [j for j in hfp if math.sqrt(seg_d2(qx, qy, *segs[j])) < d - tol_]
            if S and len(S) < len(hfp) and check_answer(X, Y, q, d, xp, yp, i, reduced=S, removed=out) is None:
                return "vertical-segment"
        if frag and check_fragile(X, Y, q, d, xp, yp, i, frag, hfp, removed=out) is None:
            return "vertical-segment"
        return None

    def zerodiv_vertical(self, X, Y, q):
        """the ZeroDivisionError of D16: a vertical segment with the query abscissa equal to the segment's
        and the code's pseudo-foot (x, a = y2 - y1) inside the segment's bounding box"""
        for j in range(len(X) - 1):
            x1, y1, x2, y2 = float(X[j]), float(Y[j]), float(X[j + 1]), float(Y[j + 1])
            if x1 == x2 and y1 != y2 and float(q[0]) == x1 and min(y1, y2) <= (y2 - y1) <= max(y1, y2):
                return True
        return False

    @staticmethod
    def kept_vertical(X, Y):
        """the polyline has an exactly vertical segment (x1 == x2, b == 0) that proj_polyligne does not skip: proj_segment is
        called on it for every query, whatever the query — the input of the listed finding `vertical-segment`"""
        return any(float(X[j]) == float(X[j + 1]) and float(Y[j]) != float(Y[j + 1])
                   and not (abs(float(X[j]) - float(X[j + 1])) + abs(float(Y[j]) - float(Y[j + 1])) < 1e-16) for j in range(len(X) - 1))

    def classify(self, case, impl_out, msg):
        if not msg or impl_out is None or "plumbing" in impl_out:
            return None
        if case["kind"] == "mapf":
            return self.classify_mapf(case, impl_out, msg)
        if case["kind"] == "polyxy" and len(case["Y"]) < len(case["X"]):
            return None
        qs = self.queries_of(case)
        if "err" in impl_out:
            if impl_out["err"] == "err:zerodiv" and any(self.zerodiv_vertical(X, Y, q) for (X, Y, q, _) in qs):
                # an earlier query of a mapOnTrack(track) call / of a sequence must not hide a different failure: every
                # query before the raising one is not observable, so the exception is all there is to classify
                return "vertical-segment"
            if any(self.kept_vertical(X, Y) for (X, Y, q, _) in qs):
                # the class is the CASE: an exception raised while a polyline with a kept exactly vertical segment is
                # projected on (proj_segment is called on that segment for every query) is the listed finding, whichever
                # exception the defective branch raises and for whichever query; on a polyline without such a segment
                # every exception is reported
                return "vertical-segment"
            return None
        if case["kind"] in ("mapt", "seq") and (impl_out.get("n") != len(qs) or len(impl_out.get("rows", [])) != len(qs)):
            return None
        if case["kind"] == "mapt" and not ("dist" in impl_out.get("features", []) and "edge" in impl_out.get("features", [])):
            return None
        classes = []
        for (X, Y, q, isflat, d, xp, yp, i, z) in self.rows_of(case, impl_out):
            if z is not None and isflat and z != 0.0:
                return None
            c = self.classify_one(X, Y, q, (d, xp, yp, i))
            if c is None:
                return None
            if c != "ok":
                classes.append(c)
        return classes[0] if classes else None

    # ------------------------------------------------------------------ shrinking / search
    def shrink_mapf(self, case):
        more = case.get("more", [])
        if case.get("alias"):
            Q0 = self.mapf_queries0(case)
            yield dict(case, alias=False, Q=[q[:2] for q in Q0], QZ=[q[2] for q in Q0], times=None,
                       feats=[[nm, [float(j) for j in range(len(Q0))]] for nm in case.get("rfeats", [])] + [f for f in case.get("feats", []) if f[0] not in case.get("rfeats", [])])
            return
        if more:
            yield dict(case, more=more[:-1])
            yield dict(case, X=more[0]["X"], Y=more[0]["Y"], Z=more[0]["Z"], more=more[1:])
        feats = case.get("feats", [])
        for j in range(len(feats)):
            yield dict(case, feats=feats[:j] + feats[j + 1:])
        if case.get("times") is not None:
            yield dict(case, times=None)
        if case.get("rfeats"):
            yield dict(case, rfeats=[])
        Q = case["Q"]
        for j in range(len(Q)):
            if len(Q) > 1:
                yield dict(case, Q=Q[:j] + Q[j + 1:], QZ=case["QZ"][:j] + case["QZ"][j + 1:],
                           feats=[[f[0], f[1][:j] + f[1][j + 1:]] for f in feats],
                           times=None if case.get("times") is None else case["times"][:j] + case["times"][j + 1:])
        if case.get("coords", "ENU") != "ENU":
            yield dict(case, coords="ENU")
        if not (flat(case["Z"]) and flat(case["QZ"]) and all(flat(r["Z"]) for r in more)):
            yield dict(case, alt="flat", Z=[0.0] * len(case["Z"]), QZ=[0.0] * len(Q), more=[dict(r, Z=[0.0] * len(r["Z"])) for r in more])
        if not feats and not more and case.get("times") is None and not case.get("rfeats") and Q:
            yield {"kind": "mapt", "coords": case.get("coords", "ENU"), "X": case["X"], "Y": case["Y"], "Z": case["Z"], "Q": Q, "QZ": case["QZ"]}
        n = len(case["X"])
        for j in range(n):
            if n > 2:
                yield dict(case, X=case["X"][:j] + case["X"][j + 1:], Y=case["Y"][:j] + case["Y"][j + 1:], Z=case["Z"][:j] + case["Z"][j + 1:])
        for a, r in enumerate(more):
            for j in range(len(r["X"])):
                if len(r["X"]) > 2:
                    yield dict(case, more=more[:a] + [{"X": r["X"][:j] + r["X"][j + 1:], "Y": r["Y"][:j] + r["Y"][j + 1:], "Z": r["Z"][:j] + r["Z"][j + 1:]}] + more[a + 1:])
        for f in range(len(feats)):
            for j, v in enumerate(feats[f][1]):
                if v != 0.0:
                    yield dict(case, feats=feats[:f] + [[feats[f][0], feats[f][1][:j] + [0.0] + feats[f][1][j + 1:]]] + feats[f + 1:])

    def mutate_mapf(self, case, rng):
        """neighbours of a case on track objects: its shrunk variants, the same call with the track of queries carrying a
        `dist` / an `edge` feature of its own, and the same chain continued by one more call on the first reference"""
        for c in self.shrink_mapf(case):
            yield c
        if case.get("alias"):
            return
        names = [f[0] for f in case.get("feats", [])]
        nq = len(case["Q"])
        for nm in ("dist", "edge"):
            if nm not in names and nq:
                yield dict(case, feats=case.get("feats", []) + [[nm, [FEAT_VALUES[(j + 1) % len(FEAT_VALUES)] for j in range(nq)]]])
        if len(case.get("more", [])) < 2:
            yield dict(case, more=case.get("more", []) + [{"X": case["X"], "Y": case["Y"], "Z": case["Z"]}])

    def shrink(self, case):
        k = case["kind"]
        if k == "mapf":
            for c in self.shrink_mapf(case):
                yield c
            return
        if k == "seq":
            ops = case["ops"]
            for j in range(len(ops)):
                if len(ops) > 1:
                    yield dict(case, ops=ops[:j] + ops[j + 1:])
            for j, op in enumerate(ops):
                if op[0] == "qt":
                    for q in op[1]:
                        yield dict(case, ops=ops[:j] + [["q"] + list(q)] + ops[j + 1:])
            n = len(case["X"])
            for j in range(n):
                if n > 2 and not any(op[0] == "set" and op[1] == j for op in ops):
                    yield dict(case, X=case["X"][:j] + case["X"][j + 1:], Y=case["Y"][:j] + case["Y"][j + 1:], Z=case["Z"][:j] + case["Z"][j + 1:],
                               ops=[([op[0], op[1] - 1] + op[2:]) if (op[0] == "set" and op[1] > j) else op for op in ops])
            steps = self.seq_steps(case)
            if len([op for op in ops if op[0] not in ("q", "qt")]) == 0:
                for (X, Y, Z, q) in steps:
                    yield {"kind": "map", "coords": case.get("coords", "ENU"), "X": X, "Y": Y, "Z": Z, "q": q[:2], "qz": q[2]}
            return
        if k == "mapt":
            QZ = case.get("QZ", [0.0] * len(case["Q"]))
            for j, q in enumerate(case["Q"]):
                c = {"kind": "map", "X": case["X"], "Y": case["Y"], "q": q}
                if "Z" in case:
                    c.update(coords=case.get("coords", "ENU"), Z=case["Z"], qz=QZ[j])
                yield c
            return
        if k == "proj":
            yield dict(case, kind="map")
        if k in ("map", "proj"):
            if "Z" in case:
                if case.get("coords", "ENU") != "ENU":
                    yield dict(case, coords="ENU")
                if not (flat(case["Z"]) and flat([case.get("qz", 0.0)])):
                    yield {kk: v for kk, v in case.items() if kk not in ("Z", "qz", "alt", "coords")}     # flat
                    hs = [v for v in list(case["Z"]) + [case.get("qz", 0.0)] if v is not None and v != 0.0]
                    h = hs[0] if hs else 35.0
                    same = dict(case, Z=[h] * len(case["X"]), qz=h)       # track and query at one common altitude
                    if same != case:
                        yield same
                else:
                    yield {kk: v for kk, v in case.items() if kk not in ("Z", "qz", "alt", "coords")}
            else:
                yield {"kind": "poly", "X": case["X"], "Y": case["Y"], "q": case["q"]}
        if k in ("seg", "poly", "polyxy") and case.get("cont", "list") != "list":
            yield dict(case, cont="list")
        if k in ("seg", "poly", "polyxy") and case.get("qform", "float") != "float":
            yield dict(case, qform="float")
        if k == "polyxy" and len(case["Y"]) >= len(case["X"]):
            yield dict(case, kind="poly", Y=case["Y"][:len(case["X"])])
        if k in ("poly", "map", "proj"):
            X, Y = case["X"], case["Y"]
            if len(X) == 2 and k == "poly":
                yield {"kind": "seg", "cont": case.get("cont", "list"), "s": [X[0], Y[0], X[1], Y[1]], "q": case["q"]}
            for j in range(len(X)):
                if len(X) > 2:
                    c = dict(case, X=X[:j] + X[j + 1:], Y=Y[:j] + Y[j + 1:])
                    if "Z" in case:
                        c["Z"] = case["Z"][:j] + case["Z"][j + 1:]
                    yield c
        # simpler numbers
        def simpler(v):
            if isinstance(v, str) or not finite(v):
                return []
            r = float(round(v))
            return [r] if r != v else []
        if k == "seg":
            for j, v in enumerate(case["s"]):
                for r in simpler(v):
                    s = list(case["s"]); s[j] = r
                    yield dict(case, s=s)
        else:
            for name in ("X", "Y"):
                for j, v in enumerate(case[name]):
                    for r in simpler(v):
                        L = list(case[name]); L[j] = r
                        yield dict(case, **{name: L})
        for j, v in enumerate(case["q"]):
            for r in simpler(v):
                qq = list(case["q"]); qq[j] = r
                yield dict(case, q=qq)

    def mutate(self, case, rng):
        if case["kind"] == "mapf":
            for c in self.mutate_mapf(case, rng):
                yield c
            return
        if case["kind"] == "seq":
            for (X, Y, Z, q) in self.seq_steps(case):
                yield {"kind": "map", "coords": case.get("coords", "ENU"), "X": X, "Y": Y, "Z": Z, "q": q[:2], "qz": q[2]}
            return
        if case["kind"] == "mapt":
            for c in self.shrink(case):
                yield c
            if "Z" in case:     # the same call on track objects that carry state (features named dist / edge, a second call)
                base = {"kind": "mapf", "coords": case.get("coords", "ENU"), "X": case["X"], "Y": case["Y"], "Z": case["Z"], "more": [],
                        "Q": case["Q"], "QZ": case.get("QZ", [0.0] * len(case["Q"])), "feats": [], "times": None, "rfeats": [], "alias": False}
                for c in self.mutate_mapf(base, rng):
                    if c.get("kind") == "mapf" and (c.get("feats") or c.get("more")):
                        yield c
            return
        if any(isinstance(v, str) for v in case["q"]):
            return
        for dx, dy in ((0, 0), (1, 0), (-1, 0), (0, 1), (0, -1), (0.5, 0.5), (2, -1)):
            yield dict(case, q=[case["q"][0] + dx, case["q"][1] + dy])


# ---- tie to the source by translation (tools/py2lean.py -> lean/TracklibVerif/Gen/Geometry.lean, regenerated on every run)
P.tie_modules = ["TracklibVerif.Tie.C20"]
P.theorems = P.theorems + [
    ("TracklibVerif.Tie.C20", "TV.Tie.C20.tie_cartesienne", "the Lean translation of the CURRENT source of geometry.cartesienne equals the model's cartesienne on every list of >= 4 numbers"),
    ("TracklibVerif.Tie.C20", "TV.Tie.C20.tie_cartesienne_short", "the translated cartesienne raises IndexError on every shorter list"),
    ("TracklibVerif.Tie.C20", "TV.Tie.C20.tie_projection_droite", "the translation of the CURRENT source of geometry.projection_droite equals the model's projectionDroite on all arguments, exceptions included"),
    ("TracklibVerif.Tie.C20", "TV.Tie.C20.tie_proj_segment", "the translation of the CURRENT source of geometry.proj_segment equals the model's projSegment on all arguments, exceptions included"),
]
P.theorems = P.theorems + [
    ("TracklibVerif.Tie.C20", "TV.Tie.C20.tie_proj_polyligne_exact", "EXACT: the translation of the CURRENT source of geometry.proj_polyligne (initial answer Xp[0], Yp[0], 0; for loop; sentinel 1e400 = inf; continue; `if distmin == inf: distmin = sqrt(pow(x - xproj, 2) + pow(y - yproj, 2))`) equals the sentinel-faithful model projPolyligneXYS (np=false, same sentinel inf, sq v = pow v 2, eps=1e-16) on ALL arguments, no hypothesis, exceptions included (IndexError on empty / shorter sequences, ZeroDivisionError)"),
    ("TracklibVerif.Tie.C20", "TV.Tie.C20.tie_proj_polyligne_pairs_exact", "EXACT: the translated proj_polyligne on the abscissas/ordinates of a vertex list equals the sentinel-faithful kernel model projPolyligneS on ALL arguments, no hypothesis"),
    ("TracklibVerif.Tie.C20", "TV.Tie.C20.tie_proj_polyligne", "the translated proj_polyligne equals the none-state model projPolyligneXY of the property theorems (np=false, eps=1e-16), exceptions included, under the explicit hypotheses that separate the two renderings of the sentinel: kept distances < inf, d < inf -> not d == inf, inf == inf, pow v 2 = v * v (corollary of the exact tie and the agreement lemma)"),
    ("TracklibVerif.Tie.C20", "TV.Tie.C20.tie_proj_polyligne_pairs", "the same on the abscissas/ordinates of a vertex list: the kernel model projPolyligne on the vertices"),
    ("TracklibVerif.Tie.C20", "TV.Tie.C20.proj_polyligne_sentinel_deviation", "the sentinel hypothesis cannot be dropped: on one kept segment whose distance is not < inf the code keeps nothing and answers from its initial state (the first vertex, finishS) while the none-state model returns the segment"),
    ("TracklibVerif.Lemmas.ProjSentinel", "TV.Proj.projPolyligneXYS_eq", "agreement: if every distance met (non-skipped segment, proj_segment returns) is < inf, d < inf -> not d == inf, inf == inf and sq v = v * v, the sentinel-faithful projPolyligneXYS equals projPolyligneXY (any argument form), exceptions included"),
    ("TracklibVerif.Lemmas.ProjSentinel", "TV.Proj.projPolyligneXYS_eq_false", "the same with Python numbers, the sentinel hypothesis stated on the kernel projSegment (literally hinf of tie_proj_polyligne)"),
    ("TracklibVerif.Lemmas.ProjSentinel", "TV.Proj.projPolyligneS_eq", "agreement on a vertex list: projPolyligneS = projPolyligne under the same hypotheses"),
    ("TracklibVerif.Lemmas.ProjSentinel", "TV.Proj.projPolyligneXYS_single_not_lt", "the hypothesis separates the two forms: one kept segment with a distance not < inf -> the S-form answers from the first vertex (finishS on the initial state, as the code), the none-state form returns the segment"),
]
