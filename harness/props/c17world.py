"""C17 — histories on a small *world* of observations shared between several tracks.

A case is a pool of observations (positions, millisecond stamps) that form track 0, plus a history of
operations. Operations create tracks that SHARE the Obs objects (`+`, extract, slicing) or copy them
(`copy()`), compute / read / remove the features of the statement through every entry point
(computeAbsCurv, estimate_speed function and method, addAnalyticalFeature(speed | ds), operate(INTEGRATOR),
operate(DIFFERENTIATOR), Track.length, computeCurvAbsBetweenTwoPoints, getAbsCurv / getSpeed / track[name]),
evaluate absolute times (isSorted, duration, getT), write user features, and edit positions and timestamp
FIELDS in place between computations. Stamps carry a `zone` field ("zones" of the case, default 0; edited in place by
["et", k, i, "zone", z] and by ["tz", k, z] = track.setTimeZone(z)): the clock readings of a pool merged from loggers set to
different zones are non-decreasing, `zone` is not read by toAbsTime() / t2 - t1.

The oracle replays the history on its own bookkeeping (current positions / stamps, which names each track
lists, how many feature slots each observation carries, which of ds / abs_curv / speed were computed from the
current data) and checks every computation against the CURRENT positions and stamps.
This module holds the pieces that do not need tracklib: field arithmetic, the bookkeeping (`Sym`) and the
generators; the `P` class (c17.py) runs the real code and the Lean model on the histories."""
import calendar, math, time as _time

FIELDS = ("year", "month", "day", "hour", "min", "sec", "ms")
ZFIELDS = FIELDS + ("zone",)        # everything an ObsTime object holds; `zone` is not read by toAbsTime() / t2 - t1
COMPUTED = ("ds", "abs_curv", "speed")
FEATURE_OPS = ("a", "s", "S", "f", "d", "I", "E", "D", "rm", "w")       # write the feature table of their track
READ_OPS = ("L", "c", "g", "q")
NEW_OPS = ("add", "ext", "sl", "cp")
EDIT_OPS = ("ex", "et", "tz")
TOUCHED = {"a": ("ds", "abs_curv"), "s": ("speed",), "S": ("speed",), "f": ("speed",), "d": ("ds",),
           "I": ("abs_curv",), "E": ("abs_curv",), "D": ("dd",)}


def fields_of(tms, zone=0):
    g = _time.gmtime(tms // 1000)
    return {"year": g.tm_year, "month": g.tm_mon, "day": g.tm_mday, "hour": g.tm_hour, "min": g.tm_min, "sec": g.tm_sec,
            "ms": tms % 1000, "zone": zone}


def zones_of(case):
    """the `zone` field of the stamps of the pool (clock readings of loggers set to different zones; 0 when not given)"""
    z = case.get("zones")
    return list(z) if z else [0] * len(case["pos"])


def tms_of(f):
    """milliseconds since 1970 of a field record (fields need not be normalised)"""
    return (calendar.timegm((f["year"], f["month"], f["day"], 0, 0, 0)) + f["hour"] * 3600 + f["min"] * 60 + f["sec"]) * 1000 + f["ms"]


class Sym:
    """the oracle's (and the generator's) own bookkeeping of a history"""

    def __init__(self, case):
        n = len(case["pos"])
        self.cls = case.get("cls", "N")       # class of the position objects of the pool
        self.pos = [list(p) for p in case["pos"]]
        self.fld = [fields_of(t, z) for t, z in zip(case["tms"], zones_of(case))]
        self.slots = [0] * n
        self.tracks = [{"ids": list(range(n)), "names": [], "valid": set()}]
        self.tainted = False      # an exception left partial effects on a misaligned table: feature checks stop
        self.lost = False         # the oracle can no longer tell which object is which: all checks stop

    # ---- queries
    def tms(self, h):
        return tms_of(self.fld[h])

    def zone(self, h):
        return self.fld[h]["zone"]

    def ok(self, k):
        """the table of track k is in a state the statement speaks about: no observation twice, every observation
        carries a slot for every listed feature"""
        t = self.tracks[k]
        ids = t["ids"]
        return (not self.tainted) and len(ids) >= 1 and len(set(ids)) == len(ids) and all(self.slots[h] >= len(t["names"]) for h in ids)

    def exact(self, k):
        """every observation of track k carries exactly the slots its dict lists (no slot left by a sharing track)"""
        t = self.tracks[k]
        return all(self.slots[h] == len(t["names"]) for h in t["ids"])

    def monotone(self, k):
        ids = self.tracks[k]["ids"]
        return all(self.tms(ids[i]) <= self.tms(ids[i + 1]) for i in range(len(ids) - 1))

    def sharing(self, k):
        s = set(self.tracks[k]["ids"])
        return [j for j, t in enumerate(self.tracks) if j != k and s & set(t["ids"])]

    def valid_op(self, op):
        """the operation refers to existing tracks / indices / names"""
        kind = op[0]
        if kind not in FEATURE_OPS + READ_OPS + NEW_OPS + EDIT_OPS:
            return False
        k = op[1]
        if not (isinstance(k, int) and 0 <= k < len(self.tracks)):
            return False
        t = self.tracks[k]
        n = len(t["ids"])
        if kind == "add":
            return isinstance(op[2], int) and 0 <= op[2] < len(self.tracks)
        if kind == "ext":
            return 0 <= op[2] <= op[3] < n
        if kind == "sl":
            return 0 <= op[2] < op[3] <= n
        if kind == "et":
            return 0 <= op[2] < n and op[3] in ZFIELDS and isinstance(op[4], int)
        if kind == "ex":
            return 0 <= op[2] < n
        if kind == "tz":
            return isinstance(op[2], int)
        if kind in ("I", "E"):
            return "ds" in t["names"]
        if kind == "D":
            return "abs_curv" in t["names"]
        if kind in ("g", "rm"):
            return op[2] in t["names"]
        if kind == "w":
            return len(op[3]) == n
        return True

    # ---- transitions (bookkeeping only)
    def _create(self, t, name):
        if name not in t["names"]:
            t["names"].append(name)
            for h in t["ids"]:
                self.slots[h] += 1

    def _remove(self, t, name):
        if name in t["names"]:
            t["names"].remove(name)
            for h in t["ids"]:
                self.slots[h] -= 1
        t["valid"].discard(name)

    def apply(self, op):
        """update the bookkeeping; returns what the oracle may check for this operation:
        {"check": name of the clause or None, ...}"""
        kind, k = op[0], op[1]
        t = self.tracks[k]
        info = {"check": None}
        if kind == "a":
            has_ds, has_ac = "ds" in t["names"], "abs_curv" in t["names"]
            ds_valid = ("ds" in t["valid"]) if has_ds else True
            self._create(t, "ds")
            ac_valid = ("abs_curv" in t["valid"]) if has_ac else ds_valid
            self._create(t, "abs_curv")
            self._remove(t, "ds")
            (t["valid"].add if ac_valid else t["valid"].discard)("abs_curv")
            info = {"check": "abs_curv" if ac_valid else None, "stored": "abs_curv", "fresh": not has_ac}
        elif kind in ("s", "S"):
            has = "speed" in t["names"]
            v = ("speed" in t["valid"]) if has else True
            self._create(t, "speed")
            (t["valid"].add if v else t["valid"].discard)("speed")
            info = {"check": "speed" if v else None, "stored": "speed", "fresh": not has}
        elif kind == "f":
            self._create(t, "speed")
            t["valid"].add("speed")
            info = {"check": "speed", "stored": "speed", "fresh": True}
        elif kind == "d":
            self._create(t, "ds")
            t["valid"].add("ds")
            info = {"check": "ds", "stored": "ds", "fresh": True}
        elif kind == "I":
            v = "ds" in t["valid"]
            self._create(t, "abs_curv")
            (t["valid"].add if v else t["valid"].discard)("abs_curv")
            info = {"check": "abs_curv" if v else None, "stored": "abs_curv", "fresh": True}
        elif kind == "E":
            # operate("abs_curv=I{ds}"): integrate into a temporary, remove an existing abs_curv, create it again from the temporary
            v = "ds" in t["valid"]
            self._remove(t, "abs_curv")
            self._create(t, "abs_curv")
            (t["valid"].add if v else t["valid"].discard)("abs_curv")
            info = {"check": "abs_curv" if v else None, "stored": "abs_curv", "fresh": True, "void": True}
        elif kind == "D":
            self._create(t, "dd")
        elif kind == "rm":
            self._remove(t, op[2])
        elif kind == "w":
            self._create(t, op[2])
            t["valid"].discard(op[2])
        elif kind == "g":
            info = {"check": op[2] if op[2] in t["valid"] else None}
        elif kind == "L":
            info = {"check": "length"}
        elif kind == "c":
            info = {"check": "curvabs"}
        elif kind == "add":
            u = self.tracks[op[2]]
            names = list(t["names"]) if t["names"] == u["names"] else []
            self.tracks.append({"ids": t["ids"] + u["ids"], "names": names, "valid": set()})
        elif kind == "ext":
            self.tracks.append({"ids": t["ids"][op[2]:op[3] + 1], "names": list(t["names"]), "valid": set()})
        elif kind == "sl":
            self.tracks.append({"ids": t["ids"][op[2]:op[3]], "names": list(t["names"]), "valid": set()})
        elif kind == "cp":
            memo, ids = {}, []
            for h in t["ids"]:
                if h not in memo:
                    memo[h] = len(self.pos)
                    self.pos.append(list(self.pos[h]))
                    self.fld.append(dict(self.fld[h]))
                    self.slots.append(self.slots[h])
                ids.append(memo[h])
            self.tracks.append({"ids": ids, "names": list(t["names"]), "valid": set(t["valid"])})
        elif kind == "ex":
            h = t["ids"][op[2]]
            self.pos[h]["xyz".index(op[3])] = op[4]
            for u in self.tracks:
                if h in u["ids"]:
                    u["valid"].clear()
        elif kind == "et":
            h = t["ids"][op[2]]
            self.fld[h][op[3]] = op[4]
            for u in self.tracks:
                if h in u["ids"]:
                    u["valid"].clear()
        elif kind == "tz":                    # track.setTimeZone(zone): the zone field of every stamp of the track, in place
            for h in t["ids"]:
                self.fld[h]["zone"] = op[2]
            for u in self.tracks:
                if set(t["ids"]) & set(u["ids"]):
                    u["valid"].clear()
        if kind in FEATURE_OPS:
            # the slots of shared observations were appended to / written / deleted: what a sharing track reads
            # under its own names is no longer what was computed for it
            for j in self.sharing(k):
                self.tracks[j]["valid"].clear()
        return info


def valid_case(case):
    try:
        sym = Sym(case)
        for op in case["hist"]:
            if not sym.valid_op(op):
                return False
            sym.apply(op)
        return True
    except Exception:
        return False


def list_init_on_foreign_slots(case):
    """index of the first operation `operate("abs_curv=I{ds}")` applied to a track some of whose observations carry a slot
    left by a sharing track (createAnalyticalFeature(name, LIST) appends instead of writing the registered index:
    finding `list-init-on-shared-obs`), or None"""
    try:
        sym = Sym(case)
        for j, op in enumerate(case["hist"]):
            if op[0] == "E" and not sym.exact(op[1]):
                return j
            sym.apply(op)
    except Exception:
        pass
    return None


# ------------------------------------------------------------------------------------------------
# generators
# ------------------------------------------------------------------------------------------------
class Gen:
    """random histories; all randomness from `rng`"""

    def __init__(self, rng, mode, floaty=None, cls="N"):
        self.rng, self.mode, self.cls = rng, mode, cls
        n = rng.randrange(3, 9)
        self.n = n
        if cls != "N":
            # a pool of GeoCoords (lon, lat, hgt) / ECEFCoords (X, Y, Z) positions: the walks of c17coords.py
            from props import c17coords as C
            self.shape = "geo" if cls == "G" else "ecef"
            pos = C.gen_geo(rng, n)
            if cls == "X":
                pos = [list(C.ecef_of(*p)) for p in pos]
            ms = rng.random() < 0.4
        elif mode == "q":
            self.shape = rng.choice(["line", "rect", "axis"])
            bx, by = rng.randrange(-50, 50), rng.randrange(-50, 50)
            z = rng.choice([0, 0, 1, -7])
            pos = []
            if self.shape == "line":
                s = rng.choice([1, 1, 2, 7, 1000])
                k = 0
                for _ in range(n):
                    pos.append([bx + 3 * s * k, by + 4 * s * k, z])
                    k += rng.choice([0, 1, 1, 2, 3, rng.randrange(0, 20)])
                self.xs = self.ys = None
            elif self.shape == "rect":
                s = rng.choice([1, 2, 5, 100])
                self.xs, self.ys = [bx, bx + 3 * s], [by, by + 4 * s]
                for _ in range(n):
                    pos.append([rng.choice(self.xs), rng.choice(self.ys), z])
            else:
                horiz = rng.random() < 0.5
                k = 0
                for _ in range(n):
                    pos.append([bx + k, by, z] if horiz else [bx, by + k, z])
                    k += rng.choice([0, 1, 1, 2, -1, 10 ** 6, rng.randrange(-9, 9)])
                cand = [(bx if horiz else by) + d for d in (-5, 0, 1, 2, 3, 10, 1000)]
                self.xs, self.ys = (cand, None) if horiz else (None, cand)
            if rng.random() < 0.3:
                pos = [[p[0] + 0.5, p[1] - 0.5, p[2]] for p in pos]
                self.xs = [v + 0.5 for v in self.xs] if self.xs else None
                self.ys = [v - 0.5 for v in self.ys] if self.ys else None
            ms = False
        else:
            self.shape = "float"
            x, y = rng.uniform(-1000, 1000), rng.uniform(-1000, 1000)
            pos = []
            for _ in range(n):
                pos.append([x, y, rng.choice([0.0, rng.uniform(-100, 100)])])
                step = rng.choice([0.0, 1e-6, 1e-3, 1.0, 10.0, 1e4, 1e7, rng.uniform(0, 100)])
                if step:
                    a = rng.uniform(0, 2 * math.pi)
                    x, y = x + step * math.cos(a), y + step * math.sin(a)
            ms = rng.random() < 0.4
        # stamps: a base whose second / minute fields leave room for in-place edits
        base = rng.choice([0, 951782400, rng.randrange(0, 2 * 10 ** 9)])
        base = base - base % 3600 + 60 * rng.randrange(5, 50) + rng.randrange(5, 40)
        t = [base * 1000 + (rng.randrange(0, 1000) if ms and rng.random() < 0.5 else 0)]
        for _ in range(n - 1):
            d = rng.choice([0, 0, 1, 1, 2, 3, 5, 10, 60]) * 1000
            if ms:
                d += rng.choice([0, 1, 2, 10, 500, 999, rng.randrange(0, 1000)])
            t.append(t[-1] + d)
        self.case = {"kind": "world", "mode": mode, "pos": pos, "tms": t, "hist": []}
        if cls != "N":
            self.case["kind"], self.case["cls"] = "world-" + self.shape, cls
        # the `zone` field of the stamps: most pools are stamped in zone 0; some in one other zone; some are merged from two
        # loggers set to different zones (the clock readings stay non-decreasing); some carry a zone per fix
        r = rng.random()
        if r < 0.35:
            zs = [0, 1, 2, -5, 12, -11]
            if r < 0.08:
                zones = [rng.choice(zs[1:])] * n
            elif r < 0.25:
                m, za, zb = rng.randrange(1, n), rng.choice(zs), rng.choice(zs)
                zones = [za] * m + [zb] * (n - m)
            else:
                zones = [rng.choice(zs[:4]) for _ in range(n)]
            self.case["zones"] = zones
        self.sym = Sym(self.case)

    # ---- helpers
    def push(self, op):
        if op[0] == "E" and not self.sym.exact(op[1]):
            return False                  # known finding list-init-on-shared-obs: not generated (c17.py classify)
        if self.sym.valid_op(op):
            self.case["hist"].append(op)
            self.sym.apply(op)
            return True
        return False

    def pick_track(self):
        ks = list(range(len(self.sym.tracks)))
        return self.rng.choice(ks + ks[-1:])          # the newest track a little more often

    def feature_op(self, k=None):
        rng, sym = self.rng, self.sym
        k = self.pick_track() if k is None else k
        t = sym.tracks[k]
        kinds = ["a", "a", "a", "S", "S", "s", "f", "f", "d", "L", "c", "q", "w"]
        if self.cls != "N":
            kinds.remove("L")             # Track.length (3D, distanceTo) is modelled for ENUCoords only
        if "ds" in t["names"]:
            kinds += ["I", "I", "E"]
        if "abs_curv" in t["names"]:
            kinds += ["D"]
        if t["names"]:
            kinds += ["g", "g", "rm"]
        kind = rng.choice(kinds)
        if kind in ("g", "rm"):
            return self.push([kind, k, rng.choice(t["names"])])
        if kind == "q":
            return self.push(["q", k, rng.choice(["sorted", "dur", "t"])])
        if kind == "w":
            name = rng.choice(["w", "w", "q", "ds", "abs_curv", "speed"])
            vals = [rng.choice([0.0, 1.0, 2.5, -3.0, "nan", float(rng.randrange(-9, 9))]) for _ in t["ids"]]
            return self.push(["w", k, name, vals])
        return self.push([kind, k])

    def compute_op(self, k):
        """one of the computations of the statement on track k (possibly the manual d + I pair)"""
        kind = self.rng.choice(["a", "a", "a", "S", "s", "f", "dI", "dE"])
        if kind in ("dI", "dE"):
            self.push(["d", k])
            return self.push([kind[1], k])
        return self.push([kind, k])

    def new_track(self):
        rng, sym = self.rng, self.sym
        if len(sym.tracks) >= 5:
            return False
        k = self.pick_track()
        n = len(sym.tracks[k]["ids"])
        kind = rng.choice(["ext", "ext", "sl", "sl", "add", "add", "cp"])
        if kind == "ext":
            a = rng.randrange(0, n)
            return self.push(["ext", k, a, rng.randrange(a, n)])
        if kind == "sl":
            a = rng.randrange(0, n)
            return self.push(["sl", k, a, rng.randrange(a + 1, n + 1)])
        if kind == "cp":
            return self.push(["cp", k])
        pairs = []
        for i, ti in enumerate(sym.tracks):
            for j, tj in enumerate(sym.tracks):
                if i != j and not (set(ti["ids"]) & set(tj["ids"])) and sym.tms(ti["ids"][-1]) <= sym.tms(tj["ids"][0]):
                    pairs.append((i, j))
        if not pairs:
            return False
        i, j = rng.choice(pairs)
        return self.push(["add", i, j])

    def edit(self, time=None):
        rng, sym = self.rng, self.sym
        k = self.pick_track()
        ids = sym.tracks[k]["ids"]
        i = rng.randrange(0, len(ids))
        h = ids[i]
        if time is None:
            time = rng.random() < 0.5
        if not time:
            if self.mode == "q":
                opts = [("x", v) for v in (self.xs or [])] + [("y", v) for v in (self.ys or [])]
                if not opts:
                    time = True
                else:
                    c, v = rng.choice(opts)
                    return self.push(["ex", k, i, c, v, rng.randrange(0, 4)])
            else:
                c = rng.choice(["x", "y", "x", "y", "z"])
                cur = sym.pos[h]["xyz".index(c)]
                if self.cls == "G":           # degrees (longitude wraps, latitude stays on the globe) / metres of height
                    from props import c17coords as C
                    if c == "z":
                        v = cur + rng.choice([1.0, -2.5, 30.0, rng.uniform(-200, 200)])
                    else:
                        v = cur + rng.choice([1e-4, -2.5e-3, 1e-6, 0.01, -1e-5, rng.uniform(-0.01, 0.01)])
                        v = C.wrap_lon(v) if c == "x" else max(-90.0, min(90.0, v))
                elif self.cls == "X":
                    v = cur + rng.choice([1.0, -2.5, 1e-3, 100.0, rng.uniform(-1000, 1000)])
                else:
                    v = rng.choice([cur + 1.0, cur - 2.5, cur + 1e-6, cur + 1e4, rng.uniform(-1000, 1000)])
                return self.push(["ex", k, i, c, v, rng.randrange(0, 4)])
        if rng.random() < 0.2:                # the zone of one stamp / of every stamp of the track (setTimeZone), in place
            z = rng.choice([0, 1, 2, -5])
            if rng.random() < 0.4:
                return self.push(["tz", k, z])
            if z != sym.fld[h]["zone"]:
                return self.push(["et", k, i, "zone", z])
        for _ in range(6):
            field = rng.choice(["sec", "sec", "sec", "min", "ms"] if self.mode == "f" else ["sec", "sec", "sec", "min"])
            cur = sym.fld[h][field]
            if field == "ms":
                v = rng.choice([0, 1, 500, 999, rng.randrange(0, 1000)])
            else:
                v = rng.choice([cur + 1, cur - 1, cur + 2, cur + 5, rng.randrange(0, 60)])
                if not 0 <= v < 60:
                    continue
            if v == cur:
                continue
            old = sym.fld[h][field]
            sym.fld[h][field] = v
            fine = all(sym.monotone(j) for j, u in enumerate(sym.tracks) if h in u["ids"])
            sym.fld[h][field] = old
            if fine:
                return self.push(["et", k, i, field, v])
        return False

    def remove(self):
        ks = [k for k, t in enumerate(self.sym.tracks) if t["names"]]
        if not ks:
            return False
        k = self.rng.choice(ks)
        names = self.sym.tracks[k]["names"]
        pref = [nm for nm in names if nm in COMPUTED]
        return self.push(["rm", k, self.rng.choice(pref or names)])

    def random_ops(self, m):
        for _ in range(m):
            r = self.rng.random()
            if r < 0.5:
                self.feature_op()
            elif r < 0.68:
                self.new_track()
            elif r < 0.88:
                self.edit()
            else:
                self.remove()

    # ---- directed templates: the situations single-call sampling never reaches
    def template(self):
        rng, n = self.rng, self.n
        tpl = rng.choice(["sum", "section", "edit-recompute", "time-eval", "order", "copy"])
        if tpl == "sum":                      # seg1 carries a feature, seg2 does not; the sum shares their observations
            m = rng.randrange(1, n)
            self.push(["ext", 0, 0, m - 1])
            self.push(["ext", 0, m, n - 1] if rng.random() < 0.5 else ["sl", 0, m, n])
            for _ in range(rng.randrange(0, 3)):
                self.compute_op(rng.choice([1, 2]))
            self.push(["add", 1, 2])
            self.compute_op(3)
            self.compute_op(rng.choice([3, 1, 2]))
        elif tpl == "section":                # a section is computed first, then the parent (and back)
            a = rng.randrange(0, n - 1)
            b = rng.randrange(a + 1, n)
            self.push(["ext", 0, a, b] if rng.random() < 0.5 else ["sl", 0, a, b + 1])
            if rng.random() < 0.3:
                self.compute_op(0)
            self.compute_op(1)
            self.compute_op(0)
            if rng.random() < 0.5:
                self.compute_op(1)
        elif tpl == "edit-recompute":         # compute, edit in place, remove, recompute
            self.compute_op(0)
            for _ in range(rng.randrange(1, 3)):
                self.edit()
            if rng.random() < 0.7:
                self.remove()
            self.compute_op(0)
            self.push([rng.choice(["f", "a", "S"]), 0])
        elif tpl == "time-eval":              # absolute times are evaluated, then stamps are edited in place, then speed
            self.push(rng.choice([["q", 0, "sorted"], ["q", 0, "dur"], ["q", 0, "t"], ["S", 0], ["f", 0]]))
            for _ in range(rng.randrange(1, 4)):
                self.edit(time=True)
            if "speed" in self.sym.tracks[0]["names"] and rng.random() < 0.6:
                self.push(["rm", 0, "speed"])
            self.push([rng.choice(["f", "S", "s", "f"]), 0])
        elif tpl == "order":                  # the computations in different orders, twice, through every entry point
            for _ in range(rng.randrange(2, 6)):
                self.push([rng.choice(["a", "S", "s", "f", "d", "L" if self.cls == "N" else "c", "c", "a"]), 0])
                if rng.random() < 0.3 and "ds" in self.sym.tracks[0]["names"]:
                    self.push(["I", 0])
        else:                                 # deep copy vs shared observations
            self.compute_op(0)
            self.push(["cp", 0])
            self.edit()
            self.compute_op(1)
            self.compute_op(0)
        self.random_ops(rng.randrange(0, 4))


def gen_world(rng, mode=None, cls="N"):
    """cls: class of the position objects of the pool ("N" ENUCoords, "G" GeoCoords, "X" ECEFCoords; the last two at Float)"""
    mode = "f" if cls != "N" else mode or ("q" if rng.random() < 0.5 else "f")
    g = Gen(rng, mode, cls=cls)
    if rng.random() < 0.6:
        g.template()
    else:
        g.random_ops(rng.randrange(3, 10))
    if not g.case["hist"]:
        g.push(["a", 0])
    return g.case


def enum_world(length):
    """every word of the given length over a fixed alphabet on a fixed 4-observation pool with one shared section"""
    import itertools
    pos = [[0, 0, 0], [3, 4, 0], [3, 4, 0], [0, 4, 0]]
    tms = [10000, 11000, 11000, 14000]
    prefix = [["ext", 0, 1, 2]]
    alphabet = [["a", 0], ["a", 1], ["S", 0], ["S", 1], ["f", 0], ["rm", 0, "abs_curv"], ["rm", 0, "speed"],
                ["ex", 0, 1, "x", 0, 0], ["et", 0, 1, "sec", 10], ["q", 0, "dur"], ["et", 0, 2, "zone", 2]]
    out = []
    for word in itertools.product(range(len(alphabet)), repeat=length):
        hist = prefix + [list(alphabet[i]) for i in word]
        case = {"kind": "world-enum", "mode": "q", "pos": [list(p) for p in pos], "tms": list(tms), "hist": hist}
        if valid_case(case):
            out.append(case)
    return out


def enum_world_classes():
    """directed histories on pools of GeoCoords / ECEFCoords positions: the Paris walk of c17coords.py with a section
    sharing its observations — section first then parent, edit in place / remove / recompute, sum of two sections, deep copy"""
    from props import c17coords as C
    paris = [[2.3400, 48.8500, 35.0], [2.3410, 48.8500, 35.0], [2.3410, 48.8510, 36.0], [2.3425, 48.8520, 38.0],
             [2.3425, 48.8520, 38.0], [2.3450, 48.8515, 37.0]]
    tms = [1646136000000 + 10000 * k for k in range(len(paris))]
    tms[3] = tms[2]
    hists = [
        [["ext", 0, 1, 3], ["a", 1], ["a", 0], ["S", 0], ["g", 0, "abs_curv"], ["c", 0]],
        [["a", 0], ["s", 0], ["ex", 0, 1, "y", 48.8505, 0], ["rm", 0, "abs_curv"], ["a", 0], ["rm", 0, "speed"], ["S", 0], ["c", 0]],
        [["ext", 0, 0, 2], ["sl", 0, 3, 6], ["a", 1], ["f", 2], ["add", 1, 2], ["a", 3], ["S", 3], ["d", 3], ["I", 3]],
        [["a", 0], ["cp", 0], ["ex", 0, 2, "x", 2.3412, 1], ["rm", 1, "abs_curv"], ["a", 1], ["a", 0], ["et", 0, 4, "sec", 45], ["S", 0]],
        [["d", 0], ["I", 0], ["D", 0], ["q", 0, "dur"], ["tz", 0, 2], ["f", 0], ["ex", 0, 5, "z", 137.0, 3], ["c", 0], ["d", 0], ["E", 0]],
    ]
    out = []
    for cls in ("G", "X"):
        pos = paris if cls == "G" else [list(C.ecef_of(*p)) for p in paris]
        for h in hists:
            hist = [list(op) for op in h]
            if cls == "X":
                hist = [op if op[0] != "ex" else op[:4] + [pos[op[2]]["xyz".index(op[3])] + 25.0] + op[5:] for op in hist]
            case = {"kind": "world-enum-" + ("geo" if cls == "G" else "ecef"), "mode": "f", "cls": cls,
                    "pos": [list(p) for p in pos], "tms": list(tms), "hist": hist}
            if valid_case(case):
                out.append(case)
    return out
