"""C14 — coordinate conversions round-trip and agree with the WGS84 ellipsoid
(tracklib/core/obs_coords.py, Track.to*Coords of tracklib/core/track.py)."""
import math
from engine import Prop, fbits, bitsf, err_kind

from props.geo14 import (A, F, E2, TOL_DEG, TOL_M, o_g2e, o_e2g, dlon, geo_diff, m_diff, base_geo, close_geo, close_m,
                         _c, _cm, wrap3, rand_ty, fit3, corr_close_m, corr_close_geo)
from props import c14hist as H


PT_FIELDS = [("ecef", "m"), ("geo2", "g"), ("enu", "m"), ("geo3", "g"), ("enuE", "m"), ("ecef2", "m"),
             ("baseEnu", "m"), ("enu2", "m"), ("geo4", "g")]
OPNAMES = {"ENU": "toENUCoords", "GEO": "toGeoCoords", "ECEF": "toECEFCoords", "PROJ": "toProjCoords"}


def sim(case):
    """abstract (intended) effect of the operation history of a track case:
    list of ("ok", kind, rec, attached) per op until ("illegal", why).  rec = None | ("P", base token) | ("S", n);
    attached = the positions are still those of the original track (every return conversion used the base
    the track was projected with)"""
    kind, rec, att = case["srid"], None, True
    if case.get("base0") is not None:
        rec = ("S", case["base0"][1]) if case["base0"][0] == "S" else ("P", case["base0"])
    out = []

    def same(a, r):
        """is base argument a the recorded base r?"""
        if a is None:
            return True
        if r is None:
            return False
        if a[0] == "S" or r[0] == "S":
            return a[0] == "S" and r[0] == "S" and a[1] == r[1]
        if r[1] == "first":
            return False
        return geo_diff(base_geo(a), base_geo(r[1])) is None
    for name, arg in case["ops"]:
        if not case["pts"]:
            out.append(("illegal", "empty track"))
            break
        if name == "PROJ":
            if kind == "G" and arg[1] == 2154:
                kind, rec = "N", ("S", 2154)
            else:
                out.append(("illegal", "projection needs a geographic track and SRID 2154"))
                break
        elif name == "ECEF":
            if kind == "N":
                b = arg if arg is not None else (None if rec is None else (["S", rec[1]] if rec[0] == "S" else rec[1]))
                if b is None or b[0] == "S":
                    out.append(("illegal", "ENU -> ECEF needs a point base"))
                    break
                att = att and same(arg, rec)
            kind = "E"
        elif name == "GEO":
            if kind == "N":
                b = arg if arg is not None else (None if rec is None else (["S", rec[1]] if rec[0] == "S" else rec[1]))
                if b is None or (b[0] == "S" and b[1] != 2154):
                    out.append(("illegal", "ENU -> Geo needs a base"))
                    break
                att = att and same(arg, rec)
            if kind != "G":
                kind = "G"
        elif name == "ENU":
            if kind == "G":
                b = arg if arg is not None else ["G"] + case["pts"][0]
                if b[0] == "S":
                    if b[1] != 2154:
                        out.append(("illegal", "unknown SRID"))
                        break
                    rec = ("S", b[1])
                else:
                    rec = ("P", b)
                if arg is None:
                    # the library chooses the base (the first observation, today): the property does not say which point,
                    # so the oracle does not know it; only a return without argument (the recorded base) is attached
                    rec = ("P", "first")
                kind = "N"
            elif kind == "E":
                b = arg if arg is not None else ["E"] + case["pts"][0]
                if b[0] == "S":
                    out.append(("illegal", "int base for an ECEF track"))
                    break
                rec = ("P", b)
                if arg is None:
                    rec = ("P", "first")
                kind = "N"
            else:
                if arg is None or rec is None or arg[0] == "S" or rec[0] == "S":
                    out.append(("illegal", "ENU -> ENU needs the former and the new point base"))
                    break
                rec = ("P", arg)
        out.append(("ok", kind, rec, att))
    return out


class P(Prop):
    id = "C14"
    design_ref = "DESIGN.md section 5, C14"
    M = "TracklibVerif.Props.C14"
    theorems = [
        (M, "TV.C14.pyth_realTrig", "Real.sin/Real.cos satisfy sin^2+cos^2=1, the only hypothesis of the local-frame theorems"),
        (M, "TV.C14.enu_ecef_inverse", "ECEF->ENU and ENU->ECEF are inverse to each other in both orders, for every base (orthogonal rotation)"),
        (M, "TV.C14.base_is_origin", "the local coordinates of the base itself are (0,0,0) (ECEF or Geo base, any trig functions)"),
        (M, "TV.C14.ecef_closed_form", "GeoCoords.toECEFCoords is the closed-form WGS84 formula with a=6378137, f=1/298.257223563, e^2=f(2-f)"),
        (M, "TV.C14.on_ellipsoid", "h = 0 => X^2/a^2 + Y^2/a^2 + Z^2/b^2 = 1 with b = a(1-f)"),
        (M, "TV.C14.height_along_normal", "the position is the foot point plus h times the unit normal of the ellipsoid at the foot point"),
        (M, "TV.C14.lon_recovered", "Geo->ECEF->Geo returns the longitude exactly for lon in (-180,180], |lat| < 90, h > -6378137"),
        (M, "TV.C14.geo_ecef_geo_partial", "on the ellipsoid (h = 0) Geo->ECEF->Geo is the identity (Bowring's formula is exact there)"),
        (M, "TV.C14.geo_enu_geo_reduces", "Geo->ENU->Geo equals Geo->ECEF->Geo and Geo->ENU->ECEF equals Geo->ECEF, for every base"),
        (M, "TV.C14.geo_enu_geo_partial", "on the ellipsoid Geo->ENU->Geo is the identity for every base"),
        (M, "TV.C14.enu_rebase", "ENU(b1)->ENU(b2)->ENU(b1) and ENU(b)->ENU(b) are the identity; rebasing then Geo equals Geo directly"),
        (M, "TV.C14.track_records_base", "Track.toENUCoords converts every position with the base and records base.toGeoCoords(); default base = first observation"),
        (M, "TV.C14.track_round_trip", "whole-track ECEF->ENU->ECEF is the identity; Geo->ENU->ECEF/Geo through the recorded GeoCoords base equals the direct conversion"),
        (M, "TV.C14.lambert_loop_structure", "Lambert-93 forward then inverse: longitude and isometric latitude exact; the original latitude is a fixed point of the loop body, which is a contraction (factor <= 0.007)"),
        (M, "TV.C14.lambert_round_trip", "Lambert-93 forward then inverse returns lon and z exactly and lat within (E^2/(1-E^2))^11 |lat| < 1e-20 degree, for lon, lat in (-90, 90) degrees"),
        (M, "TV.C14.geo_ecef_geo_residual", "every height: Geo->ECEF->Geo returns lon exactly and lat, h as explicit functions (Bowring as coded) of the meridian-plane coordinates, independent of lon = the function the resid stream bounds on a grid; exact height whenever the latitude is exact; zero residual at h = 0"),
        (M, "TV.C14.geo_enu_geo_residual", "every height, every base: Geo->ENU->Geo returns lon exactly and the same two residual functions of (lat, h); the base does not enter"),
        (M, "TV.C14.history_frame", "no step of a history other than an in-place update changes an existing object (conversions leave argument and base alone); an update changes one coordinate of one object"),
        (M, "TV.C14.call_current_values", "a conversion called on heap objects returns the pure conversion of the values point and base(s) hold in the world of the call; same-class conversions return a copy"),
        (M, "TV.C14.update_then_convert", "base object updated in place, then used again: the conversion is about the updated base"),
        (M, "TV.C14.alias_base_is_origin", "b.toENUCoords(b) with the same object as point and base is (0,0,0) (GeoCoords or ECEFCoords)"),
        (M, "TV.C14.track_heap_simulation", "heap-level Track.toENU/toGeo/toECEF/toProj/toENUIfNeeded (getSRID, default base, per-position dispatch, rebinding, Track.base) simulate the pure Track model of T8/T9, errors included"),
        (M, "TV.C14.track_enu_if_needed", "Track.toENUCoordsIfNeeded on a Geo track is toENUCoords() with the first observation as base; any other track is left alone"),
        (M, "TV.C14.track_enu_rebinds_fresh", "after Track.toENUCoords the positions and Track.base are new objects (the recorded base is a copy, never the caller's object); older objects untouched"),
        (M, "TV.C14.track_round_trip_survives_update", "Geo track -> ENU(b) -> caller updates any older object (b included) -> toGeoCoords(): succeeds, positions are their Geo->ECEF->Geo images, Track.base is b as it was"),
        (M, "TV.C14.track_round_trip_recorded_base", "returns without argument (through Track.base) for a base of either class: as coded, positions go forth with the base and back with the record; exact whenever the record denotes the point used (geoToEcef(b.toGeo) = b.toEcef), and then the recorded base has local coordinates (0,0,0)"),
        (M, "TV.C14.recorded_base_denotes_base_used", "that hypothesis holds for every GeoCoords base (any trig functions) and, over the reals, for an ECEFCoords base on the ellipsoid"),
        (M, "TV.C14.track_default_base", "Track.toENUCoords() without argument as coded: first observation at (0,0,0), record = its position (Geo track) / its closed-form inverse (ECEF track); returns without argument exact (ECEF track: when the inverse is exact at the first position)"),
        ("TracklibVerif.Props.C14Num", "TV.C14.number_types_irrelevant", "a position is the same whatever Python type its numbers have: every point-level conversion (Geo/ECEF/ENU in all directions, rebasing, Lambert-93 forward) evaluated with Python's mixed arithmetic on int / bool / numpy integer / Fraction / float coordinates and bases (Model/GeoNum.lean) returns the float-only model's result on float(v); over exact arithmetic, any libm"),
        (M, "TV.C14.track_default_round_trip_survives_update", "Geo track -> toENUCoords() (base chosen by the library) -> caller updates any older object (the first position object included) -> toGeoCoords(): succeeds, positions are their Geo->ECEF->Geo images, Track.base is the first position as it was"),
    ]
    partial = [
        "geo_ecef_geo_partial / geo_enu_geo_partial: exact round trip proved for h = 0. For h != 0 (geo_ecef_geo_residual, geo_enu_geo_residual) the "
        "longitude is exact and latitude/height are reduced to two explicit functions of (lat, h) alone (any longitude, any base); missing: an analytic "
        "bound on these residual functions (Bowring's one-step formula is an approximation, about 2e-13 rad / 1.3e-6 m at 10 km): bounded numerically "
        "on the (lat, h) grid of the resid stream",
    ]
    open_statements = [
        "|bowringLat(p(lat,h), z(lat,h)) - lat| <= 1e-9 deg and |bowringHgt - h| <= 1 mm for |lat| <= 89.9, -1000 <= h <= 10000, h != 0 (needs second-order "
        "control of atan2 compositions): evaluated on a grid (0.5 deg x 500 m in quick, 0.02 deg x 50 m in thorough, shifted by the seed) by model and "
        "implementation, valid for every longitude and base by geo_ecef_geo_residual / geo_enu_geo_residual",
        "Lambert-93 inverse then forward (XY -> Geo -> XY) within 1 mm: follows over the reals from lambert_round_trip only for XY in the image of the forward map; sampled by the transfer check",
        "IEEE rounding of every formula (theorems are over the reals): transfer only",
        "number types in doubles: number_types_irrelevant is over exact arithmetic; in doubles Python's exact int/Fraction operations (X*X + Y*Y, X - base.X) "
        "and the model's rounded ones differ in the last bit: correspondence on the typed cases (`ty`), 1e-7 m for Fraction cases; the whole-track and "
        "heap-level methods on typed numbers are covered by correspondence only (they apply the point-level conversions to each position)",
        "whole-track round trip through the recorded base when the base is an ECEFCoords (explicit, or the first position of an ECEF track "
        "converted without argument) OFF the ellipsoid: proved exact when the record denotes the point used (track_round_trip_recorded_base: every "
        "GeoCoords base, an ECEFCoords base on the ellipsoid); otherwise the code returns enuToEcef(ecefToEnu(p, b), b.toGeoCoords()) (same theorem), "
        "off by Bowring's residual at the base, beyond 1e-9 deg next to the poles: the known finding; a bound on that shift needs the analytic "
        "bound of the first open statement",
    ]
    modelled = ("obs_coords.py: GeoCoords.toECEFCoords/toENUCoords (STANDARD_PROJ == 1 branch)/toProjCoords, ECEFCoords.toGeoCoords/"
                "toENUCoords, ENUCoords.toECEFCoords/toGeoCoords/toENUCoords, _proj/_unproj dispatch, _projToLambert93, "
                "__projFromLambert93 (10 fixed-point passes), constants Re Fe; track.py: Track.toECEFCoords/toENUCoords/"
                "toGeoCoords/toProjCoords (which base is used and recorded, error branches). Model/GeoHeap.lean: the same methods on a heap of "
                "mutable objects: GeoCoords/ENUCoords/ECEFCoords instances with setX/setY/setZ and attribute assignment, the dynamic "
                "dispatch obj.to{ECEF,ENU,Geo,Proj}Coords(*args) with its TypeError/AttributeError/exit branches, copy semantics of "
                "same-class conversions, Track(obs, base=...) sharing its position and base objects, Track.getSRID() (class of the first "
                "position), Track.to*Coords and Track.toENUCoordsIfNeeded rebinding positions and Track.base to new objects. Model/GeoNum.lean: the numbers held by the coordinate attributes (int, bool, numpy integer, "
                "Fraction: exact; float) with Python's mixed arithmetic (+ - * unary minus exact between exact operands, float(x) as soon as one operand "
                "is a float, / and every math function return floats), at which the polymorphic definitions of Model/Geo.lean are instantiated "
                "(theorem number_types_irrelevant; the driver evaluates float(v)). Not modelled: numpy.float32 / int32 coordinates (computed at their own "
                "width under NumPy >= 2), _projFromUTM, "
                "the STANDARD_PROJ == 2 stereographic test branch, the state a raising whole-track conversion leaves behind, plotting.")
    trusted = ["libm sin cos tan atan atan2 sqrt log exp pow: parameters of the model (structure Trig); the driver uses Lean's Float "
               "functions (same system libm as CPython: outputs were bit-identical on every case explored), the theorems use "
               "Mathlib's Real.sin, Real.cos, Real.sqrt, Real.arctan, Complex.arg, Real.rpow, Real.log, Real.exp"]
    rule = ("points: all longitudes incl. 0, +-90, +-180 and values next to them, latitudes in (-89.9, 89.9) incl. equator and +-89.8999.., "
            "heights -1000..10000 m incl. both ends; bases: random on the globe, equal to the point, within metres/kilometres of it, "
            "antipodal, near a pole, on the antimeridian, given as GeoCoords or as ECEFCoords; Lambert-93: lon -5..10, lat 41..51; "
            "tracks of 1..5 such points in Geo/ECEF/ENU with operation histories of 1..5 whole-track conversions "
            "(with and without base argument, SRID 2154, rebasing, error branches); histories (hist) of 3..20 operations on shared "
            "mutable objects: new / in-place update (setter or attribute; one coordinate or all three; bases already used are favoured) / "
            "point conversions with bases given as objects, as track positions, as Track.base, as the point itself / tracks built on "
            "the caller's objects / whole-track conversions, with templates for: one base object serving two places, a base updated "
            "between the two legs of a round trip, a first track warming a base that a second one uses after an update, ENU tracks built "
            "on the caller's base object, a base that is a position of the track, copies; 6% end with a refused call; a whole-track "
            "conversion that leaves the choice of the base to the library (toENUCoords() without argument, toENUCoordsIfNeeded()) is judged "
            "against the base the track has on record after the call, never against an assumed default; number types: 14% of the "
            "pt / l93 / track / hist cases (and a quarter of the enumerated grid a second time) hand their coordinates to the library "
            "as Python int, bool, numpy.int64, numpy.float64 or fractions.Fraction instead of float (`ty`: one type per coordinate "
            "slot lon/E/X, lat/N/Y, hgt/U/Z, applied to points, bases, positions of tracks and in-place updates whenever the value is "
            "exactly representable; int-like slots get integral degrees / metres): heights typed by hand, integer altitude columns, "
            "all-int positions, mixed; the position denoted is the same, so model and oracle see float(v); resid: the "
            "(lat, h) grid of the Geo->ECEF->Geo residual. non-trivial = point differs from the base (pt), any Lambert point, any track "
            "history with at least one legal conversion, any hist with a conversion that is not refused, any resid block")

    def setup(self):
        import tracklib.core.obs_coords as oc
        from tracklib.core.obs import Obs
        from tracklib.core.track import Track
        from tracklib.core.obs_time import ObsTime
        self.oc, self.Obs, self.Track, self.ObsTime = oc, Obs, Track, ObsTime

    # ---------------------------------------------------------------- generators
    def exhaustive_scopes(self, tier):
        return ["grid of special points: lon in {-180,-179.999999,-90,-1e-9,0,1e-9,90,179.999999,180} x lat in "
                "{-89.8999999,-45,-1e-9,0,1e-9,45,89.8999999} x h in {-1000,0,10000}, each with the base equal to the point, "
                "a near base and a far base",
                "residual of Geo->ECEF->Geo at every node of the grid lat = -89.9 + s + i*%s deg (s from the seed), h = -1000 + j*%s m, "
                "plus the two end latitudes +-89.9" % (("0.5", "500") if tier == "quick" else ("0.02", "50"))]

    def rand_geo(self, rng):
        lon = rng.choice([rng.uniform(-180.0, 180.0)] * 6 + [-180.0, 180.0, 0.0, 90.0, -90.0, 179.999999, -179.999999,
                                                             rng.uniform(-1e-6, 1e-6), 180.0 - rng.uniform(0, 1e-6)])
        lat = rng.choice([rng.uniform(-89.9, 89.9)] * 6 + [0.0, 89.8999999, -89.8999999, rng.uniform(89.0, 89.8999),
                                                           rng.uniform(-89.8999, -89.0), rng.uniform(-1e-6, 1e-6), 45.0])
        # uniform on the sphere now and then (more mass at low latitudes)
        if rng.random() < 0.2:
            lat = max(-89.8999, min(89.8999, math.degrees(math.asin(rng.uniform(-1, 1)))))
        h = rng.choice([rng.uniform(-1000.0, 10000.0)] * 4 + [0.0, -1000.0, 10000.0, rng.uniform(-1.0, 1.0)])
        return [lon, lat, h]

    def rand_france(self, rng):
        return [rng.choice([rng.uniform(-5.0, 10.0)] * 5 + [3.0, -5.0, 10.0, 2.337229167]),
                rng.choice([rng.uniform(41.0, 51.0)] * 5 + [41.0, 51.0, 46.5]),
                rng.choice([rng.uniform(-1000.0, 10000.0), 0.0, rng.uniform(0, 500.0)])]

    def near(self, g, rng, scale):
        """a point within roughly `scale` metres"""
        d = scale / 111000.0
        lat = max(-89.8999999, min(89.8999999, g[1] + rng.uniform(-d, d)))
        dl = d / max(math.cos(math.radians(g[1])), 2e-3)
        lon = g[0] + rng.uniform(-dl, dl)
        lon = (lon + 180.0) % 360.0 - 180.0
        h = max(-1000.0, min(10000.0, g[2] + rng.uniform(-scale, scale) * 0.1))
        return [lon, lat, h]

    def as_base(self, g, rng, flavour=None):
        fl = flavour or rng.choice(["G", "G", "E"])
        return ["G"] + list(g) if fl == "G" else ["E"] + o_g2e(g)

    def rand_base(self, g, rng):
        r = rng.random()
        if r < 0.12:
            b = list(g)
        elif r < 0.45:
            b = self.near(g, rng, rng.choice([1.0, 100.0, 1e4, 1e5]))
        elif r < 0.5:
            b = [((g[0] + 360.0) % 360.0) - 180.0, -g[1], rng.uniform(-1000, 10000)]   # antipode
        elif r < 0.56:
            b = [rng.uniform(-180, 180), rng.choice([89.8999999, -89.8999999, rng.uniform(89, 89.8999)]), rng.uniform(-1000, 10000)]
        elif r < 0.62:
            b = [rng.choice([180.0, -180.0, 179.9999999]), rng.uniform(-89.8, 89.8), 0.0]
        else:
            b = self.rand_geo(rng)
        return self.as_base(b, rng)

    # ---- number types (see geo14.py: "ty")
    TYPED = 0.14     # share of the pt / l93 / track / hist cases whose coordinates are handed over as int / bool / numpy / Fraction

    @staticmethod
    def interior(g):
        return [g[0], max(-89.8, min(89.8, g[1])), max(-990.0, min(9990.0, g[2]))]

    def fit_base(self, b, ty, rng):
        if b is None or b[0] == "S":
            return b
        return [b[0]] + fit3(b[0], b[1:], ty, rng)

    def typed_pt(self, case, rng, ty=None):
        ty = ty or rand_ty(rng)
        c = dict(case, ty=ty)
        eq = case["b"][0] == "G" and case["b"][1:] == case["p"]
        if rng.random() < 0.8:
            c["p"] = fit3("G", case["p"], ty, rng)
        for k in ("b", "b2"):
            if rng.random() < 0.75:
                c[k] = self.fit_base(case[k], ty, rng)
        if eq:
            c["b"] = ["G"] + list(c["p"])
        return c

    def typed_l93(self, case, rng, ty=None):
        ty = ty or rand_ty(rng)
        return dict(case, ty=ty, p=fit3("G", case["p"], ty, rng) if rng.random() < 0.8 else case["p"])

    def typed_track(self, case, rng, ty=None):
        """equal values stay equal (a base that is a position of the track, the same base in several operations)"""
        ty = ty or rand_ty(rng)
        c = dict(case, ty=ty)
        cls = case["srid"]
        if rng.random() < 0.8:
            if cls == "E":
                # pulled inside the domain first, so that rounding to metres does not leave it
                c["pts"] = [fit3("E", o_g2e(self.interior(o_e2g(p))), ty) for p in case["pts"]]
            else:
                c["pts"] = [fit3(cls, p, ty) for p in case["pts"]]
        memo = {}

        def fb(b):
            if b is None or b[0] == "S":
                return b
            k = tuple(b)
            if k not in memo:
                memo[k] = self.fit_base(b, ty, None) if rng.random() < 0.75 else list(b)
            return memo[k]
        c["base0"] = fb(case["base0"])
        if "home" in case:
            c["home"] = fb(case["home"])
        c["ops"] = [[n, fb(a)] for n, a in case["ops"]]
        return c

    def maybe_typed(self, case, rng, ty=None, share=None):
        if ty is None and rng.random() >= (self.TYPED if share is None else share):
            return case
        k = case["kind"]
        if k == "pt":
            return self.typed_pt(case, rng, ty)
        if k == "l93":
            return self.typed_l93(case, rng, ty)
        if k == "track":
            return self.typed_track(case, rng, ty)
        if k == "hist":
            return H.typed_hist(case, ty or rand_ty(rng))
        return case

    def cases(self, rng, tier):
        out = self.cases_float(rng, tier)
        # every case after the enumerated grid may be handed over with non-float numbers; the grid itself a second time
        grid = 9 * 7 * 3 * 3
        typed = [self.typed_pt(c, rng) for c in out[:grid] if rng.random() < 0.25]
        return out[:grid] + typed + [self.maybe_typed(c, rng) for c in out[grid:]]

    def cases_float(self, rng, tier):
        out = []
        quick = tier == "quick"
        # enumerated special grid
        for lon in (-180.0, -179.999999, -90.0, -1e-9, 0.0, 1e-9, 90.0, 179.999999, 180.0):
            for lat in (-89.8999999, -45.0, -1e-9, 0.0, 1e-9, 45.0, 89.8999999):
                for h in (-1000.0, 0.0, 10000.0):
                    g = [lon, lat, h]
                    out.append({"kind": "pt", "p": g, "b": self.as_base(g, rng), "b2": self.rand_base(g, rng)})
                    out.append({"kind": "pt", "p": g, "b": self.as_base(self.near(g, rng, 1000.0), rng), "b2": self.rand_base(g, rng)})
                    out.append({"kind": "pt", "p": g, "b": self.as_base(self.rand_geo(rng), rng), "b2": self.rand_base(g, rng)})
        for _ in range(1800 if quick else 34000):
            g = self.rand_geo(rng)
            out.append({"kind": "pt", "p": g, "b": self.rand_base(g, rng), "b2": self.rand_base(g, rng)})
        for lon in (-5.0, 3.0, 10.0):
            for lat in (41.0, 46.5, 51.0):
                out.append({"kind": "l93", "p": [lon, lat, 0.0]})
        for _ in range(500 if quick else 7000):
            out.append({"kind": "l93", "p": self.rand_france(rng)})
        for _ in range(700 if quick else 9000):
            out.append(self.rand_track(rng))
        for _ in range(1500 if quick else 20000):
            out.append(H.rand_hist(self, rng))
        out += self.resid_blocks(rng, tier)
        return out

    def resid_blocks(self, rng, tier):
        """the (latitude, height) grid on which the residual of Geo -> ECEF -> Geo is bounded, cut in blocks of latitudes;
        the grid is shifted by the seed"""
        step, hstep, per = (0.5, 500.0, 30) if tier == "quick" else (0.02, 50.0, 40)
        lat = -89.9 + rng.uniform(0.0, step) * 0.999
        m = int(11000.0 / hstep) + 1
        out = [{"kind": "resid", "lat0": -89.9, "dlat": 179.8, "n": 2, "h0": -1000.0, "dh": hstep, "m": m}]   # both ends
        while lat <= 89.9:
            n = min(per, int((89.9 - lat) / step) + 1)
            out.append({"kind": "resid", "lat0": lat, "dlat": step, "n": n, "h0": -1000.0, "dh": hstep, "m": m})
            lat = lat + per * step
        return out

    # ---- tracks
    def rand_track(self, rng):
        n = rng.choice([2, 3, 4, 5, 2, 3, 1])
        r = rng.random()
        france = r < 0.3
        if france:
            g0 = self.rand_france(rng)
        else:
            g0 = self.rand_geo(rng)
        geo = [g0] + [self.near(g0, rng, rng.choice([10.0, 1000.0, 1e5])) if rng.random() < 0.8 else
                      (self.rand_france(rng) if france else self.rand_geo(rng)) for _ in range(n - 1)]
        if france:
            geo = [[min(10.0, max(-5.0, g[0])), min(51.0, max(41.0, g[1])), g[2]] for g in geo]
        base = self.rand_base(g0, rng)
        base2 = self.rand_base(g0, rng)
        S = ["S", 2154]
        origin = rng.choice(["G", "G", "G", "E", "E", "N"])
        t = rng.random()
        if origin == "G":
            pts = geo
            menu = [
                [["ENU", base], ["GEO", None]],
                [["ENU", None], ["GEO", None]],
                [["ENU", base], ["GEO", base]],
                [["ENU", base], ["ECEF", None], ["GEO", None]],
                [["ECEF", None], ["GEO", None]],
                [["ECEF", None], ["ENU", base], ["ECEF", None], ["GEO", None]],
                [["ECEF", None], ["ENU", None], ["GEO", None]],
                [["ENU", base], ["ENU", base2], ["GEO", None]],
                [["ENU", None], ["ENU", base2], ["ECEF", None], ["GEO", base]],
                [["GEO", None], ["ENU", base], ["ECEF", base], ["ECEF", None], ["GEO", None]],
            ]
            if france:
                menu += [
                    [["PROJ", S], ["GEO", None]],
                    [["ENU", S], ["GEO", None]],
                    [["ENU", S], ["GEO", S]],
                    [["PROJ", S], ["GEO", S], ["ENU", base], ["GEO", None]],
                ] * 2
            bad = [
                [["PROJ", ["S", 4326]]],
                [["ENU", ["S", 1234]]],
                [["ECEF", None], ["ENU", S]],
                [["ECEF", None], ["PROJ", S]],
                [["ENU", base], ["ENU", None]],
                [["ENU", base], ["PROJ", S]],
                [["PROJ", S], ["ECEF", None]],
                [["PROJ", S], ["ENU", base]],
                [["ENU", base], ["GEO", ["S", 4326]]],
                [["ENU", base], ["ENU", S]],
            ]
            ops = rng.choice(bad) if t < 0.1 else rng.choice(menu)
            return {"kind": "track", "srid": "G", "pts": pts, "base0": None, "ops": ops}
        if origin == "E":
            pts = [o_g2e(g) for g in geo]
            menu = [
                [["ENU", None], ["ECEF", None]],
                [["ENU", base], ["ECEF", None]],
                [["ENU", base], ["ECEF", base]],
                [["GEO", None], ["ECEF", None]],
                [["ENU", base], ["GEO", None], ["ECEF", None]],
                [["ENU", None], ["ENU", base2], ["ECEF", None]],
                [["GEO", None], ["ENU", None], ["ECEF", None]],
                [["ECEF", None], ["ENU", base], ["ENU", base2], ["GEO", None], ["ECEF", None]],
            ]
            bad = [[["ENU", S]], [["PROJ", S]], [["ENU", base], ["ENU", None]]]
            ops = rng.choice(bad) if t < 0.08 else rng.choice(menu)
            return {"kind": "track", "srid": "E", "pts": pts, "base0": None, "ops": ops}
        # ENU origin: metres around a home base
        pts = [[rng.uniform(-1e4, 1e4), rng.uniform(-1e4, 1e4), rng.uniform(-100, 1000)] for _ in range(n)]
        if rng.random() < 0.2:
            pts[0] = [0.0, 0.0, 0.0]
        home = self.as_base(self.rand_geo(rng) if not france else g0, rng)
        with_base = rng.random() < 0.7
        a = None if with_base else home
        menu = [
            [["GEO", a], ["ENU", home]],
            [["ECEF", a], ["ENU", home]],
            [["GEO", a], ["ECEF", None], ["ENU", home]],
            [["ECEF", a], ["GEO", None], ["ENU", home]],
        ]
        if with_base:
            menu += [[["ENU", base2], ["ENU", home]], [["ENU", base2], ["GEO", None], ["ENU", home]],
                     [["ENU", base2], ["ECEF", None], ["ENU", home]]]
        bad = [[["GEO", None]], [["ECEF", None]], [["ENU", None]], [["ENU", base2]], [["PROJ", S]]]
        if t < 0.12:
            return {"kind": "track", "srid": "N", "pts": pts, "base0": None if t < 0.09 else S, "home": home,
                    "ops": rng.choice(bad)}
        return {"kind": "track", "srid": "N", "pts": pts, "base0": home if with_base else None, "home": home,
                "ops": rng.choice(menu)}

    def describe(self, case):
        k = case["kind"]
        t = {"kind": k}
        if k != "resid":
            t["num"] = "/".join(case["ty"]) if case.get("ty") else "float"
        if k == "pt":
            lon, lat, h = case["p"]
            t["lat_zone"] = ("equator" if abs(lat) < 1e-3 else "near-pole" if abs(lat) > 89 else "mid")
            t["lon_zone"] = ("antimeridian" if abs(abs(lon) - 180) < 1e-3 else "greenwich" if abs(lon) < 1e-3 else "other")
            t["base"] = case["b"][0] + ("=point" if geo_diff(base_geo(case["b"]), case["p"]) is None else "")
        if k == "track":
            t["origin"] = case["srid"]
            t["ops"] = ">".join(n + ("" if a is None else "(" + a[0] + ")") for n, a in case["ops"])
            t["legal"] = all(s[0] == "ok" for s in sim(case))
            t["n"] = len(case["pts"])
        if k == "hist":
            t.update(H.features(case))
            t["n_ops"] = min(len(case["ops"]), 16)
        return t

    def nontrivial(self, case):
        if case["kind"] == "pt":
            return geo_diff(base_geo(case["b"]), case["p"]) is not None
        if case["kind"] == "track":
            s = sim(case)
            return bool(s) and s[0][0] == "ok"
        if case["kind"] == "hist":
            return any(op[0] in ("call", "tc", "tif") for op in case["ops"][:-1]) or (
                bool(case["ops"]) and case["ops"][-1][0] in ("call", "tc", "tif") and not H.static(case).dead)
        return True

    # ---------------------------------------------------------------- implementation
    def mk_base(self, b, ty=None):
        if b is None:
            return None
        if b[0] == "S":
            return int(b[1])
        return (self.oc.GeoCoords if b[0] == "G" else self.oc.ECEFCoords)(*wrap3(b[1:4], ty))

    @staticmethod
    def xyz(c):
        return [float(c.getX()), float(c.getY()), float(c.getZ())]

    def impl(self, case):
        oc = self.oc
        k = case["kind"]
        ty = case.get("ty")
        if k == "pt":
            g = oc.GeoCoords(*wrap3(case["p"], ty))
            B = lambda: self.mk_base(case["b"], ty)
            B2 = lambda: self.mk_base(case["b2"], ty)
            ecef = g.toECEFCoords()
            geo2 = ecef.toGeoCoords()
            enu = g.toENUCoords(B())
            geo3 = enu.toGeoCoords(B())
            enuE = ecef.toENUCoords(B())
            ecef2 = enuE.toECEFCoords(B())
            baseEnu = B().toENUCoords(B())
            enu2 = enu.toENUCoords(B(), B2())
            geo4 = enu2.toGeoCoords(B2())
            vals = [ecef, geo2, enu, geo3, enuE, ecef2, baseEnu, enu2, geo4]
            return {name: self.xyz(v) for (name, _), v in zip(PT_FIELDS, vals)}
        if k == "l93":
            g = oc.GeoCoords(*wrap3(case["p"], ty))
            f = g.toProjCoords(2154)
            i = f.toGeoCoords(2154)
            f2 = i.toProjCoords(2154)
            return {"fwd": self.xyz(f), "inv": self.xyz(i), "fwd2": self.xyz(f2)}
        if k == "track":
            cls = {"G": oc.GeoCoords, "E": oc.ECEFCoords, "N": oc.ENUCoords}[case["srid"]]
            tr = self.Track([self.Obs(cls(*wrap3(p, ty)), self.ObsTime()) for p in case["pts"]], base=self.mk_base(case["base0"], ty))
            states, err = [], None
            for name, arg in case["ops"]:
                try:
                    if name == "PROJ":
                        tr.toProjCoords(int(arg[1]))
                    else:
                        getattr(tr, OPNAMES[name])(self.mk_base(arg, ty))
                    states.append(self.state(tr))
                except BaseException as e:
                    if isinstance(e, KeyboardInterrupt):
                        raise
                    err = err_kind(e)
                    break
            return {"states": states, "err": err}
        if k == "hist":
            return H.Runner(oc, self.Obs, self.Track, self.ObsTime, ty).run(case)
        if k == "resid":
            r = {"dlat": 0.0, "at": [0.0, 0.0], "dh": 0.0, "ath": [0.0, 0.0], "lon": 0.0}
            for i in range(case["n"]):
                lat = case["lat0"] + float(i) * case["dlat"]
                for j in range(case["m"]):
                    h = case["h0"] + float(j) * case["dh"]
                    q = oc.GeoCoords(0.0, lat, h).toECEFCoords().toGeoCoords()
                    e1, e2, e0 = abs(q.lat - lat), abs(q.hgt - h), abs(q.lon)
                    if not e1 <= r["dlat"]:
                        r["dlat"], r["at"] = e1, [lat, h]
                    if not e2 <= r["dh"]:
                        r["dh"], r["ath"] = e2, [lat, h]
                    if not e0 <= r["lon"]:
                        r["lon"] = e0
            return r
        raise ValueError(k)

    def state(self, tr):
        oc = self.oc
        kinds = {oc.GeoCoords: "G", oc.ENUCoords: "N", oc.ECEFCoords: "E"}
        ks = {kinds[type(tr.getObs(i).position)] for i in range(tr.size())}
        b = tr.base
        if b is None:
            base = None
        elif isinstance(b, int):
            base = ["S", b]
        else:
            base = [kinds[type(b)]] + self.xyz(b)
        return {"kind": ks.pop() if len(ks) == 1 else "mixed", "pts": [self.xyz(tr.getObs(i).position) for i in range(tr.size())],
                "base": base}

    # ---------------------------------------------------------------- model
    @staticmethod
    def tok_base(b):
        return "%s %s %s %s" % (b[0], fbits(b[1]), fbits(b[2]), fbits(b[3]))

    @staticmethod
    def tok_barg(b):
        if b is None:
            return "_"
        if b[0] == "S":
            return "S,%d" % b[1]
        return "%s,%s,%s,%s" % (b[0], fbits(b[1]), fbits(b[2]), fbits(b[3]))

    def requests(self, case):
        k = case["kind"]
        if k == "pt":
            return ["C14.pt %s %s %s" % (" ".join(fbits(v) for v in case["p"]), self.tok_base(case["b"]), self.tok_base(case["b2"]))]
        if k == "l93":
            return ["C14.lamb " + " ".join(fbits(v) for v in case["p"])]
        if k == "track":
            pts = ";".join(",".join(fbits(v) for v in p) for p in case["pts"]) or "_"
            ops = " ".join("%s:%s" % (n, self.tok_barg(a)) for n, a in case["ops"])
            return ["C14.track %s %s %s %s" % (case["srid"], pts, self.tok_barg(case["base0"]), ops)]
        if k == "hist":
            return [H.request(case)]
        if k == "resid":
            return ["C14.resid %s %s %d %s %s %d" % (fbits(case["lat0"]), fbits(case["dlat"]), case["n"],
                                                     fbits(case["h0"]), fbits(case["dh"]), case["m"])]

    def decode(self, case, replies):
        k = case["kind"]
        r = replies[0]
        if r == "bad-request":
            raise ValueError("driver: bad-request")
        if k == "hist":
            return H.decode(r)
        if k == "resid":
            v = [bitsf(t) for t in r.split()]
            assert len(v) == 6
            return {"dlat": v[0], "at": v[1:3], "dh": v[3], "ath": v[4:6]}
        if k == "pt":
            v = [bitsf(t) for t in r.split()]
            assert len(v) == 27
            return {name: v[3 * i:3 * i + 3] for i, (name, _) in enumerate(PT_FIELDS)}
        if k == "l93":
            v = [bitsf(t) for t in r.split()]
            assert len(v) == 9
            return {"fwd": v[0:3], "inv": v[3:6], "fwd2": v[6:9]}
        if k == "track":
            toks = r.split()
            states, err = [], None
            i = 0
            while i < len(toks):
                if toks[i].startswith("err:"):
                    err = toks[i]
                    break
                kind, pts, b = toks[i:i + 3]
                i += 3
                P_ = [] if pts == "_" else [[bitsf(t) for t in p.split(",")] for p in pts.split(";")]
                if b == "_":
                    base = None
                else:
                    bb = b.split(",")
                    base = ["S", int(bb[1])] if bb[0] == "S" else [bb[0]] + [bitsf(t) for t in bb[1:]]
                states.append({"kind": kind, "pts": P_, "base": base})
            return {"states": states, "err": err}

    def compare(self, case, impl_out, model_out):
        k = case["kind"]
        if k == "hist":
            if "steps" not in impl_out:
                return "implementation raised %s (%s)" % (impl_out.get("err"), impl_out.get("detail"))
            return H.compare(case, impl_out, model_out)
        if k == "resid":
            if "dlat" not in impl_out:
                return "implementation raised %s (%s)" % (impl_out.get("err"), impl_out.get("detail"))
            if not (_c(impl_out["dlat"], model_out["dlat"], 1e-12) and _c(impl_out["dh"], model_out["dh"], 1e-8)):
                return "largest residuals on the block: impl=(%r deg at %r, %r m at %r) model=(%r deg at %r, %r m at %r)" % (
                    impl_out["dlat"], impl_out["at"], impl_out["dh"], impl_out["ath"],
                    model_out["dlat"], model_out["at"], model_out["dh"], model_out["ath"])
            return None
        if "states" not in impl_out and "err" in impl_out:
            return "implementation raised %s (%s); model=%s" % (impl_out["err"], impl_out.get("detail"), str(model_out)[:200])
        close_m, close_geo = corr_close_m(case), corr_close_geo(case)
        if k == "pt":
            for name, typ in PT_FIELDS:
                a, b = impl_out[name], model_out[name]
                if not (close_geo(a, b) if typ == "g" else close_m(a, b)):
                    return "%s: impl=%r model=%r" % (name, a, b)
            return None
        if k == "l93":
            for name, typ in (("fwd", "m"), ("inv", "g"), ("fwd2", "m")):
                a, b = impl_out[name], model_out[name]
                if not (close_geo(a, b) if typ == "g" else close_m(a, b)):
                    return "%s: impl=%r model=%r" % (name, a, b)
            return None
        if k == "track":
            if impl_out["err"] != model_out["err"]:
                return "error: impl=%s model=%s" % (impl_out["err"], model_out["err"])
            if len(impl_out["states"]) != len(model_out["states"]):
                return "number of completed operations: impl=%d model=%d" % (len(impl_out["states"]), len(model_out["states"]))
            for j, (a, b) in enumerate(zip(impl_out["states"], model_out["states"])):
                if a["kind"] != b["kind"]:
                    return "op %d: kind impl=%s model=%s" % (j, a["kind"], b["kind"])
                f = close_geo if a["kind"] == "G" else close_m
                if len(a["pts"]) != len(b["pts"]) or not all(f(x, y) for x, y in zip(a["pts"], b["pts"])):
                    return "op %d: positions impl=%r model=%r" % (j, a["pts"], b["pts"])
                ba, bb = a["base"], b["base"]
                if (ba is None) != (bb is None) or (ba is not None and (ba[0] != bb[0] or (
                        ba[1:] != bb[1:] if ba[0] == "S" else not (close_geo if ba[0] == "G" else close_m)(ba[1:], bb[1:])))):
                    return "op %d: recorded base impl=%r model=%r" % (j, ba, bb)
            return None

    # ---------------------------------------------------------------- oracle (transfer)
    def spec(self, case, out):
        k = case["kind"]
        if k == "hist":
            return H.spec(case, out)
        if k == "resid":
            if "dlat" not in out:
                return "conversion raised %s: %s" % (out.get("err"), out.get("detail"))
            if not out["dlat"] <= TOL_DEG:
                return "Geo -> ECEF -> Geo of [0.0, %r, %r] returns a latitude off by %r deg" % (out["at"][0], out["at"][1], out["dlat"])
            if not out["dh"] <= TOL_M:
                return "Geo -> ECEF -> Geo of [0.0, %r, %r] returns a height off by %r m" % (out["ath"][0], out["ath"][1], out["dh"])
            if not out["lon"] <= TOL_DEG:
                return "Geo -> ECEF -> Geo on the meridian 0 returns a longitude off by %r deg (block %r)" % (out["lon"], case)
            return None
        if "states" not in out and "err" in out:
            return "conversion raised %s: %s" % (out["err"], out.get("detail"))
        if k == "pt":
            p = case["p"]
            d = m_diff(out["ecef"], o_g2e(p))
            if d:
                return "ECEF of %r is %r, closed-form WGS84 gives %r: %s" % (p, out["ecef"], o_g2e(p), d)
            for name, what in (("geo2", "Geo -> ECEF -> Geo"), ("geo3", "Geo -> ENU -> Geo (base %r)" % (case["b"],)),
                               ("geo4", "Geo -> ENU(base) -> ENU(base2) -> Geo (bases %r, %r)" % (case["b"], case["b2"]))):
                d = geo_diff(out[name], p)
                if d:
                    return "%s of %r returns %r: %s" % (what, p, out[name], d)
            d = m_diff(out["ecef2"], out["ecef"])
            if d:
                return "ECEF -> ENU -> ECEF (base %r) of %r returns %r: %s" % (case["b"], out["ecef"], out["ecef2"], d)
            d = m_diff(out["baseEnu"], [0.0, 0.0, 0.0])
            if d:
                return "local coordinates of the base %r itself are %r" % (case["b"], out["baseEnu"])
            return None
        if k == "l93":
            p = case["p"]
            d = geo_diff(out["inv"], p)
            if d:
                return "Lambert-93 forward then inverse of %r returns %r: %s" % (p, out["inv"], d)
            d = m_diff(out["fwd2"], out["fwd"])
            if d:
                return "Lambert-93 inverse then forward of %r returns %r: %s" % (out["fwd"], out["fwd2"], d)
            return None
        if k == "track":
            return self.spec_track(case, out)

    def spec_track(self, case, out):
        exp = sim(case)
        origin = case["srid"]
        if origin == "G":
            truth = case["pts"]
        elif origin == "E":
            truth = [o_e2g(p) for p in case["pts"]]
        else:
            truth = None
        for j, e in enumerate(exp):
            opname = "%s(%s)" % (OPNAMES[case["ops"][j][0]], case["ops"][j][1])
            if e[0] == "illegal":
                return None      # the property says nothing about refused conversions (error kind: correspondence)
            if j >= len(out["states"]):
                return "operation %d %s failed with %s on a track in %s coordinates with base %r" % (
                    j, opname, out["err"], exp[j - 1][1] if j else origin, exp[j - 1][2] if j else case.get("base0"))
            st = out["states"][j]
            _, kind, rec, att = e
            if st["kind"] != kind or len(st["pts"]) != len(case["pts"]):
                return "after %s the track holds %s positions (%d), expected %s (%d)" % (opname, st["kind"], len(st["pts"]), kind, len(case["pts"]))
            # --- the base recorded by the conversion
            if kind == "N" and case["ops"][j][0] in ("ENU", "PROJ"):
                if rec[0] == "S":
                    if st["base"] != ["S", rec[1]]:
                        return "after %s Track.base is %r, expected the SRID %d" % (opname, st["base"], rec[1])
                else:
                    if st["base"] is None or st["base"][0] != "G":
                        return "after %s Track.base is %r, expected the base as GeoCoords" % (opname, st["base"])
                    # a base passed explicitly must be the one recorded; without argument the code is free to pick
                    # (it takes the first observation: model + correspondence), the round trip below ties it down
                    want = None if (rec[1] == "first" or case["ops"][j][1] is None) else base_geo(rec[1])
                    if want is not None:
                        d = geo_diff(st["base"][1:], want)
                        if d:
                            return "after %s Track.base is %r but the base used is %r: %s" % (opname, st["base"], want, d)
                    # "the local coordinates of the base itself are (0,0,0)": when the recorded base is one of the
                    # observations of the track, that observation must sit at the local origin
                    if truth is not None and att:
                        for i, t in enumerate(truth):
                            if geo_diff(st["base"][1:], t) is None and all(abs(a - b) < 1e-12 for a, b in zip(st["base"][1:3], t[:2])):
                                d = m_diff(st["pts"][i], [0.0, 0.0, 0.0])
                                if d:
                                    return "after %s Track.base is observation %d (%r) but its local coordinates are %r" % (
                                        opname, i, st["base"], st["pts"][i])
            # --- positions
            if not att:
                continue
            if truth is not None:
                if kind == "G":
                    for q, t in zip(st["pts"], truth):
                        d = geo_diff(q, t)
                        if d:
                            return "after %s position %r should be %r: %s" % (opname, q, t, d)
                elif kind == "E":
                    for i, (q, t) in enumerate(zip(st["pts"], truth)):
                        w = case["pts"][i] if origin == "E" else o_g2e(t)
                        d = m_diff(q, w)
                        if d:
                            return "after %s ECEF position %r should be %r: %s" % (opname, q, w, d)
            else:
                if kind == "N" and rec is not None and rec[0] == "P" and rec[1] != "first" and \
                        geo_diff(base_geo(rec[1]), base_geo(case["home"])) is None:
                    for q, t in zip(st["pts"], case["pts"]):
                        d = m_diff(q, t)
                        if d:
                            return "after %s local position %r should be the original %r: %s" % (opname, q, t, d)
        return None

    # ---------------------------------------------------------------- known finding
    FINDING_CLASS = "track-base-recorded-through-closed-form-inverse-and-point-within-0.6deg-of-a-pole"

    def classify(self, case, impl_out, msg):
        """The one listed class: a whole-track conversion to ENU whose base is an ECEFCoords (explicit argument, or the
        first observation of an ECEF track) records the base as ECEFCoords.toGeoCoords() of it; that closed-form inverse is
        off by up to 1.4e-6 m (Bowring one-step truncation, grows as h^2) for heights up to 10 km, every position converted back with the recorded base is shifted by
        that much, and for a position within 0.6 degree of a pole this is more than 1e-9 degree of longitude (never more
        than 1e-8 degree; latitude and height stay within the bounds)."""
        import re
        if case.get("kind") == "hist" and msg:
            return self.FINDING_CLASS if H.finding_recorded_base(case, msg) else None
        if case.get("kind") != "track" or case["srid"] == "N" or not msg:
            return None
        m = re.search(r"angles differ by \(([-+.\de]+), ([-+.\de]+)\) deg$", msg)
        if not m or float(m.group(1)) > 1e-8 or float(m.group(2)) > TOL_DEG:
            return None
        truth = case["pts"] if case["srid"] == "G" else [o_e2g(p) for p in case["pts"]]
        if not any(abs(g[1]) >= 89.4 for g in truth):
            return None
        kind = case["srid"]
        for (name, arg), e in zip(case["ops"], sim(case)):
            if e[0] != "ok":
                break
            if name == "ENU" and ((arg is not None and arg[0] == "E") or (arg is None and kind == "E")):
                return self.FINDING_CLASS
            kind = e[1]
        return None

    # ---------------------------------------------------------------- shrinking / search
    def shrink(self, case):
        k = case["kind"]
        ty = case.get("ty")
        if ty:
            # do the number types matter at all? which slot? would a plain int do?
            yield {a: b for a, b in case.items() if a != "ty"}
            for c in range(3):
                if ty[c] != "f":
                    q = list(ty)
                    q[c] = "f"
                    if any(t != "f" for t in q):
                        yield dict(case, ty=q)
            for c in range(3):
                if ty[c] not in ("f", "int"):
                    q = list(ty)
                    q[c] = "int"
                    yield dict(case, ty=q)
        if k == "hist":
            yield from H.shrink(case)
        if k == "resid" and (case["n"] > 1 or case["m"] > 1):
            # the single worst nodes of the block
            for i in range(case["n"]):
                yield dict(case, lat0=case["lat0"] + float(i) * case["dlat"], n=1)
            for j in range(case["m"]):
                yield dict(case, h0=case["h0"] + float(j) * case["dh"], m=1)
        if k == "pt":
            p = case["p"]
            if case["b2"] != case["b"]:
                yield dict(case, b2=case["b"])
            if case["b"][0] == "E":
                yield dict(case, b=["G"] + o_e2g(case["b"][1:]))
            for nd in (0, 3):
                q = [round(v, nd) for v in p]
                if q != p and abs(q[1]) < 89.9:
                    yield dict(case, p=q)
                if case["b"][0] == "G":
                    bq = ["G"] + [round(v, nd) for v in case["b"][1:]]
                    if bq != case["b"] and abs(bq[2]) < 89.9:
                        yield dict(case, b=bq)
            if p[2] != 0.0:
                yield dict(case, p=[p[0], p[1], 0.0])
        if k == "l93":
            p = case["p"]
            for nd in (0, 3):
                q = [round(v, nd) for v in p]
                if q != p:
                    yield dict(case, p=q)
        if k == "track":
            n = len(case["pts"])
            if n > 1:
                for i in range(n - 1, -1, -1):
                    yield dict(case, pts=case["pts"][:i] + case["pts"][i + 1:])
            ops = case["ops"]
            for i in range(len(ops) - 1, -1, -1):
                yield dict(case, ops=ops[:i] + ops[i + 1:])
            if case["srid"] == "G":
                q = [[round(v, 3) for v in p] for p in case["pts"]]
                if q != case["pts"] and all(abs(p[1]) < 89.9 for p in q):
                    yield dict(case, pts=q)

    def mutate(self, case, rng):
        """neighbours of a disagreeing case: same stream, near-by values, handed over in the number types of the case
        (a float case: now and then in other types)"""
        for c in self.mutate_float(case, rng):
            yield self.maybe_typed(c, rng, case.get("ty"), share=0.3)

    def mutate_float(self, case, rng):
        k = case["kind"]
        if k == "pt":
            for _ in range(6):
                g = self.near(case["p"], rng, 1e4)
                yield {"kind": "pt", "p": g, "b": self.rand_base(g, rng), "b2": self.rand_base(g, rng)}
        elif k == "l93":
            for _ in range(6):
                yield {"kind": "l93", "p": self.rand_france(rng)}
        elif k == "hist":
            for _ in range(6):
                yield H.rand_hist(self, rng)
        elif k == "track":
            for _ in range(6):
                yield self.rand_track(rng)
        elif k == "resid":
            # points of the block, at any longitude, with any base
            for _ in range(6):
                lat = case["lat0"] + rng.random() * case["dlat"] * max(1, case["n"] - 1)
                g = [rng.uniform(-180.0, 180.0), max(-89.8999999, min(89.8999999, lat)),
                     max(-1000.0, min(10000.0, case["h0"] + rng.random() * case["dh"] * max(1, case["m"] - 1)))]
                yield {"kind": "pt", "p": g, "b": self.rand_base(g, rng), "b2": self.rand_base(g, rng)}


# ---- tie to the source by translation (tools/py2lean.py -> lean/TracklibVerif/Gen/ObsCoords.lean, regenerated on every run)
P.tie_modules = ["TracklibVerif.Tie.C14"]
P.theorems = P.theorems + [
    ("TracklibVerif.Tie.C14", "TV.Tie.C14.tie_geoToEcef", "whenever the Lean translation of the CURRENT source of GeoCoords.toECEFCoords returns, it returns the model's geoToEcef (all inputs; integer literals 1, 2 = 1.0, 2.0)"),
    ("TracklibVerif.Tie.C14", "TV.Tie.C14.tie_ecefToEnu", "whenever the translation of the CURRENT source of ECEFCoords.toENUCoords returns, it returns the model's ecefToEnu (base.toECEFCoords() read as the model's base.toEcef)"),
    ("TracklibVerif.Tie.C14", "TV.Tie.C14.tie_enuToEcef", "whenever the translation of the CURRENT source of ENUCoords.toECEFCoords returns, it returns the model's enuToEcef (base.toECEFCoords() read as the model's base.toEcef)"),
    ("TracklibVerif.Tie.C14", "TV.Tie.C14.tie_ecefToGeo", "whenever the translation of the CURRENT source of ECEFCoords.toGeoCoords returns, it returns the model's ecefToGeo (all inputs; integer literals 1, 2, 3 = 1.0, 2.0, 3.0)"),
]
