"""C07 — a returned shortest path is a real, optimal, geometrically continuous route (tracklib/core/network.py).

Every case is a SESSION on one `Network` object: a graph with node positions and edge polylines, how it is built
(`ids`, `build`, `af`), and a sequence of calls (`ops`):
    ["P", s, t, cut, d]   shortest_path(s, t, cut[, output_dict])
    ["D", s, t|"-", cut, d]   shortest_distance(s, t | None, cut[, output_dict])
    ["F", s, t|"-", cut, d]   run_routing_forward(s, t | None, cut[, output_dict])
    ["B", t]              run_routing_backward(t) on the flags left by the last search
A node argument is "3" (the id), "o3" (the network's Node object) or "f3" (a fresh Node object with that id); "scribble": every returned track is modified by the caller afterwards;
`d` = 1: the session's output_dict is passed. Cases without "ops" query every ordered pair with `shortest_path`
(s-major) on the same object; "seq": "euler" = a sequence of `shortest_path` calls in which every ordered pair of
queries occurs consecutively.

Cases with "mut": 1 MODIFY the network between the calls (kind "mut" / "mut-float"); their ops also contain
    ["W", id, w, how]          the weight of edge `id` becomes w (how 0: getEdge(id).weight = w, 1: net[k].weight = w, 2: EDGES[id].weight = w)
    ["G", id, line, how]       the polyline of edge `id` becomes `line` (how 0: getEdge(id).geom = Track(...), 1: its points are moved in place
                               when the number of vertices allows it)
    ["C", v, x, y, how]        node v moves to (x, y) (how 0: getNode(v).coord = ENUCoords(...), 1: the coordinate object is moved in place)
    ["E", [id,s,t,w,o], line, [sx,sy,tx,ty]]   addEdge(edge, Node(s, (sx,sy)), Node(t, (tx,ty))) on the built network
    ["N", v, x, y]             addNode(Node(v, (x,y)))
    ["O", id, o]               getEdge(id).orientation = o   (generated only when the finding ORI_FROZEN is listed, see classify)
"late": nodes that the build does not register (no initial edge): they enter the network by an E / N op. The oracle replays
the modifications on its own copy of the content (`Content`) and judges every query against the content of THAT moment.

Cases with "fam": 1 (kinds fam / fam-ex) are FAMILIES of Network objects that share their Node and Edge objects: "fops" =
[[k, op], …], op being a call on network k, ["X", s, cut] = nets.append(nets[k].sub_network(s, cut)) (result kept and used).
`fam_split` turns a family into one "mut" session per network; model, comparison and oracle run per network (see there)."""
import itertools, os, tempfile
from fractions import Fraction
from engine import Prop, fbits, bitsf
from props import netcommon as nc


TOL = Fraction(1, 10**9)


def alt(x, y):
    """the altitude given to every vertex and node at (x, y): the returned geometry must carry it along"""
    return 100 + 3 * x - 2 * y


def cutval(tokn, fl=False):
    """cut-off token -> exact number (float cases: the token is the repr of the float handed to tracklib)"""
    if tokn == "none":
        return None
    return Fraction(float(tokn)) if fl else Fraction(tokn)


def cutpy(tokn, fl=False):
    return float(tokn) if fl else nc.pynum(tokn)


def within(d, c, fl=False):
    """the true distance d does not exceed the cut-off c (float cases: clearly, by more than the rounding of the sums)"""
    if d is None:
        return False
    if c is None:
        return True
    return d <= c - TOL * max(1, abs(c)) if fl else d <= c


def same(a, b, fl=False):
    """equal numbers (float cases: up to the rounding of the sums, 1e-9 relative)"""
    return abs(a - b) <= TOL * max(1, abs(a), abs(b)) if fl else a == b


def optimal_walks(n, edges, d, s, t, cap=2, fl=False):
    """min(2, number of walks of permitted arcs from s to t != s whose weight is d[s][t]) (walks as edge sequences;
    zero-weight cycles give infinitely many). Linear: in the sub-graph of the tight arcs that lie on some optimal walk
    to t, there are two walks iff some node has two outgoing arcs or t has one."""
    if d[s][t] is None:
        return 0
    tight = [(u, v) for (u, v, w, i) in nc.arcs(edges)
             if d[s][u] is not None and d[s][v] is not None and same(d[s][u] + w, d[s][v], fl)]
    fwd, bwd = {}, {}
    for (u, v) in tight:
        fwd.setdefault(u, []).append(v)
        bwd.setdefault(v, []).append(u)

    def closure(start, adj):
        seen, stack = {start}, [start]
        while stack:
            for y in adj.get(stack.pop(), []):
                if y not in seen:
                    seen.add(y)
                    stack.append(y)
        return seen
    R = closure(s, fwd) & closure(t, bwd)
    if t not in R or s not in R:
        return 0
    out = {}
    for (u, v) in tight:
        if u in R and v in R:
            out[u] = out.get(u, 0) + 1
    if out.get(t, 0) > 0 or any(k > 1 for k in out.values()):
        return 2
    return 1


def de_bruijn_pairs(q):
    """a sequence over range(q) of length q*q+1 in which every ordered pair (a, b) occurs consecutively exactly once
    (Eulerian circuit of the complete digraph with loops)"""
    nxt = [0] * q
    stack = [0]
    circuit = []
    while stack:
        v = stack[-1]
        if nxt[v] < q:
            w = nxt[v]
            nxt[v] += 1
            stack.append(w)
        else:
            circuit.append(stack.pop())
    return circuit[::-1]


def idx(a):
    return int(a.lstrip("of"))


def ops_of(case):
    if "ops" in case:
        return case["ops"]
    n = case["n"]
    cut = case.get("cut", "none")
    pairs = [(s, t) for s in range(n) for t in range(n)]
    if case.get("seq") == "euler":
        pairs = [pairs[k] for k in de_bruijn_pairs(len(pairs))]
    return [["P", str(s), str(t), cut, 0] for (s, t) in pairs]


def eff_order(case):
    """node insertion order of the network as built (the nodes are created by addEdge in the lazy mode)"""
    if case.get("build") not in ("lazy", "reader"):
        return list(case["order"])
    out = []
    for (_, s, t, _, _) in nc.expand(case):
        for v in (s, t):
            if v not in out:
                out.append(v)
    return out + [v for v in case["order"] if v not in out]


def build_calls(case):
    """the addNode / addEdge calls that build the network of a case, with the coordinates of every Node object handed over:
    {"pre": [[v,x,y]…] addNode calls before the edges, "ends": per edge [sx,sy,tx,ty], "post": addNode calls after}.
    recoord: a Node object given for an id that is already registered carries OTHER coordinates (the first registration
    must win)."""
    build = case.get("build", "plain")
    pos = case["pos"]
    edges = nc.expand(case)
    seen = set()

    def coord(v):
        if v in seen and case.get("recoord"):
            return [pos[v][0] + 17, pos[v][1] - 5]
        seen.add(v)
        return list(pos[v])
    pre, ends, post = [], [], []
    late = set(case.get("late", []))
    if build in ("plain", "fresh"):
        pre = [[v] + coord(v) for v in case["order"] if v not in late]
    for k, (i, s, t, w, o) in enumerate(edges):
        if build == "reader":
            l = case["lines"][k]
            seen.update((s, t))
            ends.append(list(l[0]) + list(l[-1]))
        elif build == "plain":
            ends.append(list(pos[s]) + list(pos[t]))
        else:
            cs = coord(s)
            ends.append(cs + coord(t))
    if build in ("lazy", "reader"):
        post = [[v] + coord(v) for v in case["order"] if v not in late]
    return {"pre": pre, "ends": ends, "post": post}


def build_net(mods, case):
    """the real Network of a case.
    ids:   "int" node ids 0..n-1, edge ids as given | "str" node ids 'A','B',… (same order), edge ids 'e<id>'
    build: "plain" every node added first (in `order`), the same Node objects given to addEdge |
           "fresh" as plain, but addEdge is given fresh Node objects with the same ids (what NetworkReader does) |
           "lazy"  nodes are created by addEdge, then addNode is called for every node (registers the isolated ones) |
           "reader" the edges are written to a CSV file (WKT geometries, str ids, weight and direction columns) and read by
                   NetworkReader.readFromFile (which computes abs_curv on every geometry: an analytical feature); then addNode
                   for every node. Needs >= 2 vertices per edge and polylines joining the node positions.
    af:    every edge geometry with at least one vertex carries an analytical feature
    recoord: see build_calls"""
    Network, Node, Edge, Track, Obs, ENUCoords, ObsTime = mods
    build = case.get("build", "plain")
    strids = case.get("ids", "int") == "str" or build == "reader"
    nid = (lambda v: chr(65 + v)) if strids else (lambda v: v)
    eid = (lambda i: "e%d" % i) if strids else (lambda i: i)
    pos = case["pos"]
    mk = lambda v: Node(nid(v), ENUCoords(pos[v][0], pos[v][1], alt(pos[v][0], pos[v][1])))
    mkc = lambda v, x, y: Node(nid(v), ENUCoords(x, y, alt(x, y)))
    calls = build_calls(case)
    if build == "reader":
        from tracklib.io import NetworkReader, NetworkFormat
        fmt = NetworkFormat({"name": "c07", "pos_edge_id": 0, "pos_source": 1, "pos_target": 2, "pos_wkt": 3, "pos_weight": 4,
                             "pos_direction": 5, "separator": ";", "header": 1, "srid": "ENU"})
        with tempfile.TemporaryDirectory() as tmp:
            path = os.path.join(tmp, "network.csv")
            with open(path, "w") as fh:
                fh.write("edge;source;target;wkt;weight;direction\n")
                for k, (i, s, t, w, o) in enumerate(nc.expand(case)):
                    fh.write("%s;%s;%s;LINESTRING(%s);%r;%d\n" % (eid(i), nid(s), nid(t), ", ".join("%r %r %r" % (float(x), float(y), float(alt(x, y))) for x, y in case["lines"][k]),
                                                               float(nc.pynum(w)), o))
            net = NetworkReader.readFromFile(path, fmt, verbose=False)
        for (v, x, y) in calls["post"]:
            net.addNode(mkc(v, x, y))
        return net, nid, eid, mk
    net = Network()
    nodes = {}
    for (v, x, y) in calls["pre"]:
        nodes[v] = mkc(v, x, y)
        net.addNode(nodes[v])
    for k, (i, s, t, w, o) in enumerate(nc.expand(case)):
        tr = Track([Obs(ENUCoords(x, y, alt(x, y)), ObsTime()) for (x, y) in case["lines"][k]])
        if case.get("af") and len(case["lines"][k]) > 0:
            tr.createAnalyticalFeature("speed", 1.0)
        e = Edge(eid(i), tr)
        e.orientation = o
        e.weight = nc.pynum(w)
        if build == "plain":
            net.addEdge(e, nodes[s], nodes[t])
        else:
            sx, sy, tx, ty = calls["ends"][k]
            net.addEdge(e, mkc(s, sx, sy), mkc(t, tx, ty))
    for (v, x, y) in calls["post"]:
        net.addNode(mkc(v, x, y))
    return net, nid, eid, mk


# ------------------------------------------------------------------------------------ geometry
def geometry_ext(rng, n, edges, box=3, loose=False):
    """node positions on the integer lattice (some coincide); per edge a polyline from its source's position to its
    target's with 1-5 vertices: straight, bent, with repeated consecutive vertices, coming back over an end point or
    passing over another node's position, closed loops. loose: the polylines ignore the node positions (0-4 vertices)."""
    pos = []
    for v in range(n):
        if pos and rng.random() < 0.2:
            pos.append(list(rng.choice(pos)))
        else:
            pos.append([rng.randint(0, box), rng.randint(0, box)])
    pt_ = lambda: [rng.randint(-1, box + 1), rng.randint(-1, box + 1)]
    lines = []
    for (_, s, t, _, _) in edges:
        if loose:
            lines.append([pt_() for _ in range(rng.choice([0, 1, 2, 2, 3, 4]))])
            continue
        ps, pt = list(pos[s]), list(pos[t])
        r = rng.random()
        if ps == pt and r < 0.3:
            l = [ps]
        elif r < 0.45:
            l = [ps, pt]
        elif r < 0.6:
            l = [ps, pt_(), pt]
        elif r < 0.7:
            l = [ps, pt_(), pt_(), pt]
        elif r < 0.8:                    # a repeated consecutive vertex
            l = rng.choice([[ps, ps, pt], [ps, pt, pt], [ps, ps, pt, pt]])
            if rng.random() < 0.5:
                m = pt_()
                l = [ps, m, m, pt]
        elif r < 0.9:                    # comes back over an end point / passes over a node
            m = pt_()
            l = rng.choice([[ps, m, ps, pt], [ps, pt, m, pt], [ps, list(rng.choice(pos)), pt], [ps, pt, ps, pt]])
        else:
            m = pt_()
            l = [ps, m, pt_(), m, pt]
        lines.append([list(p) for p in l])
    return pos, lines


def add_parallels(rng, g):
    """parallel edges of EQUAL weight (same ends, possibly stored the other way round with the mirrored orientation)"""
    edges = g["edges"]
    if not edges:
        return g
    used = {e[0] for e in edges}
    for _ in range(rng.randint(1, 3)):
        i, s, t, w, o = rng.choice(edges)
        j = max(used) + 1 + rng.randrange(3)
        used.add(j)
        if rng.random() < 0.5:
            s, t, o = t, s, -o
        edges.insert(rng.randrange(len(edges) + 1), [j, s, t, w, o])
    return g


def random_ops(rng, n, d, fl=False, nodes=None, blocks=None):
    """a sequence of calls: single queries, the same query twice, a path after a distance-only search and vice versa,
    backward passes for several targets after one search, an unreachable target after a reachable one, source = target,
    cut-offs below / at / above distances"""
    cuts = [nc.tok(c) for c in nc.cuts_for(d) if c >= 0] or ["0"]
    if fl:      # float weights: cut-offs clearly between / beyond the distinct distances (never within rounding of one)
        ds = sorted({x for row in d for x in row if x is not None})
        cuts = [repr(float((a + b) / 2)) for a, b in zip(ds, ds[1:]) if b - a > Fraction(1, 10**6) * max(1, b)] + [repr(float(ds[-1]) * 1.5 + 1.0)]
    form = lambda v: rng.choice(["", "", "", "o", "f"]) + str(v)
    cut = lambda: "none" if rng.random() < 0.55 else rng.choice(cuts)
    ud = lambda: 1 if rng.random() < 0.3 else 0
    node = (lambda: rng.randrange(n)) if nodes is None else (lambda: rng.choice(nodes))
    pool = range(n) if nodes is None else nodes
    reach = [(s, t) for s in pool for t in pool if s != t and d[s][t] is not None]
    unreach = [(s, t) for s in pool for t in pool if d[s][t] is None]
    ops = []
    for _ in range(rng.randint(2, 6) if blocks is None else blocks):
        r = rng.random()
        s, t = node(), node()
        if reach and rng.random() < 0.6:
            s, t = rng.choice(reach)
        if r < 0.25:
            ops.append(["P", form(s), form(t), cut(), ud()])
        elif r < 0.35:                                    # the same query by both entry points
            c, u = cut(), ud()
            pair = [["P", form(s), form(t), c, u], ["D", form(s), form(t), c, u]]
            rng.shuffle(pair)
            ops += pair
        elif r < 0.5:                                     # distance-only search, then paths to several targets
            ops.append(rng.choice([["D", form(s), "-", cut(), ud()], ["F", form(s), "-", cut(), ud()],
                                   ["F", form(s), form(t), cut(), ud()], ["D", form(s), form(t), cut(), ud()]]))
            for _ in range(rng.randint(1, 3)):
                ops.append(["B", form(rng.choice([t, node(), node()]))])
        elif r < 0.6 and unreach:                         # an unreachable target after a reachable one (and back)
            s2, t2 = rng.choice(unreach)
            ops.append(["P", form(s), form(t), cut(), ud()])
            ops.append(["P", form(rng.choice([s2, s])), form(t2), cut(), ud()])
            ops.append(["B", form(t)])
        elif r < 0.7:                                     # source = target
            ops.append(["P", form(s), form(s), cut(), ud()])
            ops.append(["B", form(t)])
        elif r < 0.8 and d[s][t] is not None:             # cut-off just below / at the true distance
            c = d[s][t] - rng.choice([Fraction(1, 2), 0, Fraction(1, 2), 1])
            ctok = nc.tok(max(c, 0)) if not fl else repr(float(d[s][t]) * rng.choice([0.5, 0.999, 1.001, 2.0]))
            ops.append(["P", form(s), form(t), ctok, ud()])
            ops.append(["B", form(node())])
        elif r < 0.9:
            ops.append(["P", form(s), form(t), "none", 0])
            ops.append(["P", form(t), form(s), "none", 0])
        else:
            ops.append(["B", form(t)])
    return ops


# ------------------------------------------------------------------------------------ networks modified between the calls
MUTATIONS = ("W", "O", "G", "C", "E", "N")
ORI_FROZEN = "orientation-frozen-at-addEdge"


class Content:
    """What the network holds after the build and the modifications so far, replayed from the case alone (never read from
    tracklib): registered nodes with their positions (the FIRST registration of an id wins), the edges with their current
    attributes, their polylines. `version` counts the modifications."""

    def __init__(self, case, frozen_ori=False):
        calls = build_calls(case)
        self.frozen_ori = frozen_ori          # keep the orientations the edges were added with (see P.classify)
        self.n = case["n"]
        self.pos, self.order, self.edges, self.lines = {}, [], [], {}
        self.version = 0
        self.ori_set = set()          # edges whose orientation attribute was assigned after addEdge
        self._d = None
        for (v, x, y) in calls["pre"]:
            self.add_node(v, x, y)
        for k, e in enumerate(nc.expand(case)):
            self.add_edge(e, case["lines"][k], calls["ends"][k])
        for (v, x, y) in calls["post"]:
            self.add_node(v, x, y)

    def add_node(self, v, x, y):
        if v not in self.pos:
            self.pos[v] = [x, y]
            self.order.append(v)

    def add_edge(self, e, line, ends):
        self.add_node(e[1], ends[0], ends[1])
        self.add_node(e[2], ends[2], ends[3])
        self.edges.append(list(e))
        self.lines[e[0]] = [list(q) for q in line]

    def edge(self, i):
        for e in self.edges:
            if e[0] == i:
                return e
        return None

    def apply(self, op):
        """a modification; False when the op is a routing call or names something that does not exist"""
        k = op[0]
        if k not in MUTATIONS:
            return False
        if k == "N":
            self.add_node(op[1], op[2], op[3])
        elif k == "E":
            if self.edge(op[1][0]) is not None:
                return False
            self.add_edge(op[1], op[2], op[3])
        elif k == "C":
            if op[1] not in self.pos:
                return False
            self.pos[op[1]] = [op[2], op[3]]
        else:
            e = self.edge(op[1])
            if e is None:
                return False
            if k == "W":
                e[3] = op[2]
            elif k == "O":
                if not self.frozen_ori:
                    e[4] = op[2]
                self.ori_set.add(op[1])
            else:
                self.lines[op[1]] = [list(q) for q in op[2]]
        self.version += 1
        self._d = None
        return True

    @property
    def d(self):
        if self._d is None:
            self._d = nc.floyd_warshall(self.n, self.edges)
        return self._d

    def frozen(self):
        """a copy that later modifications do not touch"""
        c = Content.__new__(Content)
        c.n, c.version, c._d, c.frozen_ori = self.n, self.version, self._d, self.frozen_ori
        c.pos = {v: list(q) for v, q in self.pos.items()}
        c.order = list(self.order)
        c.edges = [list(e) for e in self.edges]
        c.lines = {i: [list(q) for q in l] for i, l in self.lines.items()}
        c.ori_set = set(self.ori_set)
        return c

    def joined(self, i):
        """the polyline of edge i runs from its source's position to its target's"""
        e, l = self.edge(i), self.lines[i]
        return len(l) > 0 and l[0] == self.pos[e[1]] and l[-1] == self.pos[e[2]]


def timeline(case, frozen_ori=False):
    """per op: (the content the op finds, stale) — stale: the network was modified since the last search (what
    run_routing_backward then returns mixes the old flags with the new content: nothing is stated about it).
    Cases that do not modify the network share one Content."""
    ops = ops_of(case)
    c = Content(case, frozen_ori)
    if not case.get("mut"):
        return [(c, False)] * len(ops)
    out, stale, cur = [], False, c.frozen()
    for op in ops:
        out.append((cur, stale))
        if op[0] in MUTATIONS:
            if c.apply(op):
                stale = True
                cur = c.frozen()
        elif op[0] != "B":
            stale = False
    return out


def mkline(rng, ps, pt, box=3):
    """a polyline from ps to pt: 1-5 vertices, as geometry_ext draws them"""
    q = lambda: [rng.randint(-1, box + 1), rng.randint(-1, box + 1)]
    r = rng.random()
    if ps == pt and r < 0.2:
        return [list(ps)]
    if r < 0.45:
        return [list(ps), list(pt)]
    if r < 0.75:
        return [list(ps), q(), list(pt)]
    if r < 0.85:
        m = q()
        return [list(ps), m, m, list(pt)]
    if r < 0.93:
        return [list(ps), list(pt), q(), list(pt)]
    return [list(ps), q(), q(), list(pt)]


def new_weight(rng, old, fl=False):
    if fl:
        o = float(old)
        return rng.choice([0.0, 0.1, 0.3, 0.7, o * 1.5 + 0.1, o / 3, rng.random() * 10, o + 50.0])
    o = Fraction(nc.num(old))
    w = rng.choice([0, 0, 1, 2, 3, 5, 7, 10, 50, o + 1, o * 2, o + Fraction(1, 2), o / 2, max(o - 1, 0)])
    w = Fraction(w)
    if w.denominator not in (1, 2, 4, 8):
        w = Fraction(int(w))
    return int(w) if w.denominator == 1 else nc.tok(w)


def one_mutation(rng, c, case, fl=False, with_ori=False):
    """ops (usually one) that modify the content c; weights most often, on an edge of some current optimal route half of the time"""
    r = rng.random()
    reg = list(c.order)
    late = [v for v in case.get("late", []) if v not in c.pos]
    if late and r < 0.25:
        r = 0.9 if rng.random() < 0.7 else 0.99
    if c.edges and r < 0.5:
        d = c.d
        tight = [e for e in c.edges for (u, v) in ((e[1], e[2]), (e[2], e[1]))
                 if any(d[s][u] is not None and d[s][v] is not None and d[s][u] + nc.num(e[3]) == d[s][v] and s != v for s in reg)]
        e = rng.choice(tight) if tight and rng.random() < 0.5 else rng.choice(c.edges)
        return [["W", e[0], new_weight(rng, e[3], fl), rng.choice([0, 0, 1, 2])]]
    if c.edges and with_ori and r < 0.58:
        e = rng.choice(c.edges)
        return [["O", e[0], rng.choice([x for x in (-1, 0, 1) if x != e[4]])]]
    if c.edges and r < 0.68:
        e = rng.choice(c.edges)
        if rng.random() < 0.15:
            line = [[rng.randint(-1, 4), rng.randint(-1, 4)] for _ in range(rng.choice([0, 1, 2, 3]))]      # ignores the node positions
        else:
            line = mkline(rng, c.pos[e[1]], c.pos[e[2]])
        return [["G", e[0], line, rng.choice([0, 1])]]
    if reg and r < 0.8:
        v = rng.choice(reg)
        x, y = rng.randint(0, 3), rng.randint(0, 3)
        how = rng.choice([0, 1])
        out = [["C", v, x, y, how]]
        if rng.random() < 0.8:            # the junction moves: the polylines that end there follow
            for e in c.edges:
                if v in (e[1], e[2]):
                    l = [list(q) for q in c.lines[e[0]]] or [[x, y]]
                    if len(l) == 1 and e[1] != e[2]:
                        l = [list(c.pos[e[1]]), list(c.pos[e[2]])]
                    if e[1] == v:
                        l[0] = [x, y]
                    if e[2] == v:
                        l[-1] = [x, y]
                    out.append(["G", e[0], l, rng.choice([0, 1])])
        return out
    if r < 0.97 or not late:
        pool = reg + late
        if not pool:
            return []
        s = rng.choice(pool)
        t = rng.choice(pool) if rng.random() < 0.9 else s
        if late and rng.random() < 0.6:
            t = rng.choice(late)
            if rng.random() < 0.5:
                s, t = t, s
        if c.edges and rng.random() < 0.25:          # parallel to an existing edge (either way round)
            _, s, t, _, _ = rng.choice(c.edges)
            if rng.random() < 0.5:
                s, t = t, s
        i = max([e[0] for e in c.edges] + [0]) + 1 + rng.randrange(3)
        if fl:
            w = rng.choice([0.0, 0.1, 0.2, 0.3, rng.random() * 5])
        else:
            w = rng.choice([0, 0, 1, 1, 2, 3, 5, "1/2", "3/2"])
        o = rng.choice([-1, 0, 0, 1, 1])
        ps = c.pos.get(s, case["pos"][s])
        pt = c.pos.get(t, case["pos"][t])
        ends = list(ps) + list(pt)
        if rng.random() < 0.15:           # Node objects of registered ids carrying other coordinates: the first registration wins
            ends = [ends[0] + (9 if s in c.pos else 0), ends[1], ends[2], ends[3] - (4 if t in c.pos else 0)]
        return [["E", [i, s, t, w, o], mkline(rng, ps, pt), ends]]
    v = rng.choice(late + reg) if rng.random() < 0.8 else rng.choice(late)
    q = case["pos"][v]
    if v in c.pos and rng.random() < 0.5:
        q = [q[0] + 5, q[1] + 5]            # ignored: the id is registered
    return [["N", v, q[0], q[1]]]


def random_mut_ops(rng, case, fl=False, with_ori=False):
    """routing calls interleaved with modifications of the network; every modification is followed (sooner or later) by queries"""
    c = Content(case)
    ops = []

    def queries():
        reg = list(c.order)
        if not reg:
            return
        if rng.random() < 0.75:
            d = c.d
            reach = [(s, t) for s in reg for t in reg if s != t and d[s][t] is not None]
            for _ in range(rng.randint(1, 3)):
                s, t = rng.choice(reach) if reach and rng.random() < 0.8 else (rng.choice(reg), rng.choice(reg))
                form = lambda v: rng.choice(["", "", "", "o", "f"]) + str(v)
                ops.append(["P", form(s), form(t), "none", 1 if rng.random() < 0.15 else 0])
        else:
            ops.extend(random_ops(rng, c.n, c.d, fl=fl, nodes=reg, blocks=rng.randint(1, 2)))

    if rng.random() < 0.75:
        queries()
    for _ in range(rng.randint(1, 4)):
        for _ in range(rng.choice([1, 1, 1, 2, 3])):
            for m in one_mutation(rng, c, case, fl, with_ori):
                if c.apply(m):
                    ops.append(m)
        if rng.random() < 0.1 and c.order:
            ops.append(["B", str(rng.choice(c.order))])        # a backward pass on stale flags
        queries()
    return ops


# ------------------------------------------------------------------------------------ families of networks
# Several Network objects that share their Node and Edge objects: `sub = net.sub_network(s, cut)` fills a new Network() with
# the parent's own Edge objects (`sub_net.addEdge(e, e.source, e.target)`), and the caller keeps and uses both.
# case: a graph with geometry as above (network 0) and "fops": [[k, op], …], op on network k =
#    a routing call P / D / F / B of the session forms · ["W", id, w, how] (the weight of that Edge OBJECT) ·
#    ["X", s, cut]   nets.append(nets[k].sub_network(s, cut))   (TOPOLOGIC mode: a search from s without target, then the
#                    edges whose two ends were settled are added, in the parent's edge order)
# Every network is judged on ITS OWN content (the edges it holds): what the other networks of the family were asked in
# between never matters to the statement. Which edges sub_network keeps is outside the statement: the oracle reads the
# extract's node and edge ids off the returned object; the model side predicts them (both ends within the cut-off).
def fam_split(case, reported=None):
    """the family as one session per network: (members, where, conts) — conts[k] = the Content of network k after all the calls.
    members[k] = a case of kind "mut" (build + the calls made on network k, `sub_network` being the `run_routing_forward`
    it performs), None for an extraction that raised; where[j] = [(k, index in members[k]["ops"]), …] for the j-th fop, the
    addressed network first.
    reported = None: the extracts' contents are predicted from the case alone (what the model side runs); a weight
    assignment reaches every network holding that Edge object (the library as it is).
    reported = [per X op: {"nodes", "edges"} | None]: the extracts hold what the real objects were seen to hold (the oracle);
    a network that shares an Edge object whose weight was assigned THROUGH ANOTHER network is no longer judged ("blind_from":
    nothing is stated about whether it sees the new weight).
    "skip": indices of run_routing_backward calls made when the routing attributes on the (shared) Node objects were last
    written by a search of ANOTHER network (for the oracle also: by sub_network itself): nothing is stated about them."""
    n = case["n"]
    base = nc.explicit({k: v for k, v in case.items() if k not in ("fops", "fam")})
    base.update(kind="fam-member", mut=1, ops=[])
    members = [base]
    conts = [Content(base)]
    where = []
    owner = None
    nx = 0
    for (k, op) in case["fops"]:
        if not (0 <= k < len(members)) or members[k] is None:
            where.append([])
            if op[0] == "X":
                members.append(None)
                conts.append(None)
                nx += 1
            continue
        M, C = members[k], conts[k]
        if op[0] == "W":
            spots = []
            for j in [k] + [j for j in range(len(members)) if j != k]:
                if members[j] is None or conts[j].edge(op[1]) is None:
                    continue
                if reported is not None and j != k:
                    members[j].setdefault("blind_from", len(members[j]["ops"]))
                    continue
                conts[j].apply(op)
                members[j]["ops"].append(list(op))
                spots.append((j, len(members[j]["ops"]) - 1))
            where.append(spots)
        elif op[0] == "X":
            s = idx(op[1])
            M["ops"].append(["F", op[1], "-", op[2], 0])
            where.append([(k, len(M["ops"]) - 1)])
            # the model side: sub_network is coded as a search on the parent, whose flags a backward pass may read. The
            # oracle: that sub_network leaves routing attributes on the parent is not part of any statement — a backward
            # pass right after it is compared with the model, never judged
            owner = k if reported is None else None
            rec = None
            if reported is not None:
                rec = reported[nx] if nx < len(reported) else None
            nx += 1
            if s not in C.pos or (reported is not None and rec is None):
                members.append(None)
                conts.append(None)
                continue
            if reported is None:
                d, c = C.d, cutval(op[2])
                keep = [e for e in C.edges if within(d[s][e[1]], c) and within(d[s][e[2]], c)]
            else:
                keep = [C.edge(i) for i in rec["edges"] if isinstance(i, int) and C.edge(i) is not None]
            sub = {"kind": "fam-member", "mut": 1, "n": n, "order": [], "build": "plain", "parent": k,
                   "edges": [list(e) for e in keep], "pos": [list(C.pos.get(v, case["pos"][v])) for v in range(n)],
                   "lines": [[list(q) for q in C.lines[e[0]]] for e in keep], "ops": []}
            for key in ("ids", "af", "scribble"):
                if key in case:
                    sub[key] = case[key]
            if "blind_from" in M:
                sub["blind_from"] = 0
            members.append(sub)
            conts.append(Content(sub))
        else:
            M["ops"].append(list(op))
            where.append([(k, len(M["ops"]) - 1)])
            if op[0] == "B":
                if owner != k:
                    M.setdefault("skip", []).append(len(M["ops"]) - 1)
            else:
                owner = k
    return members, where, conts


def fam_valid(case):
    """every op addresses a network that exists at that point"""
    cnt = 1
    for (k, op) in case["fops"]:
        if not 0 <= k < cnt:
            return False
        if op[0] == "X":
            cnt += 1
    return True


def fam_project(case, out, members, where):
    """the implementation's flat record of a family run, as one impl output per network (shape of P.impl on members[k])"""
    res = [None if M is None else {"ops": [None] * len(M["ops"]), "dict": out["dicts"][k] if k < len(out["dicts"]) else [],
                                   "net": out["nets"][k] if k < len(out["nets"]) else None} for k, M in enumerate(members)]
    for (k_op, item, spots) in zip(case["fops"], out["fam"], where):
        for pos_, (k, i) in enumerate(spots):
            if k_op[1][0] == "X":
                it = {"op": "F", "err": "key"} if "err" in item else {"op": "F"}
            elif k_op[1][0] == "W":
                it = item if pos_ == 0 else {"op": "W", "r": "ok"}
            else:
                it = item
            res[k]["ops"][i] = it
    return res


def random_family(rng, geometry):
    """a network (a chain / tree skeleton plus some more edges, so that a cut-off extract is a proper part of it), extracts of
    it and of extracts, kept; paths and distances asked on all of them in any order — most often on the PARENT after an
    extraction, for pairs whose route runs through the extracted part; now and then a weight is assigned in between"""
    n = rng.randint(3, 8)
    perm = list(range(n)); rng.shuffle(perm)
    style = rng.random()
    edges = []
    wgt = lambda: rng.choice([0, 1, 1, 1, 2, 2, 3, 5, "1/2", "3/2"])
    ori = lambda: rng.choice([-1, 0, 0, 0, 0, 1])
    for i in range(1, n):
        a, b = (perm[i - 1] if style < 0.6 else perm[rng.randrange(i)]), perm[i]
        if rng.random() < 0.3:
            a, b = b, a
        edges.append([len(edges), a, b, wgt(), ori()])
    for _ in range(rng.randint(0, 4)):
        edges.append([len(edges), rng.randrange(n), rng.randrange(n), wgt(), ori()])
    order = list(range(n)); rng.shuffle(order)
    case = {"kind": "fam", "fam": 1, "n": n, "order": order, "edges": edges, "fops": []}
    geometry(case)
    fops = case["fops"]
    form = lambda v: rng.choice(["", "", "", "o", "f"]) + str(v)
    ud = lambda: 1 if rng.random() < 0.2 else 0

    def query(k, M, C):
        nodes = list(C.order)
        if not nodes:
            return
        d = C.d
        reach = [(s, t) for s in nodes for t in nodes if s != t and d[s][t] is not None]
        s, t = rng.choice(reach) if reach and rng.random() < 0.85 else (rng.choice(nodes), rng.choice(nodes))
        cuts = [nc.tok(c) for c in nc.cuts_for(d) if c >= 0] or ["0"]
        cut = "none" if rng.random() < 0.75 else rng.choice(cuts)
        r = rng.random()
        if r < 0.6:
            fops.append([k, ["P", form(s), form(t), cut, ud()]])
        elif r < 0.7:
            fops.append([k, ["D", form(s), rng.choice([form(t), "-"]), cut, ud()]])
        elif r < 0.85:
            fops.append([k, [rng.choice("FD"), form(s), rng.choice([form(t), "-", "-"]), cut, ud()]])
            for _ in range(rng.randint(1, 2)):
                fops.append([k, ["B", form(rng.choice([t] + nodes))]])
        else:
            fops.append([k, ["P", form(s), form(t), "none", 0]])
            fops.append([k, ["P", form(t), form(s), "none", 0]])

    for step in range(rng.randint(3, 10)):
        members, _, conts = fam_split(case)
        live = [k for k, C in enumerate(conts) if C is not None and C.order]
        if not live:
            break
        r = rng.random()
        nx = sum(1 for _, o in fops if o[0] == "X")
        if (r < 0.3 or step == 0) and nx < 3:
            k = 0 if rng.random() < 0.7 else rng.choice(live)
            C = conts[k]
            s = rng.choice(C.order)
            ds = sorted({x for x in C.d[s] if x is not None})
            c = rng.choice(ds + [ds[-1] + 1, ds[len(ds) // 2] + Fraction(1, 2)]) if rng.random() < 0.85 else None
            fops.append([k, ["X", form(s), "none" if c is None else nc.tok(c)]])
            if rng.random() < 0.3:      # the path to a node of the extract, read off the flags sub_network left on the parent
                fops.append([k, ["B", form(rng.choice(C.order))]])
            for _ in range(rng.randint(1, 3)):      # then the parent is asked again
                query(k, members[k], C)
        elif r < 0.38 and conts[0].edges:
            k = rng.choice(live)
            if conts[k].edges:
                e = rng.choice(conts[k].edges)
                fops.append([k, ["W", e[0], new_weight(rng, e[3]), rng.choice([0, 0, 1, 2])]])
        else:
            k = rng.choice(live)
            query(k, members[k], conts[k])
    return case


def enum_families():
    """small scope of the shared-objects situation: three 3-node paths (two-way unit; one-way; a zero-weight and a
    reverse-stored edge), B = A.sub_network(s0, c0) kept for every s0 and c0 in {0, 1, none}; then every ordered pair by
    shortest_path on A, on B, and on A again"""
    out = []
    for g in ([[0, 0, 1, 1, 0], [1, 1, 2, 1, 0]], [[0, 0, 1, 1, 1], [1, 1, 2, 1, 1]], [[0, 0, 1, 0, 0], [1, 2, 1, 2, -1]],
              [[0, 0, 1, 1, 0], [1, 1, 2, 1, 0], [2, 0, 2, 5, 0]]):
        for s0 in range(3):
            for c0 in ("0", "1", "none"):
                case = {"kind": "fam-ex", "fam": 1, "n": 3, "order": [0, 1, 2], "edges": [list(e) for e in g],
                        "pos": [[0, 0], [1, 0], [2, 1]], "fops": [[0, ["X", str(s0), c0]]]}
                case["lines"] = [[case["pos"][e[1]], [e[1] + 1, 2], case["pos"][e[2]]] for e in g]
                mem, _, _ = fam_split(case)
                allp = lambda k, nodes: [[k, ["P", str(s), str(t), "none", 0]] for s in nodes for t in nodes]
                sub = sorted(Content(mem[1]).order) if mem[1] is not None else []
                case["fops"] += allp(0, range(3)) + allp(1, sub) + allp(0, range(3))
                out.append(case)
    return out


class P(Prop):
    id = "C07"
    design_ref = "DESIGN.md section 5, C07"
    M = "TracklibVerif.Props.C07"
    theorems = [
        (M, "TV.C07.forward_state_good", "the flags left by run_routing_forward(s,t,cut) satisfy the invariants: antecedent is settled, joined by antecedent_edge in a permitted direction, tight (d v = d a + w), well-founded in settle order"),
        (M, "TV.C07.path_is_walk", "any path returned by shortest_path(s,t,cut): node list from s to t, consecutive nodes joined by the recorded edge in a permitted direction; geometry = chain of those edges' polylines along the travel, junctions once, ending at pos t; weights sum to the label of t"),
        (M, "TV.C07.path_optimal", "for shortest_path(s,t) the recorded edges' weights sum to the true shortest distance"),
        (M, "TV.C07.path_optimal_cut", "with a cut-off not below the true distance the returned path still realises the true distance"),
        (M, "TV.C07.path_cut_sound", "with ANY cut-off (also below the true distance) a returned path is a real route with chained geometry whose weights sum to the value shortest_distance(s,t,cut) reports; that value is >= the true distance and equal to it unless it exceeds the cut-off"),
        (M, "TV.C07.geometry_chained", "if every edge polyline runs from its source's to its target's position, the returned geometry = pos s followed by the used edges' polylines, each oriented along the travel and without its first vertex (junctions once); starts at pos s, ends at pos t"),
        (M, "TV.C07.unreachable_none", "no permitted walk => None; t = s => None (as coded)"),
        (M, "TV.C07.reachable_path", "a reachable target other than the source always gets a path"),
        (M, "TV.C07.never_diverges", "the loop `while node.antecedent != \"\"` always terminates (within n+1 iterations) on the flags left by the forward pass"),
        (M, "TV.C07.track_operators_agree", "run_routing_backward written on tracks with the C04 model's operators (Track(), addObs, copy, reverse, `>` = Seq.dropFirst, `+` = Seq.concat) returns the list-level model's node list and points, as a track without analytical features (uses TV.C04.concat_spec / dropFirst_spec)"),
        (M, "TV.C07.geometry_chained_track", "T3 for the Track built by the C04 operators: points = pos s followed by the used edges' polylines along the travel, each minus its first vertex; starts at pos s, ends at pos t; no analytical feature — for arbitrary polylines (repeated vertices, 1/2-vertex geometries, SENS_INVERSE, parallel edges)"),
        (M, "TV.C07.path_optimal_track", "through the C04 operators: never diverges; None iff unreachable or t = s; a returned track is the chain of a route whose weights sum to the true distance"),
        (M, "TV.C07.session_path_fresh", "shortest_path at any point of a sequence of calls on one Network = shortest_path on a fresh network (flags reset; node by id or object; output_dict or not), and the label left on the target is shortest_distance's value"),
        (M, "TV.C07.session_dist_fresh", "shortest_distance(s,t,cut) at any point of a session = on a fresh network"),
        (M, "TV.C07.session_path_dist_same_state", "shortest_path and shortest_distance with the same arguments leave the same node flags and write the same output_dict entries"),
        (M, "TV.C07.session_outputs_ok", "in ANY sequence of shortest_path / shortest_distance / run_routing_forward / run_routing_backward calls on one network, the backward loop terminates and every returned track is the chain of a real route whose weights sum to the label of its last node"),
        (M, "TV.C07.backward_settled_optimal", "after a search stopped at another target or by a cut-off, run_routing_backward(t) for any node t != s settled before the stop returns a route realising the true distance"),
        (M, "TV.C07.output_dict_entries_sound", "every entry (s,u) -> y written to output_dict by shortest_path / any search is the true distance s->u and does not exceed the cut-off"),
        (M, "TV.C07.next_edges_as_built", "for a network built by addEdge calls: EDGES = the edges in insertion order; NEXT_EDGES[u] looked up in EDGES = every edge that may be left from u, a two-way self-loop twice; the relaxation loop over it = the loop over the model's nextEdges (each edge once)"),
        (M, "TV.C07.first_registration_wins", "a node's position is the coordinate of its first registration (addNode / addEdge with other Node objects of the same id do not change it); addEdge registers both ends"),
        (M, "TV.C07.backward_after_full_search", "after a search without target and cut-off (shortest_distance(s) / run_routing_forward(s)), run_routing_backward(t) = None iff t unreachable or t = s, else a route s->t realising the true distance"),
        (M, "TV.C07.mut_path_fresh", "on a network built AND MODIFIED by any sequence of calls (addNode / addEdge also after searches, getEdge(i).weight = w, new polylines, moved nodes, any routing calls in between; no orientation assignment) shortest_path(s,t,cut) = shortest_path on a fresh network holding the CURRENT nodes, edges, weights, polylines and coordinates"),
        (M, "TV.C07.mut_path_optimal", "after any such history shortest_path(s,t) never diverges, is None iff t is unreachable in the current network or t = s, else the chain of a route of the current network whose current weights sum to the current shortest distance"),
        (M, "TV.C07.mut_path_cut_sound", "the same with any cut-off: a returned track is a real route of the current network weighing the reported value, which is >= the current distance and equal to it unless it exceeds the cut-off"),
        (M, "TV.C07.mut_geometry_chained", "T3 on the modified network: if NOW every polyline joins the current positions of its ends, the returned geometry = current pos s followed by the used edges' current polylines along the travel, each minus its first vertex; ends at the current pos t; no analytical feature"),
        (M, "TV.C07.orientation_attribute_not_read", "getEdge(i).orientation = x on a built network changes an attribute that only addEdge reads: every later call (routing, modification, addEdge) returns exactly what it would have returned without the assignment"),
        (M, "TV.C07.path_any_history", "ANY history, orientation assignments included: shortest_path(s,t,cut) = shortest_path on a fresh network holding the content that the same history without its orientation assignments produces (current weights, polylines, coordinates; each edge with the orientation it was added with)"),
        (M, "TV.C07.mut_never_diverges", "in any sequence of calls on a new network (modifications, orientation assignments, stopped searches, run_routing_backward on flags older than the last modification, unknown nodes) no shortest_path / run_routing_backward loops for ever"),
        (M, "TV.C07.path_after_orientation_assignment", "after getEdge(i).orientation = x a shortest_path still answers for the content before the assignment (the orientations the edges were added with)"),
    ]
    partial = []
    open_statements = ["Track.copy is modelled as the identity on (points, feature table): that the returned track shares no Obs / coordinate object with the network is not a theorem; the harness checks it by moving the points of every returned track (scribble stream) and validating the later answers of the session",
                       "arithmetic: every theorem holds for any addition satisfying WalkAdd (x <= x + w for w >= 0, and + monotone on the right; associativity, commutativity and cancellation are not used, see the R4 example), i.e. for the sums as the code rounds them; that IEEE-754 double addition satisfies WalkAdd is not proved in Lean (Float is opaque) — the float streams run the model at Float bit for bit",
                       "run_routing_backward on flags older than the last modification of the network (old antecedents, new weights / polylines): nothing is stated; proved: the loop ends (mut_never_diverges); what it returns is compared with the model only",
                       "modifications through Network.simplify / toENUCoords / toGeoCoords (they replace every edge geometry / node coordinate) are not in the model; the library has no call that removes an edge or a node",
                       "families of networks sharing their Node and Edge objects (net.sub_network(s, cut) kept and used next to net, extracts of extracts; kinds fam / fam-ex): there is no Lean definition of the family for paths. "
                       "The model side runs ONE msession (Model/GraphMut.lean) per network — sub_network being the run_routing_forward(s, cut=cut) it performs on the parent, the extract a Network() to which the kept Edge objects are "
                       "added in the parent's edge order with the parent's Node objects — and the harness, not Lean, predicts which edges are kept (both ends at distance <= cut; TV.Graph.subEdges / TV.C06 have that in Lean for the distances). "
                       "That the routing attributes written on the SHARED Node objects by another network's search are unobservable is proved for the labels (TV.C06.family_answers_as_private) and not for antecedent / antecedent_edge; "
                       "run_routing_backward called when those attributes were last written by another network of the family is run but neither compared nor judged (nothing is stated about it)",
                       "getEdge(i).orientation = x on a built network: proved NOT to be read by routing (orientation_attribute_not_read) — the property read with the current attribute fails there; proposed finding %s (findings/C07.json), its inputs are generated once it is listed" % ORI_FROZEN]
    modelled = ("Network.addNode / addEdge (NODES with first registration winning, EDGES, NEXT_EDGES filled incrementally; proved to give the model's adjacency); "
                "Network.run_routing_forward (as for C06) with __correctInputNode (node by id / Node object) and __resetFlags on the flags left by earlier searches; "
                "run_routing_backward (walk of antecedent / antecedent_edge, polyline reversed when e.source != node, appended minus its first vertex, final reverse, "
                "path = node ids reversed) written with the Track operators of the C04 model (Track(), addObs, copy, reverse, `>`, `+` with its feature-name test) "
                "and proved equal to the list-level walk; shortest_path, shortest_distance (pair and list form), output_dict, and sequences of these calls on one Network object; "
                "the Network object as a state machine that is built and MODIFIED by the calls themselves (Model/GraphMut.lean): NODES / EDGES / NEXT_EDGES / edge geometries / node coordinates / "
                "routing flags (and which nodes carry them) / output_dict as state, addNode, addEdge (also after searches), getEdge(i).weight / .orientation / .geom = ..., getNode(v).coord = ..., "
                "the forward pass written over NEXT_EDGES[pere] and EDGES[edge_id] as the code has it (weights read at relaxation time, adjacency as addEdge filled it), KeyError / AttributeError of calls "
                "naming unregistered / never-searched nodes; "
                "Network.sub_network (TOPOLOGIC) only as the calls it is made of: run_routing_forward(source, cut=cut) on the parent, then Network() + addEdge(e, e.source, e.target) for the kept edges — one model object per network of the family (see open_statements)")
    trusted = ["Track.copy (copy.deepcopy) is the identity on the model's immutable values",
               "priority_dict is modelled as extract-min by (priority, node id) (C06 proves the explicit heap equal to it)"]
    rule = (("the C06 graph space (all edge lists of length <= 2 on <= 3 nodes in quick, + all 3-edge multisets in thorough; random to 12 nodes / 40 edges, parallel edges of equal and of "
            "different weight) with node positions on an integer lattice (some coincident) and edge polylines of 1-5 vertices from the source's to the target's position (straight, bent, repeated "
            "consecutive vertices, coming back over an end point, over another node, closed loops); a 'loose' stream whose polylines ignore the node positions (0-4 vertices; geometry compared "
            "with the model only). Networks built with int or str ids (NODES order, stored positions, NEXT_EDGES and edge ends compared with the model's addNode/addEdge), with the caller's Node objects / fresh Node objects per edge / nodes created by addEdge / Node objects of an already registered id carrying other coordinates / through a CSV file read by NetworkReader.readFromFile (str ids, abs_curv feature on every geometry); edge geometries "
            "with or without an analytical feature; every node and polyline vertex has an altitude determined by its (x, y), which the returned geometry must carry; in a third of the random cases the caller moves the points of every track it is given (aliasing with the network would show in later answers). Calls: every ordered pair by shortest_path on ONE object; for the same enumerated graphs a sequence in which every ordered pair "
            "of queries is consecutive; random sessions mixing shortest_path, shortest_distance (pair / list), run_routing_forward, run_routing_backward (several targets after one search, before "
            "any search), nodes by id / own object / fresh object, output_dict, source = target, unreachable after reachable, cut-offs below / at / above the distances. A float stream (kind sess-float): weights = polyline lengths / multiples of 0.1 / uniform reals, model instantiated at Float and compared bit for bit, "
            "oracle in exact rationals with 1e-9 relative tolerance. "
            "Networks MODIFIED between the calls (kinds mut / mut-float, a fifth of the quick run): between routing calls the weight of an edge is assigned (through getEdge / net[k] / EDGES; half of the "
            "time an edge of a current optimal route; raised, lowered, zero), a polyline is replaced or moved in place, a node is moved (new coordinate object or in place, usually together with the polylines "
            "that end there), edges are added (parallel ones, to nodes the network did not have, with Node objects carrying other coordinates), nodes are added; the model runs the whole life of the object "
            "(build included) as one sequence of calls and the final content read back through the getters is compared; the oracle keeps its own replay of the content and judges every query against the "
            "content of that moment (geometry chain required whenever the polylines on the route join the positions of that moment); run_routing_backward on flags older than the last modification is "
            "compared with the model only. Orientation assignments on a built network are generated only once the finding %s is listed. "
            "FAMILIES of networks that share their Node and Edge objects (kinds fam-ex / fam): net.sub_network(s, cut) is called and its result KEPT (up to three extractions, also of extracts), and paths / distances / forward + backward passes are asked on "
            "all of them in any order — most of the time on the PARENT after an extraction, for pairs whose route runs through extracted edges —, run_routing_backward right after sub_network (the flags it left), the weight of a shared Edge "
            "object assigned in between; every network is judged on its own content (an extract: the node / edge ids read off the returned object), whatever the other networks were asked in between. "
            "non-trivial = some call returns a path; tags count zero-weight edges, edges traversed against their stored direction, ties, op kinds, kinds of modification, whether a weight assignment changed a queried distance") % ORI_FROZEN)

    def setup(self):
        self.mods = nc.import_mods()
        # a pool worker inherits the parent's list of generated cases (millions of small objects in the thorough tier): a
        # full garbage collection that happens to start inside `time_limit` then costs seconds of CPU and looks like an
        # endless loop. The inherited objects are never garbage: keep the collector off them.
        import gc
        gc.freeze()

    # ---------------------------------------------------------------- generators
    def exhaustive_scopes(self, tier):
        s = ["all edge lists (ordered) of length 0..2 on 1..3 nodes, weights {0,1,2}, orientations {-1,0,1} (8067 graphs), one random lattice geometry each, all ordered pairs by shortest_path on one Network object",
             "the same 8067 graphs: a sequence of shortest_path calls on one object in which EVERY ordered pair of queries (s1,t1),(s2,t2) is consecutive (82 calls for 3 nodes)"]
        s.append("the same graphs with at least one edge: every ordered pair, then the weight of one edge is assigned another value of {0,1,2} on the built network, every ordered pair again (%s)"
                 % ("every edge and every other value: 32004 sessions" if tier == "thorough" else "one random edge and value per graph: 8064 sessions"))
        s.append("families: four 3-node paths (two-way unit, one-way, with a zero-weight and a reverse-stored edge, with a long parallel chord) as network A, B = A.sub_network(s0, c0) kept, for every s0 and c0 in {0, 1, none}: "
                 "every ordered pair by shortest_path on A, on B, on A again (36 families)")
        if tier == "thorough":
            s.append("all multisets of 3 edges on 1..3 nodes over the same alphabet (100482 multigraphs), edge / node insertion order shuffled, one random geometry each")
        return s

    def with_geometry(self, rng, g, ext=False):
        if ext:
            loose = rng.random() < 0.12
            pos, lines = geometry_ext(rng, g["n"], nc.expand(g), loose=loose)
            if loose:
                g["loose"] = 1
            r = rng.random()
            if r < 0.25:
                g["ids"] = "str"
            r = rng.random()
            if r < 0.25:
                g["build"] = "fresh"
            elif r < 0.45:
                g["build"] = "lazy"
            elif r < 0.6 and not loose and all(len(l) >= 2 for l in lines):
                g["build"] = "reader"
            if rng.random() < 0.2:
                g["af"] = 1
            if rng.random() < 0.3:
                g["scribble"] = 1
            if g.get("build") in ("fresh", "lazy") and rng.random() < 0.3:
                g["recoord"] = 1
        else:
            pos, lines = nc.random_geometry(rng, g["n"], nc.expand(g))
        g["pos"] = pos
        g["lines"] = lines
        return g

    def cases(self, rng, tier):
        out = []
        for n in (1, 2, 3):
            for k in (0, 1, 2):
                for e in nc.enum_graphs(n, k, ordered=True):
                    order = list(range(n)); rng.shuffle(order)
                    out.append(self.with_geometry(rng, {"kind": "ex", "n": n, "order": order, "e": list(e)}))
                    if True:
                        out.append(self.with_geometry(rng, {"kind": "ex-seq", "seq": "euler", "n": n, "order": order, "e": list(e)}))
                    # the same graph, every ordered pair, then ONE edge gets another weight on the built network, every pair again
                    al = nc.alphabet(n)
                    variants = [(j, w) for j in range(k) for w in (0, 1, 2) if w != al[e[j]][2]]
                    if tier == "quick" and variants:
                        variants = [rng.choice(variants)]
                    for (j, w) in variants:
                        pairs = [["P", str(s_), str(t_), "none", 0] for s_ in range(n) for t_ in range(n)]
                        out.append(self.with_geometry(rng, {"kind": "ex-mut", "mut": 1, "n": n, "order": order, "e": list(e),
                                                            "ops": pairs + [["W", j, w, rng.choice([0, 1, 2])]] + pairs}))
        if tier == "thorough":
            for n in (1, 2, 3):
                for e in nc.enum_graphs(n, 3, ordered=False):
                    e = list(e); rng.shuffle(e)
                    order = list(range(n)); rng.shuffle(order)
                    out.append(self.with_geometry(rng, {"kind": "ex3", "n": n, "order": order, "e": e}))
        nsmall, nbig, nsess, nfloat = (1500, 400, 4000, 1500) if tier == "quick" else (20000, 5000, 100000, 30000)
        for _ in range(nsmall):
            g = dict(nc.random_graph(rng, small=True), kind="rnd-small")
            if rng.random() < 0.3:
                add_parallels(rng, g)
            out.append(self.with_geometry(rng, g, ext=True))
        for _ in range(nbig):
            g = nc.random_graph(rng, nmax=rng.choice([5, 8, 12]), emax=rng.choice([8, 20, 40]))
            g["kind"] = "rnd"
            if rng.random() < 0.3:
                add_parallels(rng, g)
            if rng.random() < 0.3:
                allc = nc.cuts_for(nc.floyd_warshall(g["n"], g["edges"]))
                g["cut"] = nc.tok(rng.choice(allc))
            out.append(self.with_geometry(rng, g, ext=True))
        for _ in range(nsess):
            if rng.random() < 0.85:
                g = nc.random_graph(rng, small=True)
                if g["n"] == 1 and rng.random() < 0.7:
                    g = nc.random_graph(rng, nmax=5, emax=8)
            else:
                g = nc.random_graph(rng, nmax=rng.choice([5, 8]), emax=rng.choice([8, 16]))
            g["kind"] = "sess"
            if rng.random() < 0.3:
                add_parallels(rng, g)
            g["ops"] = random_ops(rng, g["n"], nc.floyd_warshall(g["n"], g["edges"]))
            out.append(self.with_geometry(rng, g, ext=True))
        for _ in range(nfloat):
            g = nc.random_graph(rng, small=True) if rng.random() < 0.7 else nc.random_graph(rng, nmax=rng.choice([5, 8, 12]), emax=rng.choice([8, 20]))
            g["kind"] = "sess-float"
            g["float"] = 1
            if rng.random() < 0.3:
                add_parallels(rng, g)
            self.with_geometry(rng, g, ext=True)
            self.float_weights(rng, g)
            d = nc.floyd_warshall(g["n"], g["edges"])
            if rng.random() < 0.6:
                g["ops"] = random_ops(rng, g["n"], d, fl=True)
            out.append(g)
        nmut, nmutf = (3000, 600) if tier == "quick" else (60000, 12000)
        for k in range(nmut + nmutf):
            out.append(self.mut_case(rng, fl=(k >= nmut)))
        out += enum_families()
        for _ in range(1200 if tier == "quick" else 25000):
            out.append(random_family(rng, self.fam_geometry(rng)))
        return out

    def fam_geometry(self, rng):
        def geometry(g):
            pos, lines = geometry_ext(rng, g["n"], g["edges"])
            g["pos"], g["lines"] = pos, lines
            if rng.random() < 0.25:
                g["ids"] = "str"
            r = rng.random()
            if r < 0.25:
                g["build"] = "fresh"
            elif r < 0.45:
                g["build"] = "lazy"
            if rng.random() < 0.2:
                g["af"] = 1
            if rng.random() < 0.3:
                g["scribble"] = 1
        return geometry

    def mut_case(self, rng, fl=False):
        """a network that is modified between the routing calls"""
        if rng.random() < 0.8:
            g = nc.random_graph(rng, small=True)
            if g["n"] == 1 and rng.random() < 0.7:
                g = nc.random_graph(rng, nmax=5, emax=8)
        else:
            g = nc.random_graph(rng, nmax=rng.choice([5, 8]), emax=rng.choice([8, 16]))
        g["kind"] = "mut-float" if fl else "mut"
        g["mut"] = 1
        if fl:
            g["float"] = 1
        if rng.random() < 0.3:
            add_parallels(rng, g)
        self.with_geometry(rng, g, ext=True)
        if fl:
            self.float_weights(rng, g)
        used = {x for e in g["edges"] for x in (e[1], e[2])}
        iso = [v for v in range(g["n"]) if v not in used]
        if iso and rng.random() < 0.6:
            g["late"] = sorted(rng.sample(iso, rng.randint(1, len(iso))))
        g["ops"] = random_mut_ops(rng, g, fl=fl, with_ori=self.listed(ORI_FROZEN))
        return g

    def listed(self, cls):
        """is `cls` a listed finding of known_findings.json (read, never written)? Inputs of a finding's class are generated
        only then: the engine excuses a failing case only when its class is listed (proposal: findings/C07.json)"""
        if getattr(self, "_listed", None) is None:
            import json
            try:
                with open(os.path.join(os.path.dirname(os.path.dirname(os.path.dirname(os.path.abspath(__file__)))), "known_findings.json")) as fh:
                    ents = json.load(fh).get("entries", [])
                self._listed = {e.get("class") for e in ents if e.get("property") == "C07" and e.get("status") == "finding"}
            except Exception:
                self._listed = set()
        return cls in self._listed

    def float_weights(self, rng, g):
        """float weights whose sums round: the length of the edge's polyline (what NetworkReader takes when the file has no
        weight column), multiples of 0.1 (0.1 + 0.2 > 0.3 in floats: near-ties), uniform reals; some zero"""
        style = rng.random()
        for k, e in enumerate(g["edges"]):
            l = g["lines"][k]
            if style < 0.4:
                w = float(sum(((l[i][0] - l[i + 1][0]) ** 2 + (l[i][1] - l[i + 1][1]) ** 2) ** 0.5 for i in range(len(l) - 1)))
            elif style < 0.75:
                w = rng.choice([0.0, 0.1, 0.1, 0.2, 0.3, 0.3, 0.7, 1.1])
            else:
                w = rng.choice([0.0, rng.random(), rng.random() * 10, rng.uniform(0, 1e-3)])
            e[3] = w

    def describe(self, case):
        if case.get("fam"):
            return self.describe_fam(case)
        edges = nc.expand(case)
        n = case["n"]
        d = nc.floyd_warshall(n, edges)
        ties = any(s != t and d[s][t] is not None and optimal_walks(n, edges, d, s, t) > 1 for s in range(n) for t in range(n)) if n <= 4 else "?"
        ops = ops_of(case)
        par = len({(min(e[1], e[2]), max(e[1], e[2]), str(e[3])) for e in edges}) < len(edges)
        rep = any(l[i] == l[i + 1] for l in case["lines"] for i in range(len(l) - 1))
        return {"kind": case["kind"], "n": n if n <= 4 else "5-8" if n <= 8 else "9-12",
                "m": len(edges) if len(edges) <= 3 else "4-10" if len(edges) <= 10 else "11-40",
                "zero_weight": any(nc.num(e[3]) == 0 for e in edges), "reverse_only_edge": any(e[4] < 0 for e in edges),
                "tie": ties, "line_sizes": "".join(sorted({str(len(l)) for l in case["lines"]})),
                "cut": any(o[0] in "PDF" and o[3] != "none" for o in ops),
                "modifications": "".join(sorted({o[0] for o in ops if o[0] in MUTATIONS})) or "-", "late_nodes": bool(case.get("late")),
                "weight_change_moves_a_distance": self.weight_matters(case) if case.get("mut") else "-",
                "ids": case.get("ids", "int"), "build": case.get("build", "plain"), "loose": bool(case.get("loose")), "af": bool(case.get("af")), "scribble": bool(case.get("scribble")), "recoord": bool(case.get("recoord")), "float_weights": bool(case.get("float")),
                "parallel_equal_weight": par, "repeated_vertex": rep,
                "op_kinds": "".join(sorted({o[0] for o in ops})),
                "node_forms": "".join(sorted({(a[0] if a[0] in "of" else "i") for o in ops if o[0] in "PDFB" for a in o[1:3] if isinstance(a, str) and a not in ("-", "none")})),
                "nops": len(ops) if len(ops) <= 3 else "4-9" if len(ops) <= 9 else "10-20" if len(ops) <= 20 else ">20"}

    def weight_matters(self, case):
        """some shortest_path call asks for a pair whose distance a weight assignment has changed since the build"""
        tl = timeline(case)
        if not tl:
            return False
        d0 = tl[0][0].d
        for o, (view, _) in zip(ops_of(case), tl):
            if o[0] == "P" and any(m[0] == "W" for m in ops_of(case)) and view.version:
                s, t = idx(o[1]), idx(o[2])
                if s != t and view.d[s][t] is not None and view.d[s][t] != d0[s][t]:
                    return True
        return False

    def nontrivial(self, case):
        if case.get("fam"):
            return any(M is not None and self.nontrivial(M) for M in fam_split(case)[0])
        last = None
        for o, (view, stale) in zip(ops_of(case), timeline(case)):
            if o[0] in MUTATIONS:
                continue
            d = view.d
            if o[0] == "B":
                if last is not None and last != idx(o[1]) and d[last][idx(o[1])] is not None:
                    return True
                continue
            last = idx(o[1])
            if o[0] == "P" and idx(o[1]) != idx(o[2]) and d[idx(o[1])][idx(o[2])] is not None:
                return True
        return False

    # ---------------------------------------------------------------- implementation
    def render(self, net, case, trk, t, nid, inv, einv):
        node = net.NODES[nid(t)]
        lab = node.poids
        label = "none" if lab == -1 else nc.tok(Fraction(lab))
        if trk is None:
            return {"p": "none", "label": label}
        path = [inv.get(x, repr(x)) for x in trk.path]
        xy = [[nc.tok(Fraction(o.position.getX())), nc.tok(Fraction(o.position.getY()))] for o in trk]
        # the edges recorded by the forward pass (node.antecedent_edge), read along the returned path
        used = []
        for _ in range(len(path) - 1):
            if node.antecedent == "":
                break
            used.append(einv.get(node.antecedent_edge, repr(node.antecedent_edge)))
            node = node.antecedent
        res = {"p": {"path": path, "xy": xy, "edges": used[::-1], "af": list(trk.getListAnalyticalFeatures()),
                     "z": [nc.tok(Fraction(o.position.getZ())) for o in trk]}, "label": label}
        if case.get("scribble"):
            # what a caller may do with a track it was given: move its points, empty its node list. If the track shared
            # objects with the network (edge geometries, node coordinates) the later answers of the session show it.
            for o in trk:
                o.position.setX(o.position.getX() + 1000)
                o.position.setY(-7)
            del trk.path[:]
        return res

    def impl(self, case):
        if case.get("fam"):
            return self.impl_fam(case)
        n = case["n"]
        Network, Node, Edge, Track, Obs, ENUCoords, ObsTime = self.mods
        ops = ops_of(case)
        out = []
        with nc.time_limit(5 if n <= 4 and len(ops) <= 20 else 20):
            net, nid, eid, mk = build_net(self.mods, case)
            inv = {nid(v): v for v in range(n)}
            einv = {eid(e[0]): e[0] for e in nc.expand(case)}
            od = {}
            # the network as addNode / addEdge left it
            built = None if case.get("mut") else {"next": [[einv.get(i, repr(i)) for i in net.NEXT_EDGES[nid(v)]] for v in range(n)],
                     "pos": [[nc.tok(Fraction(net.NODES[nid(v)].coord.getX())), nc.tok(Fraction(net.NODES[nid(v)].coord.getY()))] for v in range(n)],
                     "order": [inv.get(k, repr(k)) for k in net.NODES.keys()],
                     "ends": [[einv.get(k, repr(k)), inv.get(e.source.id, repr(e.source.id)), inv.get(e.target.id, repr(e.target.id)), e.orientation,
                               e.source is net.NODES[e.source.id] and e.target is net.NODES[e.target.id]] for k, e in net.EDGES.items()]}

            arg = self.mkarg(net, nid, mk)
            mut = bool(case.get("mut"))
            for op in ops:
                if op[0] in MUTATIONS:
                    out.append({"op": op[0], "r": self.modify(net, case, op, nid, eid, inv, einv)})
                else:
                    out.append(self.route_op(net, case, op, arg, od, nid, inv, einv, mut))
            dct = sorted([inv.get(k[0], -1), inv.get(k[1], -1), nc.tok(Fraction(v))] for k, v in od.items())
            if mut:
                built = self.readback(net, n, nid, inv, einv)
        return {"ops": out, "dict": dct, "net": built}

    def mkarg(self, net, nid, mk):
        """node argument of a call on `net`: "3" the id, "o3" the network's own Node object, "f3" a fresh Node object"""
        def arg(a):
            if a == "-":
                return None
            if a[0] == "o" and nid(int(a[1:])) in net.NODES:
                return net.NODES[nid(int(a[1:]))]
            if a[0] == "o":
                return mk(int(a[1:]))
            if a[0] == "f":
                return mk(int(a[1:]))
            return nid(int(a))
        return arg

    def route_op(self, net, case, op, arg, od, nid, inv, einv, mut):
        """one routing call (P / D / F / B) on `net`; the record of what it returned"""
        kind = op[0]
        fl = bool(case.get("float"))
        if mut:
            # a call that names a node the network does not have raises KeyError (only shrunk cases do that)
            missing = [a for a in op[1:3] if isinstance(a, str) and a != "-" and nid(idx(a)) not in net.NODES]
            if missing:
                try:
                    self.call(net, op, arg, od, fl)
                    return {"op": "F"} if kind == "F" else {"op": kind, "err": "no KeyError"}
                except KeyError:
                    return {"op": kind, "err": "key"}
        if kind == "B":
            try:
                trk = net.run_routing_backward(arg(op[1]))
            except AttributeError:
                return {"op": "B", "err": "attr"}
            except KeyError:
                if not case.get("fam"):
                    raise
                # (family) the antecedents on the shared Node objects were written by a search of ANOTHER network and name
                # an edge this network does not hold: a situation nothing is stated about (`skip` of fam_split)
                return {"op": "B", "err": "key"}
            return dict(self.render(net, case, trk, idx(op[1]), nid, inv, einv), op="B")
        kw = {}
        if op[3] != "none":
            kw["cut"] = cutpy(op[3], fl)
        if op[4]:
            kw["output_dict"] = od
        if kind == "P":
            trk = net.shortest_path(arg(op[1]), arg(op[2]), **kw)
            return dict(self.render(net, case, trk, idx(op[2]), nid, inv, einv), op="P")
        if kind == "D":
            v = net.shortest_distance(arg(op[1]), arg(op[2]), **kw)
            if op[2] == "-":
                return {"op": "D", "vals": ["none" if x >= 1e299 else nc.tok(Fraction(x)) for x in v]}
            return {"op": "D", "val": "none" if v == -1 else nc.tok(Fraction(v))}
        net.run_routing_forward(arg(op[1]), arg(op[2]), **kw)
        return {"op": "F"}

    def readback(self, net, n, nid, inv, einv):
        """the content of a network after the calls, read back through its public getters"""
        xy = lambda c: [nc.tok(Fraction(c.getX())), nc.tok(Fraction(c.getY()))]
        ids = list(net.getNodesId())
        return {"next": [[einv.get(i, repr(i)) for i in net.getNextEdges(nid(v))] if nid(v) in ids else [] for v in range(n)],
                "pos": [xy(net.getNode(nid(v)).coord) if nid(v) in ids else None for v in range(n)],
                "order": [inv.get(k, repr(k)) for k in ids],
                "edges": [[einv.get(k, repr(k)), inv.get(net.getEdge(k).source.id, -1), inv.get(net.getEdge(k).target.id, -1),
                           nc.tok(Fraction(net.getEdge(k).weight)), net.getEdge(k).orientation] for k in net.getEdgesId()],
                "geoms": [[xy(o.position) for o in net.getEdge(k).geom] for k in net.getEdgesId()]}

    def call(self, net, op, arg, od, fl):
        kw = {}
        if op[0] != "B":
            if op[3] != "none":
                kw["cut"] = cutpy(op[3], fl)
            if op[4]:
                kw["output_dict"] = od
        if op[0] == "B":
            return net.run_routing_backward(arg(op[1]))
        f = {"P": net.shortest_path, "D": net.shortest_distance, "F": net.run_routing_forward}[op[0]]
        return f(arg(op[1]), arg(op[2]), **kw)

    def modify(self, net, case, op, nid, eid, inv, einv):
        """a modification of the built network, the way a user of the library makes it"""
        Network, Node, Edge, Track, Obs, ENUCoords, ObsTime = self.mods
        kind = op[0]
        inplace_ok = case.get("build") != "reader"     # NetworkReader's nodes SHARE their coordinate object with an edge geometry
        mkc = lambda v, x, y: Node(nid(v), ENUCoords(x, y, alt(x, y)))

        def track(line):
            tr = Track([Obs(ENUCoords(x, y, alt(x, y)), ObsTime()) for (x, y) in line])
            if case.get("af") and len(line) > 0:
                tr.createAnalyticalFeature("speed", 1.0)
            return tr
        try:
            if kind == "N":
                net.addNode(mkc(op[1], op[2], op[3]))
                inv.setdefault(nid(op[1]), op[1])
            elif kind == "E":
                i, s, t, w, o = op[1]
                if net.hasEdge(eid(i)):
                    return "err"
                einv[eid(i)] = i
                e = Edge(eid(i), track(op[2]))
                e.orientation = o
                e.weight = nc.pynum(w)
                net.addEdge(e, mkc(s, op[3][0], op[3][1]), mkc(t, op[3][2], op[3][3]))
            elif kind == "W":
                if op[3] == 1:
                    e = net[list(net.getEdgesId()).index(eid(op[1]))]
                elif op[3] == 2:
                    e = net.EDGES[eid(op[1])]
                else:
                    e = net.getEdge(eid(op[1]))
                e.weight = nc.pynum(op[2])
            elif kind == "O":
                net.getEdge(eid(op[1])).orientation = op[2]
            elif kind == "G":
                e = net.getEdge(eid(op[1]))
                if op[3] == 1 and inplace_ok and e.geom.size() == len(op[2]):
                    for o, (x, y) in zip(e.geom, op[2]):
                        o.position.setX(x)
                        o.position.setY(y)
                        o.position.setZ(alt(x, y))
                else:
                    e.geom = track(op[2])
            elif kind == "C":
                nd = net.getNode(nid(op[1]))
                if op[4] == 1 and inplace_ok:
                    nd.coord.setX(op[2])
                    nd.coord.setY(op[3])
                    nd.coord.setZ(alt(op[2], op[3]))
                else:
                    nd.coord = ENUCoords(op[2], op[3], alt(op[2], op[3]))
        except (KeyError, ValueError):
            return "key"
        return "ok"

    # ---------------------------------------------------------------- families (networks sharing Node / Edge objects)
    def describe_fam(self, case):
        fo = case["fops"]
        members, where, conts = fam_split(case)
        after = False       # a path asked on a network after one of ITS edges went into an extract of it
        seenx = set()
        for k, o in fo:
            if o[0] == "X":
                seenx.add(k)
            elif o[0] == "P" and k in seenx:
                after = True
        return {"kind": case["kind"], "n": case["n"] if case["n"] <= 4 else "5-8", "m": len(case["edges"]) if len(case["edges"]) <= 3 else "4-10" if len(case["edges"]) <= 10 else "11-40",
                "networks": len(members), "extract_sizes": ",".join("-" if M is None else str(len(M["edges"])) for M in members[1:]),
                "path_on_parent_after_extraction": after, "path_on_extract": any(o[0] == "P" and k > 0 for k, o in fo),
                "backward_after_sub_network": any(a[1][0] == "X" and b[1][0] == "B" and a[0] == b[0] for a, b in zip(fo, fo[1:])),
                "modifications": "W" if any(o[0] == "W" for _, o in fo) else "-",
                "ids": case.get("ids", "int"), "build": case.get("build", "plain"), "af": bool(case.get("af")), "scribble": bool(case.get("scribble")),
                "op_kinds": "".join(sorted({o[0] for _, o in fo})), "nops": len(fo) if len(fo) <= 3 else "4-9" if len(fo) <= 9 else "10-20" if len(fo) <= 20 else ">20"}

    def fam_empty(self, M):
        """no call at all is made on this network (the driver's msession wants at least one)"""
        c = build_calls(M)
        return not (c["pre"] or c["post"] or M["edges"] or M["ops"])

    def impl_fam(self, case):
        n = case["n"]
        fo = case["fops"]
        out = []
        with nc.time_limit(5 if n <= 4 and len(fo) <= 20 else 20):
            net, nid, eid, mk = build_net(self.mods, case)
            inv = {nid(v): v for v in range(n)}
            einv = {eid(e[0]): e[0] for e in nc.expand(case)}
            nets, ods = [net], [{}]
            for (k, op) in fo:
                if not (0 <= k < len(nets)) or nets[k] is None:
                    out.append({"op": op[0], "err": "member"})
                    if op[0] == "X":
                        nets.append(None); ods.append({})
                    continue
                N = nets[k]
                arg = self.mkarg(N, nid, mk)
                if op[0] == "X":
                    try:
                        sub = N.sub_network(arg(op[1]), 1e300 if op[2] == "none" else cutpy(op[2]), verbose=False)
                    except KeyError:
                        out.append({"op": "X", "err": "key"})
                        nets.append(None); ods.append({})
                        continue
                    nets.append(sub); ods.append({})
                    out.append({"op": "X", "nodes": [inv.get(i, repr(i)) for i in sub.getNodesId()], "edges": [einv.get(i, repr(i)) for i in sub.getEdgesId()]})
                elif op[0] in MUTATIONS:
                    out.append({"op": op[0], "r": self.modify(N, case, op, nid, eid, inv, einv)})
                else:
                    out.append(self.route_op(N, case, op, arg, ods[k], nid, inv, einv, True))
            dicts = [sorted([inv.get(q[0], -1), inv.get(q[1], -1), nc.tok(Fraction(v))] for q, v in od.items()) for od in ods]
            built = [None if N is None else self.readback(N, n, nid, inv, einv) for N in nets]
        return {"fam": out, "dicts": dicts, "nets": built}

    def compare_fam(self, case, impl_out, model_out):
        members, where, _ = fam_split(case)
        got = [o for (k, op), o in zip(case["fops"], impl_out["fam"]) if op[0] == "X"]
        if len(impl_out["fam"]) != len(case["fops"]) or len(model_out) != len(members):
            return "%d results for %d calls on the family; model has %d networks, expected %d" % (len(impl_out["fam"]), len(case["fops"]), len(model_out), len(members))
        for j, (M, g) in enumerate(zip(members[1:], got)):
            if (M is None) != ("err" in g):
                return "extraction %d: impl=%s, predicted %s" % (j, g, "an error" if M is None else "a network")
        for k, (M, x, y) in enumerate(zip(members, fam_project(case, impl_out, members, where), model_out)):
            if M is None:
                continue
            m = self.compare(M, x, y)
            if m:
                return "network %d%s: %s" % (k, "" if k == 0 else " (extract of network %d, predicted edges %s)" % (M["parent"], [e[0] for e in M["edges"]]), m)
        return None

    def spec_fam(self, case, out):
        fo = case["fops"]
        if len(out["fam"]) != len(fo):
            return "%d results for %d calls" % (len(out["fam"]), len(fo))
        reported = [None if "err" in o else o for (k, op), o in zip(fo, out["fam"]) if op[0] == "X"]
        members, where, _ = fam_split(case, reported)
        xs = [j for j, (k, op) in enumerate(fo) if op[0] == "X"]
        for k, (M, x) in enumerate(zip(members, fam_project(case, out, members, where))):
            if M is None:
                continue
            m = self.spec(M, x)
            if m:
                if k == 0:
                    who = "the network as built"
                else:
                    kp, op = fo[xs[k - 1]]
                    who = "network %d = network %d.sub_network(%s, %s), holding the edges %s" % (k, kp, op[1], op[2], [e[0] for e in M["edges"]])
                calls = ["%s%s" % (o[0], tuple(o[1:3])) + ("->network %d" % (1 + xs.index(j)) if o[0] == "X" else "") for j, (kk, o) in enumerate(fo) if kk == k]
                return "%s; its calls in order (X = sub_network, result kept and used): %s: %s" % (who, " ".join(calls), m)
        return None

    def shrink_fam(self, case):
        fo = case["fops"]
        for j in range(len(fo)):
            if fo[j][1][0] == "X":
                # an extraction can go when its result is the last network and is never used
                nb = sum(1 for _, o in fo[:j] if o[0] == "X") + 1
                if any(o[0] == "X" for _, o in fo[j + 1:]) or any(k == nb for k, _ in fo):
                    continue
            yield dict(case, fops=fo[:j] + fo[j + 1:])
        for j, (k, o) in enumerate(fo):
            simp = [o[0]] + [a.lstrip("of") if isinstance(a, str) and a[:1] in "of" else a for a in o[1:]]
            if o[0] in "PDF" and simp[4]:
                simp[4] = 0
            if o[0] == "W" and o[3]:
                simp[3] = 0
            if simp != o:
                yield dict(case, fops=fo[:j] + [[k, simp]] + fo[j + 1:])
        for key in ("ids", "build", "af", "scribble"):
            if key in case:
                yield {k: v for k, v in case.items() if k != key}
        for c in nc.shrink_graph(case):
            if c["n"] == case["n"]:
                yield c
        for k, l in enumerate(case["lines"]):
            if len(l) > 2:
                yield dict(case, lines=case["lines"][:k] + [[l[0], l[-1]]] + case["lines"][k + 1:])

    # ---------------------------------------------------------------- model
    def requests(self, case):
        if case.get("fam"):
            return [self.mut_requests(M)[0] for M in fam_split(case)[0] if M is not None and not self.fam_empty(M)]
        if case.get("mut"):
            return self.mut_requests(case)
        edges = nc.expand(case)
        flat = lambda pts: ",".join("%d,%d" % (x, y) for (x, y) in pts) if pts else "e"
        pos = ";".join(flat([p]) for p in case["pos"]) if case["pos"] else "_"
        lines = ";".join(flat(l) for l in case["lines"]) if case["lines"] else "_"
        a = lambda x: x.replace("f", "o")
        fl = bool(case.get("float"))
        ct = lambda c: c if (c == "none" or not fl) else fbits(float(c))
        ops = []
        for o in ops_of(case):
            if o[0] == "B":
                ops.append("B:%s" % a(o[1]))
            else:
                ops.append("%s:%s:%s:%s:%d" % (o[0], a(o[1]), a(o[2]), ct(o[3]), 1 if o[4] else 0))
        etok = nc.edges_token(edges) if not fl else (";".join("%d,%d,%d,%s,%d" % (i, u, v, fbits(w), o) for (i, u, v, w, o) in edges) or "_")
        calls = build_calls(case)
        ctok = lambda l: ";".join(",".join(str(x) for x in c) for c in l) if l else "_"
        return ["C07.%sbuild %d %s %s %s %s" % ("f" if fl else "", case["n"], ctok(calls["pre"]), etok, ctok(calls["ends"]), ctok(calls["post"])),
                "C07.%ssession %d %s %s %s %s %d %s" % ("f" if fl else "", case["n"], ",".join(str(v) for v in eff_order(case)), etok, pos, lines,
                                                       1 if (case.get("af") or case.get("build") == "reader") else 0, ";".join(ops) if ops else "_")]

    def mut_requests(self, case):
        """the whole life of the network as ONE sequence of calls on an empty object: the build, then the session"""
        fl = bool(case.get("float"))
        flat = lambda pts: ",".join("%d,%d" % (x, y) for (x, y) in pts) if pts else "e"
        wt = (lambda w: fbits(float(w))) if fl else (lambda w: nc.tok(nc.num(w)))
        ct = lambda c: c if (c == "none" or not fl) else fbits(float(c))
        a = lambda x: x.replace("f", "o")
        afc = bool(case.get("af"))
        calls = build_calls(case)
        reader = case.get("build") == "reader"
        ops = ["N:%d:%d,%d" % (v, x, y) for (v, x, y) in calls["pre"]]
        for k, (i, s, t, w, o) in enumerate(nc.expand(case)):
            l = case["lines"][k]
            ops.append("E:%d,%d,%d,%s,%d:%s:%s:%d" % (i, s, t, wt(w), o, ",".join(str(x) for x in calls["ends"][k]), flat(l),
                                                      1 if (reader or afc) and len(l) > 0 else 0))
        ops += ["N:%d:%d,%d" % (v, x, y) for (v, x, y) in calls["post"]]
        for o in ops_of(case):
            k = o[0]
            if k == "N":
                ops.append("N:%d:%d,%d" % (o[1], o[2], o[3]))
            elif k == "E":
                i, s, t, w, ori = o[1]
                ops.append("E:%d,%d,%d,%s,%d:%s:%s:%d" % (i, s, t, wt(w), ori, ",".join(str(x) for x in o[3]), flat(o[2]), 1 if afc and len(o[2]) > 0 else 0))
            elif k == "W":
                ops.append("W:%d:%s" % (o[1], wt(o[2])))
            elif k == "O":
                ops.append("O:%d:%d" % (o[1], o[2]))
            elif k == "G":
                ops.append("G:%d:%s:%d" % (o[1], flat(o[2]), 1 if afc and len(o[2]) > 0 else 0))
            elif k == "C":
                ops.append("C:%d:%d,%d" % (o[1], o[2], o[3]))
            elif k == "B":
                ops.append("B:%s" % a(o[1]))
            else:
                ops.append("%s:%s:%s:%s:%d" % (k, a(o[1]), a(o[2]), ct(o[3]), 1 if o[4] else 0))
        return ["C07.%smsession %d %s" % ("f" if fl else "", case["n"], ";".join(ops))]

    def mut_decode(self, case, replies):
        r = replies[0]
        if r == "bad-request":
            raise ValueError("bad-request")
        outs, dct, content = r.split("#")
        calls = build_calls(case)
        nbuild = len(calls["pre"]) + len(nc.expand(case)) + len(calls["post"])
        ops = ops_of(case)
        fl = bool(case.get("float"))
        num = (lambda x: x if x == "none" else nc.tok(Fraction(bitsf(x)))) if fl else (lambda x: x)
        items = [] if outs == "_" else outs.split("|")
        if len(items) != nbuild + len(ops):
            raise ValueError("%d outputs for %d calls" % (len(items), nbuild + len(ops)))
        if any(x != "ok" for x in items[:nbuild]):
            raise ValueError("the model refuses a call of the build: %s" % items[:nbuild])
        res = []
        for op, item in zip(ops, items[nbuild:]):
            if op[0] in MUTATIONS:
                res.append({"op": op[0], "r": item})
            elif item in ("attr", "key"):
                res.append({"op": op[0], "err": item})
            elif item == "ok":
                res.append({"op": "F"})
            elif item.startswith("d="):
                res.append({"op": "D", "val": num(item[2:])})
            elif item.startswith("l="):
                res.append({"op": "D", "vals": [] if item[2:] == "_" else [num(x) for x in item[2:].split(",")]})
            else:
                p, label = item.split("@")
                label = num(label)
                if p in ("none", "diverge", "features"):
                    res.append({"op": op[0], "p": p, "label": label})
                else:
                    nodes, pts = p.split(":")
                    q = [] if pts == "_" else pts.split(",")
                    res.append({"op": op[0], "label": label,
                                "p": {"path": [int(x) for x in nodes.split(",")], "xy": [[q[i], q[i + 1]] for i in range(0, len(q), 2)]}})
        entries = [] if dct == "_" else [e.split(",") for e in dct.split(";")]
        nx, ps, od_, es, gs = content.split("!")
        lst = lambda x: [] if x == "_" else x.split(";")
        pairs = lambda l: [] if l == "e" else [[q[i], q[i + 1]] for q in [l.split(",")] for i in range(0, len(q), 2)]
        built = {"next": [[] if l == "e" else [int(x) for x in l.split(",")] for l in lst(nx)],
                 "pos": [None if l == "-" else l.split(",") for l in lst(ps)],
                 "order": [] if od_ == "_" else [int(x) for x in od_.split(",")],
                 "edges": [[int(f[0]), int(f[1]), int(f[2]), num(f[3]), int(f[4])] for f in (e.split(",") for e in lst(es))],
                 "geoms": [pairs(l) for l in lst(gs)]}
        return {"ops": res, "dict": sorted([int(e[0]), int(e[1]), num(e[2])] for e in entries), "net": built}

    def decode(self, case, replies):
        if case.get("fam"):
            out, it = [], iter(replies)
            n = case["n"]
            for M in fam_split(case)[0]:
                if M is not None and self.fam_empty(M):      # Network() on which nothing was called (an extract without edges)
                    out.append({"ops": [], "dict": [], "net": {"next": [[] for _ in range(n)], "pos": [None] * n, "order": [], "edges": [], "geoms": []}})
                else:
                    out.append(None if M is None else self.mut_decode(M, [next(it)]))
            return out
        if case.get("mut"):
            return self.mut_decode(case, replies)
        r = replies[1]
        if r == "bad-request" or replies[0] == "bad-request":
            raise ValueError("bad-request")
        nx, ps, od_ = replies[0].split("#")
        built = {"next": [[] if l == "e" else [int(x) for x in l.split(",")] for l in ([] if nx == "_" else nx.split(";"))],
                 "pos": [l.split(",") for l in ([] if ps == "_" else ps.split(";"))],
                 "order": [] if od_ == "_" else [int(x) for x in od_.split(",")]}
        outs, dct = r.split("#")
        ops = ops_of(case)
        fl = bool(case.get("float"))
        num = (lambda x: x if x == "none" else nc.tok(Fraction(bitsf(x)))) if fl else (lambda x: x)
        items = [] if outs == "_" else outs.split("|")
        if len(items) != len(ops):
            raise ValueError("%d outputs for %d ops" % (len(items), len(ops)))
        res = []
        for op, item in zip(ops, items):
            if item == "attr":
                res.append({"op": "B", "err": "attr"})
            elif item == "ok":
                res.append({"op": "F"})
            elif item.startswith("d="):
                res.append({"op": "D", "val": num(item[2:])})
            elif item.startswith("l="):
                res.append({"op": "D", "vals": [] if item[2:] == "_" else [num(x) for x in item[2:].split(",")]})
            else:
                p, label = item.split("@")
                label = num(label)
                if p in ("none", "diverge", "features"):
                    res.append({"op": op[0], "p": p, "label": label})
                else:
                    nodes, pts = p.split(":")
                    q = [] if pts == "_" else pts.split(",")
                    res.append({"op": op[0], "label": label,
                                "p": {"path": [int(x) for x in nodes.split(",")], "xy": [[q[i], q[i + 1]] for i in range(0, len(q), 2)]}})
        entries = [] if dct == "_" else [e.split(",") for e in dct.split(";")]
        return {"ops": res, "dict": sorted([int(e[0]), int(e[1]), num(e[2])] for e in entries), "net": built}

    def compare(self, case, impl_out, model_out):
        """exact agreement with the model, except where the property leaves freedom — there the implementation's answer is
        validated by the oracle instead (a different but legal tie-break must not be an alarm):
          * several optimal walks: another optimal route (same label);
          * a path requested for a node the search did not run to (stopped at another target, or cut-off below the node's
            distance): nothing is required but that a returned path be a real route weighing its label (tentative labels
            depend on the order in which equal labels are popped);
          * shortest_distance beyond the cut-off: a tentative label;
          * output_dict of a search stopped at a target: which nodes at the target's distance were recorded before it."""
        if "err" in impl_out:
            return None if impl_out["err"] == "err:Skipped" else "implementation failed: %s" % impl_out["err"]
        if case.get("fam"):
            return self.compare_fam(case, impl_out, model_out)
        skip = case.get("skip", ())
        a, b = impl_out["ops"], model_out["ops"]
        if len(a) != len(b):
            return "impl has %d results, model %d" % (len(a), len(b))
        n = case["n"]
        ops = ops_of(case)
        fl = bool(case.get("float"))
        nx, ny = impl_out["net"], model_out["net"]
        if case.get("mut"):
            for key in ("next", "pos", "order", "edges", "geoms"):
                if nx[key] != ny[key]:
                    return "content of the network after the calls (read back through the getters), %s: impl=%s model=%s" % (key, nx[key], ny[key])
        else:
            for key in ("next", "pos", "order"):
                if nx[key] != ny[key]:
                    return "network as built, %s: impl=%s model=%s" % (key, nx[key], ny[key])
            want = [[e[0], e[1], e[2], e[4], True] for e in nc.expand(case)]
            if nx["ends"] != want:
                return "network as built: edges (id, source, target, orientation, ends are the registered nodes) %s, given %s" % (nx["ends"], want)
        tl = timeline(case, frozen_ori=True)      # model and implementation both route by NEXT_EDGES as addEdge filled it
        view = [None]

        def dist():
            return view[0].edges, view[0].d
        last = None
        for k, (op, x, y) in enumerate(zip(ops, a, b)):
            bad = "op %d %s: impl=%s model=%s" % (k, op, x, y)
            view[0], stale = tl[k]
            if k in skip:
                continue        # (family) a backward pass on routing attributes written by another network's search
            if op[0] in MUTATIONS:
                if x != y:
                    return bad
                continue
            if "err" in x or "err" in y:
                if x != y:
                    return bad
                if x["err"] == "key":
                    last = None
                continue
            if op[0] != "B":
                last = (idx(op[1]), None if op[2] == "-" else idx(op[2]), cutval(op[3], fl))
            strict = op[0] == "B" and stale       # old flags on the content of now: nothing to validate, the model must agree
            if "p" not in x or "p" not in y:
                if x == y:
                    continue
                if op[0] == "D" and x.keys() == y.keys():
                    edges, d = dist()
                    s0, t0, c0 = last
                    if "val" in x:           # free only beyond the cut-off
                        if d[s0][t0] is not None and not within(d[s0][t0], c0, fl) and x["val"] != "none":
                            continue
                    elif len(x["vals"]) == len(y["vals"]) == len(view[0].order):
                        order = view[0].order if case.get("mut") else eff_order(case)
                        if all(xv == yv or (d[s0][v] is not None and not within(d[s0][v], c0, fl)) for v, xv, yv in zip(order, x["vals"], y["vals"])):
                            continue
                return bad
            px, py = x["p"], y["p"]
            if isinstance(px, dict) and px.get("af"):
                return "op %d %s: the returned track has analytical features %s, the model's has none" % (k, op, px["af"])
            agree = (px == py) or (isinstance(px, dict) and isinstance(py, dict) and px["path"] == py["path"] and px["xy"] == py["xy"])
            if agree and x["label"] == y["label"]:
                continue
            if not last or strict:
                return bad
            edges, d = dist()
            s0, t0, c0 = last
            t = idx(op[2]) if op[0] == "P" else idx(op[1])
            if s0 == t or d[s0][t] is None:
                return bad
            complete = (t0 is None or t0 == t) and within(d[s0][t], c0, fl)
            if px == "none":
                if complete:
                    return bad
                continue
            if not isinstance(px, dict):
                return bad
            msg, total = self.check_route(case, view[0], s0, t, px)
            if msg is not None or x["label"] == "none" or not same(Fraction(x["label"]), total, fl):
                return bad
            if not complete:
                continue
            if same(total, d[s0][t], fl) and (fl or x["label"] == y["label"]) and optimal_walks(n, edges, d, s0, t, fl=fl) > 1:
                continue
            return bad
        if impl_out["dict"] != model_out["dict"]:
            bad = "output_dict: impl=%s model=%s" % (impl_out["dict"], model_out["dict"])
            if case.get("mut"):
                return bad        # entries of different moments in one dictionary: no validation, the model must agree
            view[0] = tl[0][0] if tl else Content(case)
            edges, d = dist()
            A = {(e[0], e[1]): e[2] for e in impl_out["dict"]}
            B = {(e[0], e[1]): e[2] for e in model_out["dict"]}
            free = set()
            for op in ops:
                if op[0] != "B" and op[4] and op[2] != "-":
                    s0, t0 = idx(op[1]), idx(op[2])
                    if d[s0][t0] is not None:
                        free |= {(s0, v) for v in range(n) if d[s0][v] is not None and same(d[s0][v], d[s0][t0], fl)}
            for key, v in A.items():
                if not (0 <= key[0] < n and 0 <= key[1] < n) or d[key[0]][key[1]] is None or not same(Fraction(v), d[key[0]][key[1]], fl):
                    return bad
            if any(key not in free for key in set(A) ^ set(B)):
                return bad
        return None

    # ---------------------------------------------------------------- oracle
    def check_route(self, case, view, s, t, x):
        """x = {"path", "xy", "edges"} returned for a search from s and the target t, `view` = the Content of the network at
        that moment: (what is wrong | None, total weight).
        A real walk from s to t along the recorded edges, each traversable in that direction; geometry = the position of s
        followed by those edges' polylines, each oriented along the travel and without its first vertex."""
        byid = {e[0]: e for e in view.edges}
        lines = view.lines
        pos = view.pos
        path, used = x["path"], x["edges"]
        if not path or path[0] != s or path[-1] != t:
            return "path %s does not go from %d to %d" % (path, s, t), None
        zmsg = None          # reported after the planimetric checks (a displaced vertex is better described by those)
        for (px, py), z in zip(x["xy"], x.get("z", [])):
            if Fraction(z) != alt(Fraction(px), Fraction(py)):
                zmsg = "the vertex (%s, %s) of the returned geometry has altitude %s, every vertex and node there was given %s" % (px, py, z, nc.tok(alt(Fraction(px), Fraction(py))))
                break
        if len(used) != len(path) - 1:
            return "path %s has %d recorded edges" % (path, len(used)), None
        total = 0
        options = []     # per step, the polyline(s) oriented along the direction of travel
        for i, eid in enumerate(used):
            if eid not in byid:
                return "recorded edge %r does not exist" % (eid,), None
            _, es, et, w, o = byid[eid]
            a, b = path[i], path[i + 1]
            opts = []
            if o >= 0 and es == a and et == b:
                opts.append(lines[eid])
            if o <= 0 and et == a and es == b:
                opts.append(lines[eid][::-1])
            if not opts:
                return "step %s->%s of path %s: edge %d (source %d, target %d, orientation %d) cannot be traversed in that direction" % (a, b, path, eid, es, et, o), None
            total += nc.num(w)
            options.append(opts)
        got = [[Fraction(px), Fraction(py)] for px, py in x["xy"]]
        if (not all(view.joined(eid) for eid in used)) if case.get("mut") else (case.get("loose") or case.get("recoord")):
            # some polyline on the way does not join the positions of its ends (at that moment) / a node was given several
            # positions: no chain to speak of (the geometry is compared with the model only) — but the path still ends at the
            # target's position
            if not got or got[-1] != list(pos[t]):
                return "geometry %s does not end at the target's position %s" % (x["xy"], pos[t]), None
            return zmsg, (None if zmsg else total)
        ok = False
        for choice in itertools.islice(itertools.product(*options), 64):
            want = [list(pos[s])]
            for pl in choice:
                want += [list(p) for p in pl[1:]]
            if got == want:
                ok = True
                break
        if not ok:
            return "geometry %s of path %s via edges %s is not the chain of the edges' polylines along the direction of travel (expected %s)" % (
                x["xy"], path, used, want), None
        if got[0] != list(pos[s]) or got[-1] != list(pos[t]):
            return "geometry %s does not start at the source's position %s and end at the target's %s" % (x["xy"], pos[s], pos[t]), None
        return zmsg, (None if zmsg else total)

    def check_pair(self, case, view, d, s, t, x):
        """x returned for (s,t), reachable, search complete for t: walk, optimal, geometry chained"""
        msg, total = self.check_route(case, view, s, t, x)
        if msg:
            return msg
        fl = bool(case.get("float"))
        if not same(total, d[s][t], fl):
            return "path %s via edges %s weighs %s, the shortest distance is %s" % (x["path"], x["edges"], float(total) if fl else nc.tok(total), float(d[s][t]) if fl else nc.tok(d[s][t]))
        return None

    def check_result(self, case, view, d, s, t, c, complete, o, what):
        """the result `o` of a path request to t after a search from s with cut-off c; complete: the search was not
        stopped at another target (it ran to t, or to exhaustion / the cut-off)"""
        x = o["p"]
        fl = bool(case.get("float"))
        lab = None if o["label"] == "none" else Fraction(o["label"])
        if s == t:
            return None           # the statement is about targets other than the source
        if d[s][t] is None:
            if x != "none":
                return "%s returns %s but no permitted walk exists" % (what, x)
            return None
        if complete and within(d[s][t], c, fl):
            if not isinstance(x, dict):
                return "%s returns %s but the target is reachable at distance %s" % (what, x, nc.tok(d[s][t]))
            m = self.check_pair(case, view, d, s, t, x)
            if m:
                return "%s: %s" % (what, m)
            if lab is None or not same(lab, d[s][t], fl):
                return "%s: the weights of the path sum to %s but the distance reported (NODES[target].poids) is %s" % (what, nc.tok(d[s][t]), o["label"])
            return None
        # cut-off below the true distance, or a backward pass after a search stopped at another target: the statement does
        # not require a path, nor an optimal one; but "a returned path is a real route": a walk, chained, its weights
        # summing to the value reported for the target
        if isinstance(x, dict):
            m, total = self.check_route(case, view, s, t, x)
            if m:
                return "%s: %s" % (what, m)
            if lab is None or not same(lab, total, fl):
                return "%s: the weights of the path sum to %s but the value reported for the target (NODES[target].poids) is %s" % (what, nc.tok(total), o["label"])
        elif x != "none":
            return "%s returns %s" % (what, x)
        return None

    def classify(self, case, impl_out, msg):
        """ORI_FROZEN: the case assigns the orientation attribute of an edge of the built network, and the oracle has nothing
        to object once it reads every such edge with the orientation it was ADDED with (NEXT_EDGES is filled by addEdge and
        never refreshed: `orientation_attribute_not_read`)."""
        if isinstance(case, dict) and case.get("mut") and any(o[0] == "O" for o in ops_of(case)):
            try:
                if self.spec(case, impl_out, frozen_ori=True) is None:
                    return ORI_FROZEN
            except Exception:
                return None
        return None

    def spec(self, case, out, frozen_ori=False):
        if "err" in out:
            if out["err"] == "err:Skipped":
                return None     # not evaluated (see netcommon.time_limit); the cases that timed out are the failures
            return "the implementation failed: %s %s" % (out["err"], out.get("detail", ""))
        if case.get("fam"):
            return self.spec_fam(case, out)
        n = case["n"]
        ops = ops_of(case)
        skip = case.get("skip", ())
        if len(out["ops"]) != len(ops):
            return "%d results for %d calls" % (len(out["ops"]), len(ops))
        tl = timeline(case, frozen_ori)
        last = None
        for k, (op, o) in enumerate(zip(ops, out["ops"])):
            pre = "call %d: " % k if ("ops" in case or case.get("seq")) else ""
            view, stale = tl[k]
            if k >= case.get("blind_from", len(ops)):
                break             # (family) an Edge object this network shares was modified through another network
            if op[0] in MUTATIONS:
                continue          # the statement is about what the routing calls return
            if case.get("mut"):
                pre += "[after %s] " % ", ".join(self.show_mut(m) for m in ops[:k] if m[0] in MUTATIONS) if view.version else ""
                if o.get("err") == "key" or any(idx(a) not in view.pos for a in op[1:3] if isinstance(a, str) and a not in ("-", "none")):
                    last = None   # a node the network does not have: nothing is stated
                    continue
            d = view.d
            if op[0] == "B":
                if last is None or stale or k in skip:
                    continue      # backward pass before any search, or on a network modified since the search: nothing is stated
                if "err" in o:
                    return "%srun_routing_backward(%s) after a search raised %s" % (pre, op[1], o["err"])
                s0, t0, c0 = last
                t = idx(op[1])
                m = self.check_result(case, view, d, s0, t, c0, t0 is None or t0 == t, o,
                                      "%srun_routing_backward(%d) after the search from %d (target %s, cut %s)" % (pre, t, s0, t0, "none" if c0 is None else nc.tok(c0)))
                if m:
                    return m
                continue
            s, t, c = idx(op[1]), (None if op[2] == "-" else idx(op[2])), cutval(op[3], bool(case.get("float")))
            last = (s, t, c)
            if op[0] == "P":
                if "err" in o:
                    return "%sshortest_path(%d,%d) raised %s" % (pre, s, t, o["err"])
                m = self.check_result(case, view, d, s, t, c, True, o,
                                      "%sshortest_path(%d,%d%s)" % (pre, s, t, "" if c is None else ",cut=%s" % nc.tok(c)))
                if m:
                    return m
        return None

    def show_mut(self, m):
        k = m[0]
        if k == "W":
            return "weight of edge %d := %s" % (m[1], m[2])
        if k == "O":
            return "orientation of edge %d := %d" % (m[1], m[2])
        if k == "G":
            return "polyline of edge %d := %s" % (m[1], m[2])
        if k == "C":
            return "node %d moved to (%s,%s)" % (m[1], m[2], m[3])
        if k == "E":
            return "addEdge(%s)" % (m[1],)
        return "addNode(%d)" % m[1]

    # ---------------------------------------------------------------- shrinking / search
    def shrink(self, case):
        if case.get("fam"):
            yield from self.shrink_fam(case)
            return
        ops = case.get("ops")
        if ops is not None:
            for k in range(len(ops)):
                yield dict(case, ops=ops[:k] + ops[k + 1:])
            for k, o in enumerate(ops):
                simp = [o[0]] + [a.lstrip("of") if isinstance(a, str) and a[:1] in "of" else a for a in o[1:]]
                if o[0] in MUTATIONS:
                    # the plainest form of the modification: through getEdge / a new object, a two-vertex polyline
                    plain = list(o)
                    if o[0] in "WG" and o[3]:
                        plain[3] = 0
                    if o[0] == "C" and o[4]:
                        plain[4] = 0
                    if o[0] in "GE" and len(o[2]) > 2:
                        plain[2] = [o[2][0], o[2][-1]]
                    if plain != o:
                        yield dict(case, ops=ops[:k] + [plain] + ops[k + 1:])
                    continue
                if o[0] != "B" and simp[4]:
                    simp[4] = 0
                if simp != o:
                    yield dict(case, ops=ops[:k] + [simp] + ops[k + 1:])
        for key in ("ids", "build", "af", "scribble", "recoord", "late"):
            if key in case:
                yield {k: v for k, v in case.items() if k != key}
        if case.get("seq") == "euler":
            c = {k: v for k, v in case.items() if k != "seq"}
            yield c
            c = dict(c, ops=ops_of(case))
            yield c
        for c in nc.shrink_graph(case):
            if ops is not None and c["n"] != case["n"]:
                continue          # the calls name the nodes
            yield c
        if "edges" in case:
            for k, l in enumerate(case["lines"]):
                if len(l) > 2:
                    yield dict(case, lines=case["lines"][:k] + [[l[0], l[-1]]] + case["lines"][k + 1:])

    def mutate(self, case, rng):
        if case.get("fam"):
            # the same family with the calls on the extracts left out / with one more extraction in front
            fo = case["fops"]
            if any(o[0] == "X" for _, o in fo):
                yield dict(case, fops=[[k, o] for k, o in fo if k == 0])
            yield dict(case, fops=[[0, ["X", str(case["order"][0]), "none"]]] + [[k if k == 0 else k + 1, o] for k, o in fo])
        c = nc.explicit(case)
        for k, e in enumerate(c["edges"]):
            yield dict(c, edges=c["edges"][:k] + [e[:3] + [0, e[4]]] + c["edges"][k + 1:])
            yield dict(c, edges=c["edges"][:k] + [[e[0], e[2], e[1], e[3], -e[4]]] + c["edges"][k + 1:],
                       lines=c["lines"][:k] + [c["lines"][k][::-1]] + c["lines"][k + 1:])
