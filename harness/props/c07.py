"""C07 — a returned shortest path is a real, optimal, geometrically continuous route (tracklib/core/network.py)."""
import itertools
from fractions import Fraction
from engine import Prop
from props import netcommon as nc


def cutval(tokn):
    return None if tokn == "none" else Fraction(tokn)


def within(d, c):
    return d is not None and (c is None or d <= c)


def optimal_walks(n, edges, d, s, t, cap=2):
    """number (capped) of walks of permitted arcs from s to t whose weight is d[s][t], as edge sequences"""
    tight = {}
    for (u, v, w, i) in nc.arcs(edges):
        if d[s][u] is not None and d[s][v] is not None and d[s][u] + w == d[s][v]:
            tight.setdefault(u, []).append(v)
    count = 0
    stack = [(s, 0)]
    while stack and count < cap:
        u, depth = stack.pop()
        if u == t and depth > 0:
            count += 1
        if depth < 2 * n + 1:
            for v in tight.get(u, []):
                stack.append((v, depth + 1))
    return count


class P(Prop):
    id = "C07"
    design_ref = "DESIGN.md section 5, C07"
    M = "TracklibVerif.Props.C07"
    theorems = [
        (M, "TV.C07.forward_state_good", "the flags left by run_routing_forward(s,t,cut) satisfy the invariants: antecedent is settled, joined by antecedent_edge in a permitted direction, tight (d v = d a + w), well-founded in settle order"),
        (M, "TV.C07.path_is_walk", "any path returned by shortest_path(s,t,cut): node list from s to t, consecutive nodes joined by the recorded edge in a permitted direction; geometry = chain of those edges' polylines along the travel, junctions once, ending at pos t; weights sum to the label of t"),
        (M, "TV.C07.path_optimal", "for shortest_path(s,t) the recorded edges' weights sum to the true shortest distance"),
        (M, "TV.C07.path_optimal_cut", "with a cut-off not below the true distance the returned path still realises the true distance"),
        (M, "TV.C07.geometry_chained", "if every edge polyline runs from its source's to its target's position, the returned geometry = pos s followed by the used edges' polylines, each oriented along the travel and without its first vertex (junctions once); starts at pos s, ends at pos t"),
        (M, "TV.C07.unreachable_none", "no permitted walk => None; t = s => None (as coded)"),
        (M, "TV.C07.reachable_path", "a reachable target other than the source always gets a path"),
        (M, "TV.C07.never_diverges", "the loop `while node.antecedent != \"\"` always terminates (within n+1 iterations) on the flags left by the forward pass"),
    ]
    partial = []
    open_statements = ["Track.copy/reverse/__gt__/__add__ are modelled as list operations on the vertex list (not proved about track.py)",
                       "with a cut-off below the true distance shortest_path may return a tentative (non-optimal) path: outside the statement, not checked"]
    modelled = ("Network.run_routing_forward (as for C06) and run_routing_backward as it is after fix 9d0d428 (walk of antecedent / antecedent_edge, "
                "polyline reversed when e.source != node, appended minus its first vertex, final reverse, path = node ids reversed), shortest_path; "
                "Track.copy/reverse/__gt__/__add__ as list operations on the vertex list")
    trusted = ["Track.copy (deepcopy), Track.reverse, Track.__gt__(int), Track.__add__ are modelled as list copy / reverse / drop / append on the vertices",
               "priority_dict is modelled as extract-min by (priority, node id)"]
    rule = ("the C06 graph space (all edge lists of length <= 2 on <= 3 nodes in quick, + all 3-edge multisets in thorough; random to 12 nodes / 40 edges) with random "
            "node positions on an integer lattice (some coincident) and 1-4-vertex edge polylines from the source's to the target's position; every ordered pair. "
            "non-trivial = some pair s != t is joined by a walk; tags count zero-weight edges, edges traversed against their stored direction, ties")

    def setup(self):
        self.mods = nc.import_mods()

    # ---------------------------------------------------------------- generators
    def exhaustive_scopes(self, tier):
        s = ["all edge lists (ordered) of length 0..2 on 1..3 nodes, weights {0,1,2}, orientations {-1,0,1} (8067 graphs), one random lattice geometry each, all ordered pairs"]
        if tier == "thorough":
            s.append("all multisets of 3 edges on 1..3 nodes over the same alphabet (100482 multigraphs), edge / node insertion order shuffled, one random geometry each")
        return s

    def with_geometry(self, rng, g):
        pos, lines = nc.random_geometry(rng, g["n"], nc.expand(g))
        g["pos"] = pos
        g["lines"] = lines
        return g

    def cases(self, rng, tier):
        out = []
        for n in (1, 2, 3):
            for k in (0, 1, 2):
                for e in nc.enum_graphs(n, k, ordered=True):
                    order = list(range(n)); rng.shuffle(order)
                    out.append(self.with_geometry(rng, {"kind": "ex", "n": n, "order": order, "e": list(e)}))
        if tier == "thorough":
            for n in (1, 2, 3):
                for e in nc.enum_graphs(n, 3, ordered=False):
                    e = list(e); rng.shuffle(e)
                    order = list(range(n)); rng.shuffle(order)
                    out.append(self.with_geometry(rng, {"kind": "ex3", "n": n, "order": order, "e": e}))
        nsmall, nbig = (1500, 400) if tier == "quick" else (20000, 5000)
        for _ in range(nsmall):
            out.append(self.with_geometry(rng, dict(nc.random_graph(rng, small=True), kind="rnd-small")))
        for _ in range(nbig):
            g = nc.random_graph(rng, nmax=rng.choice([5, 8, 12]), emax=rng.choice([8, 20, 40]))
            g["kind"] = "rnd"
            if rng.random() < 0.3:
                allc = nc.cuts_for(nc.floyd_warshall(g["n"], g["edges"]))
                g["cut"] = nc.tok(rng.choice(allc))
            out.append(self.with_geometry(rng, g))
        return out

    def describe(self, case):
        edges = nc.expand(case)
        n = case["n"]
        d = nc.floyd_warshall(n, edges)
        ties = any(s != t and d[s][t] is not None and optimal_walks(n, edges, d, s, t) > 1 for s in range(n) for t in range(n)) if n <= 4 else "?"
        return {"kind": case["kind"], "n": n if n <= 4 else "5-8" if n <= 8 else "9-12",
                "m": len(edges) if len(edges) <= 3 else "4-10" if len(edges) <= 10 else "11-40",
                "zero_weight": any(nc.num(e[3]) == 0 for e in edges), "reverse_only_edge": any(e[4] < 0 for e in edges),
                "tie": ties, "line_sizes": "".join(sorted({str(len(l)) for l in case["lines"]})), "cut": case.get("cut", "none") != "none"}

    def nontrivial(self, case):
        n = case["n"]
        d = nc.floyd_warshall(n, nc.expand(case))
        return any(d[s][t] is not None for s in range(n) for t in range(n) if s != t)

    # ---------------------------------------------------------------- implementation
    def impl(self, case):
        n = case["n"]
        cut = case.get("cut", "none")
        kw = {} if cut == "none" else {"cut": nc.pynum(cut)}
        res = []
        with nc.time_limit(3 if n <= 4 else 20):
            net = nc.build_network(self.mods, case, with_geom=True)
            for s in range(n):
                for t in range(n):
                    trk = net.shortest_path(s, t, **kw)
                    if trk is None:
                        res.append("none")
                        continue
                    path = list(trk.path)
                    xy = [[nc.tok(Fraction(o.position.getX())), nc.tok(Fraction(o.position.getY()))] for o in trk]
                    # the edges recorded by the forward pass (node.antecedent_edge), read along the returned path
                    used = []
                    node = net.NODES[t]
                    for _ in range(len(path) - 1):
                        if node.antecedent == "":
                            break
                        used.append(node.antecedent_edge)
                        node = node.antecedent
                    res.append({"path": path, "xy": xy, "edges": used[::-1]})
        return {"res": res}

    # ---------------------------------------------------------------- model
    def requests(self, case):
        edges = nc.expand(case)
        flat = lambda pts: ",".join("%d,%d" % (x, y) for (x, y) in pts) if pts else "e"
        pos = ";".join(flat([p]) for p in case["pos"]) if case["pos"] else "_"
        lines = ";".join(flat(l) for l in case["lines"]) if case["lines"] else "_"
        return ["C07.paths %d %s %s %s %s" % (case["n"], nc.edges_token(edges), pos, lines, case.get("cut", "none"))]

    def decode(self, case, replies):
        r = replies[0]
        if r == "bad-request":
            raise ValueError("bad-request")
        res = []
        for item in ([] if r == "_" else r.split("|")):
            if item in ("none", "diverge"):
                res.append(item)
                continue
            nodes, pts = item.split(":")
            p = [] if pts == "_" else pts.split(",")
            res.append({"path": [int(x) for x in nodes.split(",")], "xy": [[p[i], p[i + 1]] for i in range(0, len(p), 2)]})
        return {"res": res}

    def compare(self, case, impl_out, model_out):
        if "err" in impl_out:
            return None if impl_out["err"] == "err:Skipped" else "implementation failed: %s" % impl_out["err"]
        n = case["n"]
        a, b = impl_out["res"], model_out["res"]
        if len(a) != len(b):
            return "impl has %d results, model %d" % (len(a), len(b))
        edges = d = None
        for k, (x, y) in enumerate(zip(a, b)):
            s, t = divmod(k, n)
            if isinstance(x, dict) and isinstance(y, dict) and x["path"] == y["path"] and x["xy"] == y["xy"]:
                continue
            if x == y:
                continue
            # a different answer is legal only where the property leaves freedom (several optimal walks):
            # there the implementation's path is validated by the oracle instead
            if edges is None:
                edges = nc.expand(case)
                d = nc.floyd_warshall(n, edges)
            if isinstance(x, dict) and isinstance(y, dict) and self.check_pair(case, edges, d, s, t, x) is None \
                    and optimal_walks(n, edges, d, s, t) > 1:
                continue
            return "pair (%d,%d): impl=%s model=%s" % (s, t, x, y)
        return None

    # ---------------------------------------------------------------- oracle
    def check_pair(self, case, edges, d, s, t, x):
        """x = {"path", "xy", "edges"} returned for (s,t), reachable: walk, optimal, geometry chained"""
        byid = {e[0]: e for e in edges}
        lines = {e[0]: case["lines"][k] for k, e in enumerate(edges)}
        pos = case["pos"]
        path, used = x["path"], x["edges"]
        if not path or path[0] != s or path[-1] != t:
            return "path %s does not go from %d to %d" % (path, s, t)
        if len(used) != len(path) - 1:
            return "path %s has %d recorded edges" % (path, len(used))
        total = 0
        options = []     # per step, the polyline(s) oriented along the direction of travel
        for i, eid in enumerate(used):
            if eid not in byid:
                return "recorded edge %r does not exist" % (eid,)
            _, es, et, w, o = byid[eid]
            a, b = path[i], path[i + 1]
            opts = []
            if o >= 0 and es == a and et == b:
                opts.append(lines[eid])
            if o <= 0 and et == a and es == b:
                opts.append(lines[eid][::-1])
            if not opts:
                return "step %d->%d of path %s: edge %d (source %d, target %d, orientation %d) cannot be traversed in that direction" % (a, b, path, eid, es, et, o)
            total += nc.num(w)
            options.append(opts)
        if total != d[s][t]:
            return "path %s via edges %s weighs %s, the shortest distance is %s" % (path, used, nc.tok(total), nc.tok(d[s][t]))
        got = [[Fraction(px), Fraction(py)] for px, py in x["xy"]]
        ok = False
        for choice in itertools.islice(itertools.product(*options), 64):
            want = [list(pos[s])]
            for pl in choice:
                want += [list(p) for p in pl[1:]]
            if got == want:
                ok = True
                break
        if not ok:
            return "geometry %s of path %s via edges %s is not the chain of the edges' polylines along the direction of travel (expected %s)" % (
                x["xy"], path, used, want)
        if got[0] != list(pos[s]) or got[-1] != list(pos[t]):
            return "geometry %s does not start at the source's position %s and end at the target's %s" % (x["xy"], pos[s], pos[t])
        return None

    def spec(self, case, out):
        if "err" in out:
            if out["err"] == "err:Skipped":
                return None     # not evaluated (see netcommon.time_limit); the cases that timed out are the failures
            return "the implementation failed: %s %s" % (out["err"], out.get("detail", ""))
        n = case["n"]
        edges = nc.expand(case)
        d = nc.floyd_warshall(n, edges)
        c = cutval(case.get("cut", "none"))
        if len(out["res"]) != n * n:
            return "%d results for %d pairs" % (len(out["res"]), n * n)
        for k, x in enumerate(out["res"]):
            s, t = divmod(k, n)
            if s == t:
                continue          # the statement is about targets other than the source
            if d[s][t] is None:
                if x != "none":
                    return "shortest_path(%d,%d) returns %s but no permitted walk exists" % (s, t, x)
            elif within(d[s][t], c):
                if not isinstance(x, dict):
                    return "shortest_path(%d,%d) returns %s but the target is reachable at distance %s" % (s, t, x, nc.tok(d[s][t]))
                m = self.check_pair(case, edges, d, s, t, x)
                if m:
                    return "shortest_path(%d,%d): %s" % (s, t, m)
        return None

    # ---------------------------------------------------------------- shrinking / search
    def shrink(self, case):
        for c in nc.shrink_graph(case):
            yield c
        if "edges" in case:
            for k, l in enumerate(case["lines"]):
                if len(l) > 2:
                    yield dict(case, lines=case["lines"][:k] + [[l[0], l[-1]]] + case["lines"][k + 1:])

    def mutate(self, case, rng):
        c = nc.explicit(case)
        for k, e in enumerate(c["edges"]):
            yield dict(c, edges=c["edges"][:k] + [e[:3] + [0, e[4]]] + c["edges"][k + 1:])
            yield dict(c, edges=c["edges"][:k] + [[e[0], e[2], e[1], e[3], -e[4]]] + c["edges"][k + 1:],
                       lines=c["lines"][:k] + [c["lines"][k][::-1]] + c["lines"][k + 1:])
