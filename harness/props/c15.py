"""C15 — kernel smoothing is a renormalised local weighted mean
(tracklib/core/operators.py Filter.execute, core/kernel.py Kernel.toSlidingWindow, algo/filtering.py filter_seq,
Track.smooth)."""
import math, itertools
from fractions import Fraction
from engine import Prop, fbits, bitsf, ratstr, tok_list, untok, close

RATIONAL_KERNELS = ("uniform", "triangular", "epanechnikov")
TABLE_KERNELS = ("gaussian", "exponential", "cubic", "spheric")
OBJ_KERNELS = RATIONAL_KERNELS + TABLE_KERNELS + ("dirac",)
NAN = float("nan")


def num(v):
    """case value -> Python number (None = NaN)"""
    return NAN if v is None else v


def canon(x):
    """implementation number -> canonical JSON value (NaN = None)"""
    x = float(x)
    return None if x != x else x


# ------------------------------------------------------------------------------------------------
# generator-side description of the kernels (only used to keep generated cases inside the property's
# domain: every window must keep a positive total weight on its valid samples)
# ------------------------------------------------------------------------------------------------
def support_of(k):
    t, p = k["t"], k.get("p")
    return {"uniform": lambda: 2 * p, "triangular": lambda: 1.5 * p, "epanechnikov": lambda: 1.5 * p,
            "gaussian": lambda: 3 * p, "exponential": lambda: 3 * p, "cubic": lambda: p, "spheric": lambda: p}[t]()


def shape_weights(k):
    """non-negative weights proportional to what the property's kernel should weigh (closed forms written here)"""
    t = k["t"]
    if t == "list":
        return [Fraction(w) for w in k["w"]]
    if t == "int":
        return [Fraction(1)] * max(0, k["n"])
    if t == "dirac":
        return [Fraction(0), Fraction(1), Fraction(0)]
    p = k["p"]
    S = int(support_of(k))
    out = []
    for x in range(S, -S - 1, -1):
        a = abs(x)
        if t == "uniform":
            w = 1.0 if a <= p else 0.0
        elif t == "triangular":
            w = max(p - a, 0.0)
        elif t == "epanechnikov":
            w = max(1 - (x / p) ** 2, 0.0)
        elif t == "gaussian":
            w = math.exp(-0.5 * (x / p) ** 2)
        elif t == "exponential":
            w = math.exp(-a / p)
        elif t == "cubic":
            u = a / p
            w = max(1 - (7 * u ** 2 - 35 / 4 * u ** 3 + 7 / 2 * u ** 5 - 3 / 4 * u ** 7), 0.0)
        elif t == "spheric":
            u = a / p
            w = max(1 - (1.5 * u - 0.5 * u ** 3), 0.0)
        out.append(Fraction(w))
    return out


def window_terms(w, v, i):
    """the (weight, value) pairs of the window centred on i: the sample at i+d carries the weight w[D-d]
    (discrete convolution), samples outside the signal and NaN samples are left out"""
    D = len(w) // 2
    out = []
    for d in range(-D, D + 1):
        if 0 <= i + d < len(v) and v[i + d] is not None:
            out.append((w[D - d], v[i + d]))
    return out


def domain_ok(w, v, fb=True):
    """property's domain: odd window, non-negative weights, signal at least as long as the window, and every
    window keeps a positive total weight on its valid samples"""
    if len(w) % 2 == 0 or len(v) < len(w) or any(x < 0 for x in w):
        return False
    return all(sum(t[0] for t in window_terms(w, v, i)) > 0 for i in range(len(v)))


def mean_oracle(w, v, fb):
    """the property's output: renormalised weighted mean at every index (Fractions), the first and last
    half-window copied when boundaries are not filtered (None = NaN)"""
    n, D = len(v), len(w) // 2
    out = []
    for i in range(n):
        if not fb and (i < D or i >= n - D):
            out.append(None if v[i] is None else Fraction(v[i]))
            continue
        terms = window_terms(w, v, i)
        den = sum(t[0] for t in terms)
        out.append(sum(t[0] * Fraction(t[1]) for t in terms) / den if den > 0 else "undefined")
    return out


def check_signal(w, v, fb, got, what):
    """compare an output signal of the implementation with the property (mean, bounds, constants, boundary)"""
    n, D = len(v), len(w) // 2
    if not isinstance(got, list) or len(got) != n:
        return "%s: output has %s values for %d inputs" % (what, len(got) if isinstance(got, list) else got, n)
    want = mean_oracle(w, v, fb)
    valid = [x for x in v if x is not None]
    scale = max([1.0] + [abs(float(x)) for x in valid])
    tol = 1e-9 * scale
    const = len(set(valid)) == 1
    for i in range(n):
        e, g = want[i], got[i]
        if e == "undefined":
            return "%s: window %d has no valid weight (case outside the property's domain)" % (what, i)
        if e is None:
            if g is not None:
                return "%s: index %d is a copied boundary NaN but the output is %r" % (what, i, g)
            continue
        if g is None:
            return "%s: output[%d] is NaN, the weighted mean of the window is %s" % (what, i, float(e))
        if abs(Fraction(g) - e) > tol:
            copied = (not fb and (i < D or i >= n - D))
            return "%s: output[%d] = %r, %s is %r" % (what, i, g, "the unfiltered boundary value" if copied else "the renormalised weighted mean of the window", float(e))
        if not (not fb and (i < D or i >= n - D)):
            vals = [t[1] for t in window_terms(w, v, i)]
            if g < min(vals) - tol or g > max(vals) + tol:
                return "%s: output[%d] = %r leaves the range [%r, %r] of its window" % (what, i, g, min(vals), max(vals))
        if const and abs(g - valid[0]) > tol:
            return "%s: constant signal %r changed to %r at index %d" % (what, valid[0], g, i)
    return None


def check_window(win):
    """a kernel's sliding window: odd, symmetric, sums to 1 (1e-12)"""
    if not isinstance(win, list) or len(win) % 2 == 0:
        return "sliding window has even length %s" % (len(win) if isinstance(win, list) else win)
    if any(x is None for x in win):
        return "sliding window contains NaN: %r" % win
    for i in range(len(win)):
        if abs(win[i] - win[len(win) - 1 - i]) > 1e-12:
            return "sliding window is not symmetric: w[%d]=%r, w[%d]=%r" % (i, win[i], len(win) - 1 - i, win[len(win) - 1 - i])
    if abs(sum(Fraction(x) for x in win) - 1) > 1e-12:
        return "sliding window sums to %r, not 1" % float(sum(Fraction(x) for x in win))
    return None


class P(Prop):
    id = "C15"
    design_ref = "DESIGN.md section 5, C15"
    M = "TracklibVerif.Props.C15"
    theorems = [
        (M, "TV.C15.window_spec", "(w,x) is in the window of i iff w = k[j] and x = v[i-j+D] for a kernel position j whose sample index is inside the signal and not NaN"),
        (M, "TV.C15.filter_is_mean", "T1: in the domain Filter.execute succeeds, returns one value per observation, and every filtered value is (sum k[j] v[i-j+D]) / (sum k[j]) over the valid j"),
        (M, "TV.C15.filter_bounds", "T2: a filtered value lies between any lower and upper bound of the non-NaN samples at distance <= D"),
        (M, "TV.C15.filter_between_samples", "T2': a filtered value lies between two samples of its own window (min window <= out <= max window)"),
        (M, "TV.C15.filter_const", "T3: when all non-NaN samples equal c every filtered value is c"),
        (M, "TV.C15.filter_const_signal", "T3': a constant NaN-free signal is returned unchanged, both boundary settings"),
        (M, "TV.C15.boundary_copy", "T4: without boundary filtering the first and last D outputs are the inputs (NaN included)"),
        (M, "TV.C15.inDomain_of_positive_weights", "an odd list of positive weights with a non-NaN sample within D of every index (isolated NaN) is in the domain: no zero norm"),
        (M, "TV.C15.execute_is_mean", "Filter.execute as a whole (weight list normalised in place / Kernel object / Dirac): output = signal of renormalised means of the prepared window, with the caller's un-normalised weights for a list"),
        (M, "TV.C15.window_shape", "T5: toSlidingWindow has 2*floor(support)+1 values (odd), w[size-1-i] = w[i] for an even kernel function, and sums to 1"),
        (M, "TV.C15.window_nonneg", "T5': a kernel function non-negative at the sample points and positive at 0 gives a positive raw sum and a non-negative window with positive centre weight"),
        (M, "TV.C15.builtin_kernels", "the Uniform/Triangular/Epanechnikov kernel functions of kernel.py are even, non-negative, positive at 0"),
        (M, "TV.C15.filterSeq_is_mean", "filter_seq (and Track.smooth): every listed coordinate/feature becomes the mean signal of its former values, same window for all dimensions despite the in-place normalisation; other signals except 'temp' untouched"),
        (M, "TV.C15.filterSeq_int", "filter_seq with an int n uses [1]*n; n = 1 or a one-element list returns the track unchanged"),
        (M, "TV.C15.dirac_identity", "the Dirac kernel ([0,1,0]) returns a NaN-free signal unchanged"),
        (M, "TV.C15.zero_norm_fails", "outside the domain (a zero norm) the method fails with a division by zero, never a wrong value"),
    ]
    partial = []
    open_statements = ["theorems are over a linearly ordered field: IEEE rounding of the float computation is outside them (sampled by the transfer check at 1e-9)",
                       "the kernel functions using math.exp / math.pow (Gaussian, Exponential, Cubic, Spheric) are a function parameter: window_shape / window_nonneg "
                       "apply to them under the stated hypotheses (even, non-negative at the sample points, positive at 0), which are not proved for libm",
                       "a weight list containing zero weights whose valid weights sum to 0 (numpy then yields nan/inf instead of raising) is not modelled; with positive weights a zero norm means no valid sample and both sides raise",
                       "a kernel given as the name of an analytical feature (str) is not modelled"]
    modelled = ("Filter.execute (kernel preparation for weight lists / Kernel objects / Dirac, odd-window test, window index i-j+D, "
                "skipping out-of-track and NaN samples, division by the collected norm, boundary copy), Kernel.evaluate and "
                "Kernel.toSlidingWindow, the kernel functions of UniformKernel/TriangularKernel/EpanechnikovKernel (the other "
                "kernel functions are a function parameter tabulated by Python), filter_seq (int kernel, one-element list, "
                "x/y/z through the feature 'temp', in-place renormalisation of the weight list at every dimension), Track.smooth")
    trusted = ["kernel functions using math.exp / math.pow (Gaussian, Exponential, Cubic, Spheric) are a parameter of the model: "
               "their values at the model's sample points are tabulated by the real Python function",
               "np.sum is modelled as a left-to-right sum; int(support) as floor"]
    rule = ("signals random-integer / dyadic / float / constant / monotone, with isolated NaN, length window..window+12; kernels: odd weight "
            "lists with positive weights (symmetric and asymmetric, integer/dyadic/decimal), integers (filter_seq), the built-in "
            "non-negative kernels Uniform/Triangular/Epanechnikov/Gaussian/Exponential/Cubic/Spheric/Dirac with widths 1..5 and "
            "some non-integer widths, both boundary settings; features via track.operate(FILTER), x/y/z and features via filter_seq, "
            "Track.smooth, Kernel.toSlidingWindow. All signals over {0,1,NaN} up to length 6 (quick) / 7 (thorough) for three kernels. Cases outside the "
            "property's domain are kept in two correspondence-only streams: 'zeronorm' (a window without valid weight: ZeroDivisionError on both sides) and "
            "'short' (signals shorter than the window, IndexError when shorter than the half window and boundaries are copied). non-trivial = window of "
            "at least 3 weights and a non-constant signal (or a sliding-window case)")

    def setup(self):
        import warnings
        warnings.filterwarnings("ignore")
        from tracklib.core.track import Track
        from tracklib.core.obs import Obs
        from tracklib.core.obs_coords import ENUCoords
        from tracklib.core.obs_time import ObsTime
        from tracklib.core.operators import Operator
        from tracklib.core import kernel as K
        from tracklib.algo.filtering import filter_seq
        self.Track, self.Obs, self.ENU, self.ObsTime, self.Operator, self.K = Track, Obs, ENUCoords, ObsTime, Operator, K
        self.filter_seq = filter_seq
        self.t0 = ObsTime.readUnixTime(0)

    # ---------------------------------------------------------------- generators
    WIDTHS = [1, 2, 3, 4, 5, 1.5, 2.5, 1.25, 3.75]

    def exhaustive_scopes(self, tier):
        m = 7 if tier == "thorough" else 6
        return ["every signal over {0, 1, NaN} of length 3..%d inside the domain, for the weight list [1,2,5], UniformKernel(1) "
                "with and without boundary filtering" % m]

    def rand_weights(self, rng):
        D = rng.choice([0, 1, 1, 1, 2, 2, 3, 4])
        N = 2 * D + 1
        style = rng.choice(["int", "int", "dyadic", "sym", "decimal", "ones"])
        if style == "int":
            w = [rng.randrange(1, 9) for _ in range(N)]
        elif style == "dyadic":
            w = [rng.randrange(1, 33) / 8 for _ in range(N)]
        elif style == "decimal":
            w = [round(rng.uniform(0.05, 3), 2) for _ in range(N)]
        elif style == "ones":
            w = [1] * N
        else:
            h = [rng.randrange(1, 9) for _ in range(D + 1)]
            w = h + h[-2::-1]
        return w

    def rand_kernel(self, rng, allow_int=False):
        r = rng.random()
        if allow_int and r < 0.12:
            return {"t": "int", "n": rng.choice([1, 3, 3, 5, 7])}
        if r < 0.5:
            return {"t": "list", "w": self.rand_weights(rng)}
        t = rng.choice(OBJ_KERNELS)
        if t == "dirac":
            return {"t": "dirac", "fb": rng.random() < 0.5}
        return {"t": t, "p": rng.choice(self.WIDTHS), "fb": rng.random() < 0.5}

    def rand_signal(self, rng, n, style=None, nan=True, floats=False):
        style = style or rng.choice(["int", "int", "const", "mono", "dyadic", "float" if floats else "int", "spike"])
        if style == "int":
            v = [rng.randrange(-50, 51) for _ in range(n)]
        elif style == "const":
            c = rng.choice([0, 1, -3, 7, 2.5, 1000])
            v = [c] * n
        elif style == "mono":
            x = rng.randrange(-20, 20)
            v = []
            for _ in range(n):
                v.append(x)
                x += rng.randrange(0, 6) if rng.random() < 0.8 else 0
            if rng.random() < 0.5:
                v = [-a for a in v]
        elif style == "dyadic":
            v = [rng.randrange(-400, 401) / 8 for _ in range(n)]
        elif style == "float":
            v = [round(rng.uniform(-1000, 1000), 3) for _ in range(n)]
        else:
            v = [0] * n
            v[rng.randrange(n)] = rng.choice([1, 64, -8])
        if nan and rng.random() < 0.45:
            # isolated NaN: never two neighbours
            i = rng.randrange(0, 3)
            while i < n:
                v[i] = None
                i += rng.randrange(2, 7)
        return v

    def cases(self, rng, tier):
        out = []
        quick = tier == "quick"
        # ---- enumerated small scope
        m = 6 if quick else 7
        for n in range(3, m + 1):
            for v in itertools.product([0, 1, None], repeat=n):
                v = list(v)
                for k in ({"t": "list", "w": [1, 2, 5]}, {"t": "uniform", "p": 1, "fb": True}, {"t": "uniform", "p": 1, "fb": False}):
                    if domain_ok(shape_weights(k), v):
                        out.append({"kind": "feat", "sig": v, "k": k, "sc": "r"})
        # ---- sliding windows of every built-in kernel
        for t in OBJ_KERNELS:
            if t == "dirac":
                continue
            for p in self.WIDTHS + [6, 7.5, 10]:
                out.append({"kind": "sw", "k": {"t": t, "p": p, "fb": False}, "sc": "r" if t in RATIONAL_KERNELS else "f"})
                if t in RATIONAL_KERNELS:
                    out.append({"kind": "sw", "k": {"t": t, "p": p, "fb": False}, "sc": "f"})
        # ---- random: features through track.operate(FILTER)
        nfeat = 2500 if quick else 40000
        made = 0
        while made < nfeat:
            k = self.rand_kernel(rng)
            w = shape_weights(k)
            n = len(w) + rng.choice([0, 0, 1, 2, rng.randrange(0, 13)])
            sc = self.pick_scalar(rng, k)
            v = self.rand_signal(rng, n, floats=(sc == "f"))
            if not domain_ok(w, v):
                continue
            out.append({"kind": "feat", "sig": v, "k": k, "sc": sc})
            made += 1
        # ---- random: x, y, z and features through filter_seq
        nseq = 900 if quick else 12000
        made = 0
        while made < nseq:
            k = self.rand_kernel(rng, allow_int=True)
            w = shape_weights(k)
            n = max(1, len(w)) + rng.choice([0, 1, 2, rng.randrange(0, 10)])
            sc = self.pick_scalar(rng, k)
            sigs = {nm: self.rand_signal(rng, n, nan=(rng.random() < 0.3), floats=(sc == "f")) for nm in ("x", "y", "z")}
            feats = {}
            for nm in ("a", "b")[:rng.randrange(0, 3)]:
                feats[nm] = self.rand_signal(rng, n, floats=(sc == "f"))
            names = ["x", "y", "z"] + list(feats)
            dims = rng.choice([["x", "y", "z"], ["x", "y", "z"], ["x", "y"], ["y", "z"], ["x"], ["y"], ["z"],
                               [rng.choice(names)], rng.sample(names, rng.randrange(1, len(names) + 1))])
            allsig = dict(sigs, **feats)
            if len(w) != 1 and not all(domain_ok(w, allsig[d]) for d in dims):
                continue
            if len(w) == 1 and any(x is None for d in dims for x in allsig[d]):
                continue
            out.append({"kind": "seq", "x": sigs["x"], "y": sigs["y"], "z": sigs["z"], "feats": feats, "dims": dims, "k": k, "sc": sc})
            made += 1
        # ---- Track.smooth
        for _ in range(150 if quick else 2000):
            wd = rng.choice([1, 1, 2, 1.5, 3])
            n = 2 * int(3 * wd) + 1 + rng.randrange(0, 8)
            out.append({"kind": "smooth", "x": self.rand_signal(rng, n, nan=False, floats=True), "y": self.rand_signal(rng, n, nan=(rng.random() < 0.3), floats=True),
                        "z": self.rand_signal(rng, n, nan=False, floats=True), "w": wd, "sc": "f"})
        # ---- outside the domain: a Kernel object whose window loses all its weight (the code divides by zero)
        for _ in range(40 if quick else 400):
            k = rng.choice([{"t": "dirac", "fb": rng.random() < 0.5}, {"t": "triangular", "p": 1, "fb": rng.random() < 0.5},
                            {"t": "epanechnikov", "p": 1, "fb": True}])
            n = rng.randrange(3, 9)
            v = self.rand_signal(rng, n, nan=False)
            v[rng.randrange(n)] = None
            out.append({"kind": "zeronorm", "sig": v, "k": k, "sc": "r"})
        # ---- outside the domain: a positive weight list whose window holds no valid sample at all
        for _ in range(40 if quick else 400):
            w = self.rand_weights(rng)
            n = len(w) + rng.randrange(0, 5)
            v = self.rand_signal(rng, n, nan=False)
            a = rng.randrange(n)
            for i in range(a, min(n, a + len(w))):
                v[i] = None
            if not domain_ok([Fraction(x) for x in w], v):
                out.append({"kind": "zeronorm", "sig": v, "k": {"t": "list", "w": w}, "sc": "r"})
        # ---- outside the quantifier: signals shorter than the window (correspondence only; IndexError when the
        #      track is shorter than the half window and boundaries are copied)
        made = 0
        while made < (300 if quick else 3000):
            k = self.rand_kernel(rng)
            N = len(shape_weights(k))
            if N < 3:
                continue
            n = rng.randrange(1, N)
            sc = self.pick_scalar(rng, k)
            out.append({"kind": "short", "sig": self.rand_signal(rng, n, nan=(rng.random() < 0.3), floats=(sc == "f")), "k": k, "sc": sc})
            made += 1
        return out

    def pick_scalar(self, rng, k):
        if k["t"] in TABLE_KERNELS:
            return "f"
        return "r" if rng.random() < 0.7 else "f"

    def describe(self, case):
        k = case.get("k", {"t": "gaussian"})
        t = {"kind": case["kind"], "kernel": k["t"], "scalar": case.get("sc")}
        if "fb" in k:
            t["filterBoundary"] = k["fb"]
        sig = case.get("sig") or case.get("y")
        if sig is not None:
            t["nan"] = any(x is None for x in sig)
            t["slack"] = min(3, len(sig) - len(shape_weights(k))) if case["kind"] != "smooth" else "-"
        if k["t"] == "list":
            t["window"] = len(k["w"])
            t["asymmetric"] = k["w"] != k["w"][::-1]
        return t

    def nontrivial(self, case):
        if case["kind"] == "sw":
            return True
        if case["kind"] in ("zeronorm", "short"):
            return False
        k = case.get("k", {"t": "gaussian", "p": case.get("w")})
        if len(shape_weights(k)) < 3:
            return False
        sigs = [case["sig"]] if case["kind"] == "feat" else [case["x"], case["y"], case["z"]]
        return any(len(set(x for x in s if x is not None)) > 1 for s in sigs)

    # ---------------------------------------------------------------- implementation
    def mk_track(self, x, y=None, z=None):
        t = self.Track()
        for i in range(len(x)):
            t.addObs(self.Obs(self.ENU(num(x[i]), num(y[i]) if y else 0.0, num(z[i]) if z else 0.0), self.t0.addSec(i)))
        return t

    def mk_kernel(self, k):
        K = self.K
        t = k["t"]
        if t == "list":
            return list(k["w"])
        if t == "int":
            return k["n"]
        if t == "dirac":
            o = K.DiracKernel()
        else:
            o = {"uniform": K.UniformKernel, "triangular": K.TriangularKernel, "epanechnikov": K.EpanechnikovKernel,
                 "gaussian": K.GaussianKernel, "exponential": K.ExponentialKernel, "cubic": K.CubicKernel,
                 "spheric": K.SphericKernel}[t](k["p"])
        o.setFilterBoundary(bool(k["fb"]))
        return o

    def window_of(self, k):
        """the weights the implementation says it uses for a Kernel object (observed, not recomputed)"""
        if k["t"] in ("list", "int"):
            return None
        if k["t"] == "dirac":
            return [0.0, 1.0, 0.0]
        return [canon(x) for x in self.mk_kernel(k).toSlidingWindow()]

    def impl(self, case):
        try:
            return self.impl_raw(case)
        except BaseException as e:
            if isinstance(e, KeyboardInterrupt):
                raise
            # keep the window the implementation exposes: the oracle needs it to tell whether a division by
            # zero happened inside or outside the property's domain
            import engine
            k = case.get("k", {"t": "gaussian", "p": case.get("w"), "fb": False})
            try:
                win = self.window_of(k)
            except BaseException:
                win = None
            return {"err": engine.err_kind(e), "detail": str(e)[:200], "window": win}

    def impl_raw(self, case):
        kind = case["kind"]
        if kind == "sw":
            return {"window": self.window_of(case["k"])}
        if kind in ("feat", "zeronorm", "short"):
            v = case["sig"]
            t = self.mk_track([float(i) for i in range(len(v))])
            t.createAnalyticalFeature("a", [num(a) for a in v])
            kern = self.mk_kernel(case["k"])
            ret = t.operate(self.Operator.FILTER, "a", kern, "b")
            return {"out": [canon(a) for a in t.getAnalyticalFeature("b")], "ret": [canon(a) for a in ret],
                    "kafter": [canon(a) for a in kern] if isinstance(kern, list) else None,
                    "input_after": [canon(a) for a in t.getAnalyticalFeature("a")],
                    "window": self.window_of(case["k"])}
        if kind == "seq":
            t = self.mk_track(case["x"], case["y"], case["z"])
            for nm, v in case["feats"].items():
                t.createAnalyticalFeature(nm, [num(a) for a in v])
            kern = self.mk_kernel(case["k"])
            r = self.filter_seq(t, kern, list(case["dims"]))
            return {"sigs": self.read_track(t), "same": r is t, "window": self.window_of(case["k"])}
        if kind == "smooth":
            t = self.mk_track(case["x"], case["y"], case["z"])
            t.smooth(case["w"])
            return {"sigs": self.read_track(t), "same": True, "window": self.window_of({"t": "gaussian", "p": case["w"], "fb": False})}
        raise ValueError(kind)

    def read_track(self, t):
        d = {"x": [canon(a) for a in t.getX()], "y": [canon(a) for a in t.getY()], "z": [canon(a) for a in t.getZ()]}
        for nm in t.getListAnalyticalFeatures():
            d[nm] = [canon(a) for a in t.getAnalyticalFeature(nm)]
        return d

    # ---------------------------------------------------------------- model
    def tok(self, sc, x):
        return ratstr(x) if sc == "r" else fbits(x)

    def sig_tok(self, sc, v):
        return tok_list("nan" if a is None else self.tok(sc, a) for a in v)

    def kspec(self, sc, k):
        t = k["t"]
        if t == "list":
            return "list " + tok_list(self.tok(sc, w) for w in k["w"])
        if t == "int":
            return "int %d" % k["n"]
        if t == "dirac":
            return "dirac %d" % int(k["fb"])
        if sc == "r" and t in RATIONAL_KERNELS:
            return "%s %d %s" % ({"uniform": "uni", "triangular": "tri", "epanechnikov": "epa"}[t], int(k["fb"]), ratstr(k["p"]))
        # any other Kernel object: its Python function tabulated at the half-integers around the window
        o = self.mk_kernel(k)
        f = o.getFunction()
        S = int(o.support) + 1
        pts = [h / 2.0 for h in range(-2 * S, 2 * S + 1)]
        return "fn %d %s %s" % (int(k["fb"]), self.tok(sc, o.support), tok_list("%s:%s" % (self.tok(sc, x), self.tok(sc, float(f(x)))) for x in pts))

    def requests(self, case):
        kind, sc = case["kind"], case["sc"]
        if kind == "sw":
            return ["C15.sw %s %s" % (sc, self.kspec(sc, case["k"]))]
        if kind in ("feat", "zeronorm", "short"):
            k = case["k"]
            ls = ["C15.exec %s %s %s" % (sc, self.sig_tok(sc, case["sig"]), self.kspec(sc, k))]
            if k["t"] not in ("list", "int", "dirac"):
                ls.append("C15.sw %s %s" % (sc, self.kspec(sc, k)))
            return ls
        if kind in ("seq", "smooth"):
            k = case["k"] if kind == "seq" else {"t": "gaussian", "p": case["w"], "fb": False}
            feats = case.get("feats", {})
            names = ["x", "y", "z"] + list(feats)
            sigs = [case["x"], case["y"], case["z"]] + [feats[n] for n in feats]
            dims = case["dims"] if kind == "seq" else ["x", "y", "z"]
            ls = ["C15.seq %s %s %s %s %s" % (sc, tok_list(dims), tok_list(names), tok_list((self.sig_tok(sc, s) for s in sigs), ";"), self.kspec(sc, k))]
            if k["t"] not in ("list", "int", "dirac"):
                ls.append("C15.sw %s %s" % (sc, self.kspec(sc, k)))
            return ls

    def val(self, sc, tok):
        if tok == "nan":
            return None
        return float(Fraction(tok)) if sc == "r" else canon(bitsf(tok))

    def vals(self, sc, tok, sep=","):
        return [self.val(sc, t) for t in untok(tok, sep)]

    def decode_window(self, case, k, replies):
        if k["t"] in ("list", "int"):
            return None
        if k["t"] == "dirac":
            return [0.0, 1.0, 0.0]
        r = replies[-1].split(" ")
        if r[0] != "ok":
            return {"err": r[0]}
        return self.vals(case["sc"], r[1])

    def decode(self, case, replies):
        kind, sc = case["kind"], case["sc"]
        if any(r == "bad-request" for r in replies):
            raise ValueError("bad-request")
        if kind == "sw":
            return {"window": self.decode_window(case, case["k"], replies)}
        r = replies[0].split(" ")
        if r[0] != "ok":
            return {"err": r[0]}
        if kind in ("feat", "zeronorm", "short"):
            out = self.vals(sc, r[2])
            return {"out": out, "ret": out, "kafter": None if r[1] == "none" else self.vals(sc, r[1]),
                    "input_after": [canon(num(a)) for a in case["sig"]], "window": self.decode_window(case, case["k"], replies)}
        k = case["k"] if kind == "seq" else {"t": "gaussian", "p": case["w"], "fb": False}
        names = untok(r[1])
        sigs = [self.vals(sc, s) for s in untok(r[2], ";")]
        return {"sigs": dict(zip(names, sigs)), "same": True, "window": self.decode_window(case, k, replies)}

    def compare(self, case, impl_out, model_out):
        if "err" in impl_out or "err" in model_out:
            if "err" in impl_out and "err" in model_out:
                want = {"err:even-kernel": ("err:NameError", "err:KernelError"), "err:zerodiv": ("err:zerodiv",),
                        "err:index": ("err:index",), "err:support": ("err:NameError", "err:KernelError"),
                        "err:feature": ("err:AnalyticalFeatureError",)}.get(model_out["err"], ())
                return None if impl_out["err"] in want else "error kinds differ: impl=%s model=%s" % (impl_out["err"], model_out["err"])
            return "impl=%s model=%s" % (str(impl_out)[:300], str(model_out)[:300])
        return Prop.compare(self, case, impl_out, model_out)

    # ---------------------------------------------------------------- oracle (transfer)
    def weights_for(self, k, out):
        """(weights as Fractions, filterBoundary, problem): lists use the caller's weights, Kernel objects the
        sliding window the implementation exposes (checked for the shape the property states)"""
        if k["t"] in ("list", "int"):
            return shape_weights(k), False, None
        win = out.get("window")
        bad = check_window(win)
        if bad:
            return None, None, bad
        return [Fraction(x) for x in win], bool(k["fb"]), None

    def spec(self, case, out):
        kind = case["kind"]
        if kind in ("zeronorm", "short"):
            return None  # outside the domain of the property (a window without valid weight / a signal shorter than the window)
        if "err" in out:
            return self.judge_error(case, out)
        if kind == "sw":
            return check_window(out["window"])
        if kind == "feat":
            w, fb, bad = self.weights_for(case["k"], out)
            if bad:
                return bad
            if out["input_after"] != [canon(num(a)) for a in case["sig"]]:
                return "the input feature was modified: %r" % out["input_after"]
            return check_signal(w, case["sig"], fb, out["out"], "feature")
        k = case["k"] if kind == "seq" else {"t": "gaussian", "p": case["w"], "fb": False}
        dims = case["dims"] if kind == "seq" else ["x", "y", "z"]
        w, fb, bad = self.weights_for(k, out)
        if bad:
            return bad
        if not out["same"]:
            return "filter_seq did not return the track it filtered"
        allsig = dict({"x": case["x"], "y": case["y"], "z": case["z"]}, **case.get("feats", {}))
        for nm, v in allsig.items():
            got = out["sigs"].get(nm)
            if nm in dims and len(w) != 1:
                bad = check_signal(w, v, fb, got, nm)
                if bad:
                    return bad
            elif got != [canon(num(a)) for a in v]:
                return "%s was not to be filtered but changed: %r -> %r" % (nm, v, got)
        return None

    def judge_error(self, case, out):
        """an exception inside the property's domain is a failure; a ZeroDivisionError is outside the domain when,
        with the sliding window the implementation itself exposes (well shaped), some window has no valid weight"""
        msg = "raised %s (%s)" % (out["err"], out.get("detail", ""))
        k = case.get("k", {"t": "gaussian", "p": case.get("w"), "fb": False})
        if case["kind"] == "sw" or out["err"] != "err:zerodiv" or k["t"] in ("list", "int"):
            return msg
        win = out.get("window")
        if check_window(win) or any(x < 0 for x in win):
            return msg
        w = [Fraction(x) for x in win]
        sigs = [case["sig"]] if case["kind"] == "feat" else [dict({"x": case["x"], "y": case["y"], "z": case["z"]}, **case.get("feats", {}))[d]
                                                              for d in case.get("dims", ["x", "y", "z"])]
        if any(not domain_ok(w, v) for v in sigs):
            return None
        return msg

    # ---------------------------------------------------------------- shrinking / search
    def _sig_names(self, case):
        return ["sig"] if case["kind"] in ("feat", "zeronorm", "short") else ["x", "y", "z"]

    def shrink(self, case):
        if case["kind"] == "sw":
            return
        k = case.get("k", {"t": "gaussian", "p": case.get("w")})
        N = len(shape_weights(k))
        names = self._sig_names(case)
        n = len(case[names[0]])
        # drop one position of every signal
        if n > N:
            for i in range(n):
                c = dict(case)
                for nm in names:
                    c[nm] = case[nm][:i] + case[nm][i + 1:]
                if "feats" in case:
                    c["feats"] = {a: s[:i] + s[i + 1:] for a, s in case["feats"].items()}
                if self._in_domain(c):
                    yield c
        if case["kind"] == "seq":
            if case["feats"]:
                for a in case["feats"]:
                    c = dict(case, feats={b: s for b, s in case["feats"].items() if b != a}, dims=[d for d in case["dims"] if d != a])
                    if c["dims"]:
                        yield c
            if len(case["dims"]) > 1:
                for d in case["dims"]:
                    yield dict(case, dims=[e for e in case["dims"] if e != d])
        # simpler values
        for nm in names:
            s = case[nm]
            for i in range(len(s)):
                for nv in (0, 1):
                    if s[i] != nv and (s[i] is None or abs(s[i]) > 1 or s[i] != int(s[i])):
                        c = dict(case)
                        c[nm] = s[:i] + [nv] + s[i + 1:]
                        if self._in_domain(c):
                            yield c
        if k["t"] == "list":
            w = k["w"]
            if len(w) >= 5:
                yield dict(case, k={"t": "list", "w": w[1:-1]})
            for i in range(len(w)):
                if w[i] != 1:
                    yield dict(case, k={"t": "list", "w": w[:i] + [1] + w[i + 1:]})
        if case.get("sc") == "f" and k["t"] in ("list", "int", "dirac") + RATIONAL_KERNELS:
            yield dict(case, sc="r")

    def _in_domain(self, case):
        if case["kind"] in ("zeronorm", "short"):
            return True
        k = case.get("k", {"t": "gaussian", "p": case.get("w")})
        w = shape_weights(k)
        if case["kind"] == "feat":
            return domain_ok(w, case["sig"])
        allsig = dict({"x": case["x"], "y": case["y"], "z": case["z"]}, **case.get("feats", {}))
        dims = case.get("dims", ["x", "y", "z"])
        if len(w) == 1:
            return all(x is not None for d in dims for x in allsig[d])
        return all(domain_ok(w, allsig[d]) for d in dims)

    def mutate(self, case, rng):
        if case["kind"] == "sw":
            for p in self.WIDTHS:
                yield dict(case, k=dict(case["k"], p=p))
            return
        for _ in range(20):
            c = dict(case)
            for nm in self._sig_names(case):
                s = list(case[nm])
                i = rng.randrange(len(s))
                s[i] = rng.choice([None, 0, 1, rng.randrange(-50, 50)])
                c[nm] = s
            if self._in_domain(c):
                yield c
        if case.get("k", {}).get("t") == "list":
            for _ in range(10):
                w = [rng.randrange(1, 9) for _ in case["k"]["w"]]
                yield dict(case, k={"t": "list", "w": w})
