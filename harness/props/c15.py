"""C15 — kernel smoothing is a renormalised local weighted mean
(tracklib/core/operators.py Filter.execute, core/kernel.py Kernel.toSlidingWindow, algo/filtering.py filter_seq,
Track.smooth, core/track_collection.py TrackCollection.smooth)."""
import math, itertools
from fractions import Fraction
from engine import Prop, fbits, bitsf, ratstr, tok_list, untok, close

RATIONAL_KERNELS = ("uniform", "triangular", "epanechnikov", "cubic", "spheric")   # kernel functions the model computes over Rat
TABLE_KERNELS = ("gaussian", "exponential")                                         # math.exp: floats only (model: Float.exp)
OBJ_KERNELS = RATIONAL_KERNELS + TABLE_KERNELS + ("dirac",)
NAN = float("nan")
_PRISTINE = None


def num(v):
    """case value -> Python number (None = NaN; the strings "inf" / "-inf" of the 'inff' stream = the infinities)"""
    return NAN if v is None else (float(v) if isinstance(v, str) else v)


def finite(v):
    return v is not None and not isinstance(v, str)


def canon(x):
    """implementation number -> canonical JSON value (NaN = None)"""
    x = float(x)
    return None if x != x else x


# ------------------------------------------------------------------------------------------------
# generator-side description of the kernels (only used to keep generated cases inside the property's
# domain: every window must keep a positive total weight on its valid samples)
# ------------------------------------------------------------------------------------------------
USER_TYPES = ("i", "f", "F", "I", "b", "h")   # Python int / float, numpy float64 / int64, bool, numpy float32
USERFN_SHAPES = ("tent", "box", "cond", "bell")
FILTER_CONSTS = {"FILTER_X": ["x"], "FILTER_Y": ["y"], "FILTER_Z": ["z"], "FILTER_XY": ["x", "y"],
                 "FILTER_XZ": ["x", "z"], "FILTER_YZ": ["y", "z"], "FILTER_XYZ": ["x", "y", "z"]}


def userfn_value(shape, p, x):
    """the closed forms of the user-defined kernel functions of the 'userfn' kernels (property side, floats)"""
    a = abs(x)
    if shape == "tent":
        return max(0.0, 1 - a / p)
    if shape == "box":
        return 1.0 if a <= p else 0.0
    if shape == "cond":
        return 0.0 if a > p else (p - a) / p ** 2
    if shape == "bell":
        return 0.0 if a >= p else (1 - (a / p) ** 2) ** 2
    raise ValueError(shape)


def support_of(k):
    t, p = k["t"], k.get("p")
    if t in ("user", "userfn"):
        return k["s"]
    return {"uniform": lambda: 2 * p, "triangular": lambda: 1.5 * p, "epanechnikov": lambda: 1.5 * p,
            "gaussian": lambda: 3 * p, "exponential": lambda: 3 * p, "cubic": lambda: p, "spheric": lambda: p}[t]()


def shape_weights(k):
    """non-negative weights proportional to what the property's kernel should weigh (closed forms written here)"""
    t = k["t"]
    if t == "list":
        return [Fraction(w) for w in k["w"]]
    if t == "int":
        return [Fraction(1)] * max(0, k["n"])
    if t == "num":
        return []
    if t == "dirac":
        return [Fraction(0), Fraction(1), Fraction(0)]
    if t == "user":
        S = int(k["s"])
        return [Fraction(k["tbl"][abs(x)][1]) if abs(x) < len(k["tbl"]) else Fraction(0) for x in range(S, -S - 1, -1)]
    if t == "userfn":
        S = int(k["s"])
        return [Fraction(userfn_value(k["shape"], k["p"], x)) if abs(x) <= k["s"] else Fraction(0) for x in range(S, -S - 1, -1)]
    p = k["p"]
    S = int(support_of(k))
    out = []
    for x in range(S, -S - 1, -1):
        a = abs(x)
        if t == "uniform":
            w = 1.0 if a <= p else 0.0
        elif t == "triangular":
            w = max(p - a, 0.0)
        elif t == "epanechnikov":
            w = max(1 - (x / p) ** 2, 0.0)
        elif t == "gaussian":
            w = math.exp(-0.5 * (x / p) ** 2)
        elif t == "exponential":
            w = math.exp(-a / p)
        elif t == "cubic":
            u = a / p
            w = max(1 - (7 * u ** 2 - 35 / 4 * u ** 3 + 7 / 2 * u ** 5 - 3 / 4 * u ** 7), 0.0)
        elif t == "spheric":
            u = a / p
            w = max(1 - (1.5 * u - 0.5 * u ** 3), 0.0)
        out.append(Fraction(w))
    return out


def window_terms(w, v, i):
    """the (weight, value) pairs of the window centred on i: the sample at i+d carries the weight w[D-d]
    (discrete convolution), samples outside the signal and NaN samples are left out"""
    D = len(w) // 2
    out = []
    for d in range(-D, D + 1):
        if 0 <= i + d < len(v) and v[i + d] is not None:
            out.append((w[D - d], v[i + d]))
    return out


def domain_ok(w, v, fb=True):
    """property's domain: odd window, non-negative weights, and every window keeps a positive total weight on its
    valid samples. The length of the signal is NOT part of it: the statement defines every output for a track shorter
    than the window as well (a window that overhangs both ends is renormalised over the samples inside the track; when
    boundaries are not filtered every index of such a track lies in the first or last half window and is returned
    unchanged)"""
    if len(w) % 2 == 0 or any(x < 0 for x in w):
        return False
    return all(sum(t[0] for t in window_terms(w, v, i)) > 0 for i in range(len(v)))


def index_zone(w, fb, n):
    """a track shorter than the HALF window whose boundaries are copied: the boundary loops of Filter.execute read
    input[i] for i in range(D) and raise IndexError (Model: Err.index; theorem short_track_index_error). The property
    quantifies over signals at least as long as the window, so the refusal is not judged; an output, if one is
    returned, is (it must be the input unchanged)"""
    return (not fb) and 0 < n < len(w) // 2


def mean_oracle(w, v, fb):
    """the property's output: renormalised weighted mean at every index (Fractions), the first and last
    half-window copied when boundaries are not filtered (None = NaN)"""
    n, D = len(v), len(w) // 2
    out = []
    for i in range(n):
        if not fb and (i < D or i >= n - D):
            out.append(None if v[i] is None else Fraction(v[i]))
            continue
        terms = window_terms(w, v, i)
        den = sum(t[0] for t in terms)
        out.append(sum(t[0] * Fraction(t[1]) for t in terms) / den if den > 0 else "undefined")
    return out


REL_TOL = 1e-12      # float rounding of a weighted mean of at most a few hundred terms, relative to the largest sample of the window
ABS_FLOOR = 1e-300   # products of a weight and a sample below the normal range of doubles


def local_tol(terms):
    """the tolerance on the weighted mean of ONE window: float arithmetic computes sum(w*x)/sum(w) over the window's
    own samples with an error of a few ulps of the largest |x| carrying a positive weight, whatever the values elsewhere
    in the signal are (the statement ties every output to the inputs of its own window only)"""
    mags = [abs(float(x)) for wt, x in terms if wt > 0]
    return REL_TOL * max(mags + [0.0]) + ABS_FLOOR


def check_nonfinite(w, v, fb, got, what):
    """a signal holding +inf / -inf samples (strings in the case): a window that holds one has no weighted mean in the reals
    and nothing is demanded there (the code returns inf, or NaN for inf - inf and 0 * inf); every other output is the mean
    of its own finite window; a copied boundary value is returned unchanged, infinite or not"""
    n, D = len(v), len(w) // 2
    if not isinstance(got, list) or len(got) != n:
        return "%s: output has %s values for %d inputs" % (what, len(got) if isinstance(got, list) else got, n)
    skip = set()
    for i in range(n):
        if not fb and (i < D or i >= n - D):
            if isinstance(v[i], str):
                if got[i] != float(v[i]):
                    return "%s: output[%d] = %r, the unfiltered boundary value is %s" % (what, i, got[i], v[i])
                skip.add(i)
        elif any(isinstance(x, str) for _, x in window_terms(w, v, i)):
            skip.add(i)
    return check_signal(w, [0 if isinstance(x, str) else x for x in v], fb, got, what, skip=skip, const_check=False)


def check_signal(w, v, fb, got, what, skip_undefined=False, skip=(), const_check=True):
    """compare an output signal of the implementation with the property (mean, bounds, constants, boundary);
    skip_undefined: an index whose valid weights sum to 0 has no weighted mean — nothing is demanded there.
    Tolerances are local to the window of the index (local_tol); a copied boundary value is compared exactly"""
    n, D = len(v), len(w) // 2
    if not isinstance(got, list) or len(got) != n:
        return "%s: output has %s values for %d inputs" % (what, len(got) if isinstance(got, list) else got, n)
    want = mean_oracle(w, v, fb)
    valid = [x for x in v if x is not None]
    const = const_check and len(set(valid)) == 1
    for i in range(n):
        e, g = want[i], got[i]
        if i in skip:
            continue
        if e == "undefined":
            if skip_undefined:
                continue
            return "%s: window %d has no valid weight (case outside the property's domain)" % (what, i)
        if e is None:
            if g is not None:
                return "%s: index %d is a copied boundary NaN but the output is %r" % (what, i, g)
            continue
        if g is None:
            return "%s: output[%d] is NaN, the weighted mean of the window is %s" % (what, i, float(e))
        if math.isinf(g):
            return "%s: output[%d] is %r, the weighted mean of the window is %s" % (what, i, g, float(e))
        copied = (not fb and (i < D or i >= n - D))
        if copied:
            if Fraction(g) != e:
                return "%s: output[%d] = %r, the unfiltered boundary value is %r" % (what, i, g, float(e))
            continue
        terms = window_terms(w, v, i)
        tol = local_tol(terms)
        if abs(Fraction(g) - e) > tol:
            return "%s: output[%d] = %r, the renormalised weighted mean of the window is %r" % (what, i, g, float(e))
        vals = [t[1] for t in terms]
        if g < min(vals) - tol or g > max(vals) + tol:
            return "%s: output[%d] = %r leaves the range [%r, %r] of its window" % (what, i, g, min(vals), max(vals))
        if const and abs(g - valid[0]) > tol:
            return "%s: constant signal %r changed to %r at index %d" % (what, valid[0], g, i)
    return None


def check_window(win):
    """a kernel's sliding window: odd, symmetric, sums to 1 (1e-12)"""
    if not isinstance(win, list) or len(win) % 2 == 0:
        return "sliding window has even length %s" % (len(win) if isinstance(win, list) else win)
    if any(x is None for x in win):
        return "sliding window contains NaN: %r" % win
    for i in range(len(win)):
        if abs(win[i] - win[len(win) - 1 - i]) > 1e-12:
            return "sliding window is not symmetric: w[%d]=%r, w[%d]=%r" % (i, win[i], len(win) - 1 - i, win[len(win) - 1 - i])
    if abs(sum(Fraction(x) for x in win) - 1) > 1e-12:
        return "sliding window sums to %r, not 1" % float(sum(Fraction(x) for x in win))
    return None


class P(Prop):
    id = "C15"
    design_ref = "DESIGN.md section 5, C15"
    M = "TracklibVerif.Props.C15"
    MX = "TracklibVerif.Props.C15Ext"
    MF = "TracklibVerif.Props.C15ExtFin"
    MN = "TracklibVerif.Props.C15ExtNonneg"
    MC = "TracklibVerif.Props.C15Coll"
    MI = "TracklibVerif.Props.C15ExtInfTotal"
    MS = "TracklibVerif.Props.C15ExtSeq"
    theorems = [
        (M, "TV.C15.window_spec", "(w,x) is in the window of i iff w = k[j] and x = v[i-j+D] for a kernel position j whose sample index is inside the signal and not NaN"),
        (M, "TV.C15.filter_is_mean", "T1: in the domain Filter.execute succeeds, returns one value per observation, and every filtered value is (sum k[j] v[i-j+D]) / (sum k[j]) over the valid j"),
        (M, "TV.C15.filter_bounds", "T2: a filtered value lies between any lower and upper bound of the non-NaN samples at distance <= D"),
        (M, "TV.C15.filter_between_samples", "T2': a filtered value lies between two samples of its own window (min window <= out <= max window)"),
        (M, "TV.C15.filter_const", "T3: when all non-NaN samples equal c every filtered value is c"),
        (M, "TV.C15.filter_const_signal", "T3': a constant NaN-free signal is returned unchanged, both boundary settings"),
        (M, "TV.C15.boundary_copy", "T4: without boundary filtering the first and last D outputs are the inputs (NaN included)"),
        (M, "TV.C15.inDomain_of_positive_weights", "an odd list of positive weights with a non-NaN sample within D of every index (isolated NaN) is in the domain: no zero norm"),
        (M, "TV.C15.execute_is_mean", "Filter.execute as a whole (weight list normalised in place / Kernel object / Dirac): output = signal of renormalised means of the prepared window, with the caller's un-normalised weights for a list"),
        (M, "TV.C15.window_shape", "T5: toSlidingWindow has 2*floor(support)+1 values (odd), w[size-1-i] = w[i] for an even kernel function, and sums to 1"),
        (M, "TV.C15.window_nonneg", "T5': a kernel function non-negative at the sample points and positive at 0 gives a positive raw sum and a non-negative window with positive centre weight"),
        (M, "TV.C15.builtin_kernels", "the Uniform/Triangular/Epanechnikov kernel functions of kernel.py are even, non-negative, positive at 0"),
        (M, "TV.C15.window_of_nonneg_kernel", "T5 for any kernel object: even function, non-negative at the sample points S..-S, positive at one of them (0 at the support edge allowed), int(support) <= support: the window is odd, symmetric, sums to 1, non-negative"),
        (M, "TV.C15.window_zero_sum_fails", "a kernel whose sampled values sum to 0 makes toSlidingWindow fail with a division by zero, never a window of NaN"),
        (M, "TV.C15.user_kernel_window", "a user-defined kernel (Kernel + setFunction) given by non-negative values at |x| = 0,1,2,.. with a positive one inside the support has an odd, symmetric, non-negative window summing to 1"),
        (M, "TV.C15.user_kernel_zero_fails", "a user-defined kernel that is 0 at every sample point makes toSlidingWindow fail"),
        (M, "TV.C15.builtin_kernel_windows", "Uniform/Triangular/Epanechnikov kernels of any positive size with support >= 1 (boundary sizes included): odd, symmetric, non-negative window summing to 1"),
        (M, "TV.C15.list_zero_weights", "a non-negative weight list with zero weights: where the valid weights of a window sum to 0 all of them are 0 (no weighted mean exists) and the output is NaN, elsewhere it is the renormalised mean; boundaries copied; the call succeeds when every window holds a valid sample"),
        (M, "TV.C15.list_no_sample_fails", "a weight list on a signal one of whose windows holds no valid sample fails with a division by zero"),
        (M, "TV.C15.operate_is_mean", "T1 for track.operate(Operator.FILTER, af_in, kernel, af_out): the mean signal is returned and stored under af_out (created if needed), nothing else changes"),
        (M, "TV.C15.feature_kernel_is_list", "a kernel given as the name of a feature/coordinate without NaN is the list of its values (fresh list: the feature is not normalised)"),
        (M, "TV.C15.operate_refusals", "a reserved output name, then an empty track, are refused after the kernel has been prepared and found odd"),
        (M, "TV.C15.filterSeq_is_mean", "filter_seq: every listed coordinate/feature of a non-empty track becomes the mean signal of its former values, same window for all dimensions despite the in-place normalisation; other signals except 'temp' untouched"),
        (M, "TV.C15.filterSeq_int", "filter_seq with an int n uses [1]*n; n = 1 or a one-element list returns the track unchanged"),
        (M, "TV.C15.dim_dispatch", "dim omitted = FILTER_XYZ = x,y,z; FILTER_X..FILTER_XYZ mean what their names say; a list is taken as is; a str is walked character by character; the module-level state is returned unchanged"),
        (M, "TV.C15.session_independent", "calls made one after the other in one process give what each gives alone and leave FILTER_X..FILTER_XYZ and Kernel.__filter_boundary as they were"),
        (M, "TV.C15.smooth_is_mean", "Track.smooth(width) = filter_seq(GaussianKernel(width)) on x,y,z with boundaries copied: each coordinate becomes its mean signal, features untouched"),
        (M, "TV.C15.dirac_identity", "the Dirac kernel ([0,1,0]) returns a NaN-free signal unchanged"),
        (M, "TV.C15.inDomain_of_centre_weight", "non-negative weights with a positive centre weight on a NaN-free signal are in the domain: any length when boundaries are filtered, from the half window on when they are copied"),
        (M, "TV.C15.short_track_filtered", "boundaries filtered, any track length (shorter than the window included): every output is the renormalised mean of its window, between two of its samples; on a track of at most D+1 points every window holds the whole track"),
        (M, "TV.C15.short_track_unchanged", "boundaries copied, D <= size < N: the input is returned unchanged (NaN included)"),
        (M, "TV.C15.short_track_index_error", "boundaries copied, size < D, no zero norm: the boundary copy raises IndexError (no value is returned)"),
        (M, "TV.C15.execute_short_track", "Filter.execute as a whole (list / Kernel object / Dirac) on a short track with copied boundaries: unchanged for D <= size < N, IndexError for size < D"),
        (M, "TV.C15.smooth_short_track", "Track.smooth on a track shorter than the Gaussian window but with at least D points: coordinates and features unchanged"),
        (M, "TV.C15.smooth_too_short_fails", "Track.smooth on a track of fewer than D = int(3*width) points raises IndexError at the first coordinate; module-level state untouched"),
        (M, "TV.C15.window_of_even_nonneg_kernel", "T5 for a kernel function even, non-negative everywhere, positive at 0, support >= 1: odd symmetric non-negative window summing to 1 with a positive centre weight"),
        (M, "TV.C15.pow_kernels", "the Cubic/Spheric kernel functions (math.pow with integer exponents) are even, 1 at 0 and non-negative: (1-u)^4(3u^3+12u^2+16u+4)/4 and (1-u)^2(2+u)/2"),
        (M, "TV.C15.pow_kernel_windows", "Cubic/Spheric kernels of any sigma >= 1: odd, symmetric, non-negative window summing to 1"),
        (M, "TV.C15.exp_kernel_windows", "Gaussian/Exponential kernels, math.exp any positive-valued function, support 3*sigma >= 1: odd, symmetric, non-negative window summing to 1"),
        (M, "TV.C15.smooth_gaussian", "Track.smooth(width) with the Gaussian function written out (math.exp positive): NaN-free coordinates of at least int(3*width) points become their mean signals under the Gaussian window, which exists and is well shaped"),
        (M, "TV.C15.seqLoop_is_mean", "the loop `for af in dim` of filter_seq (any list length, Kernel object, Dirac): every listed signal becomes its mean signal, same window at every turn"),
        (M, "TV.C15.operatePairs_inplace", "the in-place list form of Track.operate on feature names runs the loop of filter_seq"),
        (M, "TV.C15.operate_output_omitted", "track.operate(FILTER, af, kernel) with the output name omitted filters af in place: it becomes (and the call returns) its mean signal, nothing else changes"),
        (M, "TV.C15.operate_list_is_mean", "track.operate(FILTER, [names], kernel) with arg3 omitted or equal: every listed feature becomes its mean signal, one window for all, nothing returned, nothing else changed; lists of different lengths are refused"),
        (M, "TV.C15.inDomain_normalise", "the domain does not depend on the scale of a weight list (it holds for the list normalised in place)"),
        (M, "TV.C15.filterSeq_twice", "filter_seq called twice on the same track with the same kernel object: mean signals, then mean signals of the mean signals under the same window (temp left by the first call and the in-place normalisation do not matter)"),
        (M, "TV.C15.number_kernel_refused", "a float given as kernel (documented for filter_seq) is refused with a TypeError in the kernel preparation: filter_seq fails at the first dimension, operate always; never a value"),
        (M, "TV.C15.algebraic_is_mean", "T1 for the algebraic form track.operate(\"out = in ! w\") / \"out = in .* w\" / \"in ! w\": out (feature or coordinate) becomes — or the call returns — the mean signal of `in` under the weights held by `w`; the temporary features are gone, nothing else changes"),
        (M, "TV.C15.filter_local", "locality, for ANY scalar type (no law of arithmetic used: IEEE doubles included): two signals of one length agreeing within D of i get the same out[i] from Filter.execute, bit for bit"),
        (M, "TV.C15.filter_far_sample", "replacing a sample further than D from i by any value (an outlier of another order of magnitude) leaves out[i] as it is — any scalar type"),
        (M, "TV.C15.execute_local", "locality for Filter.execute as a whole (list normalised in place / Kernel object / Dirac): the kernel preparation does not look at the signal"),
        (M, "TV.C15.filter_local_float", "filter_local instantiated at the IEEE doubles of the Lean runtime (the scalar type of the float streams)"),
        (M, "TV.C15.zero_norm_fails", "outside the domain (a zero norm) the method fails with a division by zero for a Kernel object, never a wrong value"),
        (MX, "TV.C15.nonfinite_weights_nan", "over Python's numbers (Ext: exact scalars + inf, -inf, nan), no law of arithmetic: weights that are all inf / -inf / nan give NaN at every window that reads a sample, ZeroDivisionError (0 / 0 on the untouched ints) when one reads none; boundaries copied"),
        (MX, "TV.C15.list_zero_or_nan_total", "a weight list whose total is 0 ([1,-1,0], [0,0,0]) or NaN (a NaN weight: a feature-name kernel over a feature holding a NaN): kernel[i] /= np.sum(...) does not raise, the list is left holding only inf/-inf/nan, the call returns the copied boundaries and NaN at every filtered index (ZeroDivisionError iff a window reads no sample)"),
        (MX, "TV.C15.inf_sample_pinf", "a window holding +inf samples and no -inf, all weights positive: the output is +inf (Python floats and numpy scalars alike)"),
        (MX, "TV.C15.inf_sample_both_nan", "a window holding a +inf and a -inf sample, positive weights: the output is NaN, no exception"),
        (MN, "TV.C15.inf_sample_nonneg_pinf", "non-negative weights (the window of a Kernel object, zero at the support edge), a +inf sample, no -inf, every infinite sample under a positive weight: the output is +inf"),
        (MN, "TV.C15.inf_sample_zero_weight_nan", "a zero weight on an infinite sample (the edge of a Uniform / Triangular window over +/-inf): 0 * inf is NaN and the output is NaN, not the mean of the samples that carry weight"),
        (MC, "TV.C15.collection_smooth_all", "TrackCollection.smooth = `for track in self: track.smooth(w)`: when Track.smooth succeeds on every track, every track has become its own smoothed track (in place, in order), nothing is returned, module-level state unchanged"),
        (MC, "TV.C15.collection_smooth_first_failure", "the first track whose smooth raises stops the loop: the earlier tracks stay smoothed, the later ones are untouched, the exception is that track's own"),
        (MC, "TV.C15.collection_smooth_is_mean", "T1 for TrackCollection.smooth(width): every track non-empty with x, y, z in the domain of the Gaussian window — in every track each coordinate becomes its mean signal, features untouched"),
        (MC, "TV.C15.collection_smooth_too_short_fails", "TrackCollection.smooth() with the default constraint = 1e3 (half window 3000), or any width whose half window exceeds the first track: IndexError at the first track, no track smoothed"),
        (MI, "TV.C15.list_infinite_total", "a weight list whose total is infinite (an inf / -inf weight): the list is left holding only 0 and nan, every filtered index is NaN, ZeroDivisionError iff a window reads no sample — with list_zero_or_nan_total: whenever the total is not a non-zero finite number no filtered output is a number"),
        (MI, "TV.C15.filterWindowX_np_nan", "generic (no law of arithmetic): if the quotient temp/norm of every window that reads a sample is NaN, a weight-list call returns the copied boundaries and NaN elsewhere, and raises ZeroDivisionError iff a window reads no sample"),
        (MS, "TV.C15.filterSeq_zero_total_list", "filter_seq(track, weights) with a weight list whose total is 0 or NaN (the derivative kernel [1,0,-1]) on NaN-free coordinates of at least D points: no exception; the caller's list is left as [nan,...,nan] (divided by its total at every dimension); x, y and z are NaN at every filtered index, their first and last D values kept"),
        (MS, "TV.C15.operateListX_nonfin", "track.operate(FILTER, af, weights, 'temp') when the normalised weights are all inf/-inf/nan: the output feature is NaN at every filtered index, boundary values copied, list left normalised"),
        (MS, "TV.C15.normalise_nonfin_all_nan", "a non-empty list of inf/-inf/nan weights divided by its total is all NaN: from the second dimension of filter_seq on the list is [nan,...,nan]"),
        (MF, "TV.C15.fin_div_fin", "temp[i] / norm as numpy computes it from finite accumulators: t/n when n != 0, else inf / -inf by the sign of t, nan for 0/0"),
        (MF, "TV.C15.finite_weights_any_sign", "finite weights of ANY sign (negative included), every window reading a sample: out[i] = (sum k[j] v[i-j+D]) / (sum k[j]) as numpy divides — the renormalised mean when the norm is not 0, +/-inf or NaN when it cancels; never an exception with numpy weights"),
        (MF, "TV.C15.ext_model_agrees", "no zero norm: the model over Python's numbers returns exactly the signal of the model over a field (meanSignal), so the domain theorems (filter_is_mean, filter_bounds, ...) hold for it"),
        (MF, "TV.C15.list_ext_model_agrees", "a weight list with a non-zero total and no zero norm (negative weights allowed): executeListX = execute = (list / total, mean signal of the caller's weights)"),
    ]
    partial = []
    open_statements = ["theorems are over a linearly ordered field: IEEE rounding of the float computation is outside them, except locality (filter_local, filter_far_sample, "
                       "execute_local hold for any scalar type, IEEE doubles included: out[i] is a function of the kernel and of the samples of its own window); how far the float "
                       "weighted mean of those samples is from the exact one is sampled by the transfer check at 1e-12 of the largest weighted sample of the window",
                       "math.exp is a parameter of the Gaussian / Exponential kernel functions: exp_kernel_windows / smooth_gaussian assume it returns positive numbers "
                       "(true of libm on the sampled range, not proved); closed-form user functions are a function parameter tabulated by Python, "
                       "window_shape / window_of_nonneg_kernel apply to them under the stated hypotheses (even, non-negative at the sample points, positive at one)",
                       "a window that holds an infinite sample has no weighted mean in the reals and the property demands nothing there; what the code returns is modelled over "
                       "Ext (Model/FilterExt.lean: exact scalars + inf, -inf, nan with the IEEE rules for the special values), compared on the 'ext' stream (and over Float on 'inff') and proved: "
                       "+inf for +inf samples under positive weights (inf_sample_pinf; inf_sample_nonneg_pinf for the windows of Kernel objects), NaN for both signs (inf_sample_both_nan) "
                       "and for a zero weight on an infinite sample (inf_sample_zero_weight_nan); no statement stronger than these exists over an "
                       "ordered field extended with a top and a bottom, since inf - inf and 0 * inf have no value there (they are NaN)",
                       "weight lists whose total is 0 or NaN and negative weights are outside the property (it speaks of non-negative kernels; with a total of 0 no renormalisation exists): "
                       "they are modelled as coded over Ext, compared on the 'ext' stream, and what is returned is proved (list_zero_or_nan_total, nonfinite_weights_nan, "
                       "finite_weights_any_sign, list_infinite_total for an infinite weight); not judged. Not covered: signed zeros (a total of -0.0 flips the "
                       "infinities; Ext has one zero) and the rounding of a norm that cancels exactly in the rationals (the stream uses totals that are powers of two, so that the "
                       "normalised weights are dyadic)",
                       "the feature-name kernel over a feature holding a NaN is driven through Filter.execute (stream 'ext', via = feat) and covered by list_zero_or_nan_total; "
                       "Model.operate / filter_seq over a field still report it as `nanKernel`; over Python's numbers the front ends are modelled for weight LISTS only (operateListX, "
                       "filterSeqListX, stream 'extseq'), not for Kernel objects, feature names, Track.smooth",
                       "values read back as numpy scalars by a later call on the same track change ZeroDivisionError into nan outside the domain: sessions use one track per call, "
                       "and the same track is filtered twice only when both passes are in the domain",
                       "a track shorter than the half window with copied boundaries raises IndexError (short_track_index_error, smooth_too_short_fails): outside the property's "
                       "quantifier (signals at least as long as the window), not judged; the statement read literally would ask for the input unchanged (see JUDGE_SHORT_INDEXERROR)",
                       "the list form of Track.operate with outputs that are inputs of later pairs, repeated names or coordinates written in place is modelled (operatePairs) and compared, not judged"]
    modelled = ("Filter.execute (kernel preparation for weight lists / Kernel objects / Dirac / feature names / a number, odd-window test, window index i-j+D, "
                "skipping out-of-track and NaN samples, division by the collected norm incl. the int/float/numpy cases of a zero norm, boundary copy incl. the IndexError "
                "on a track shorter than the half window), "
                "Track.operate(Operator.FILTER, arg1, kernel[, arg3]) with createAnalyticalFeature (reserved names, empty track, new output feature), output name omitted, "
                "lists of input / output names (one call per pair with the same kernel object, lengths compared), "
                "the algebraic form track.operate(\"out = in ! w\") / \"out = in .* w\" / \"in ! w\" for two names of the track (FILTER into the temporary feature #0, assignment to a "
                "new / an existing feature or to a coordinate, removal of the #-features; the parsing of the expression itself is C02's model), "
                "Kernel.evaluate and Kernel.toSlidingWindow (zero sum included), the kernel functions of Uniform/Triangular/Epanechnikov/Cubic/Spheric kernels (math.pow with "
                "integer exponents as products) and of Gaussian/Exponential kernels (math.exp, math.sqrt(2*math.pi) as parameters: Float.exp / Float.sqrt in the driver), "
                "user-defined kernels given by a table of values (closed-form user functions are a function parameter tabulated by Python), "
                "filter_seq (int kernel, default kernel, one-element list, float kernel, dispatch on dim: default / module constant / list / str, x/y/z through the feature 'temp', "
                "in-place renormalisation of the weight list at every dimension), the same track filtered several times with the same kernel object, Track.smooth (default width), "
                "sessions of calls threading the module-level state; TrackCollection.smooth (Model/FilterColl.lean: the loop over the tracks, each smoothed in place by "
                "Track.smooth with a new Gaussian kernel, default constraint = 1e3, the first exception leaves the loop; the state of the failing track after the exception is "
                "not modelled); "
                "track.operate(FILTER) / filter_seq for a weight LIST over Python's numbers (operateListX / seqLoopListX / filterSeqListX: the list divided by its total again at every "
                "dimension, coordinates through `temp`); "
                "Filter.execute over Python's numbers (Model/FilterExt.lean: the same loops `cells` / `normalise` instantiated at Ext = exact scalars + inf, -inf, nan): a weight list "
                "whose total is 0 / NaN / infinite (`kernel[i] /= norm` with numpy scalars does not raise), negative weights with a cancelling norm (+/-inf, not ZeroDivisionError), "
                "NaN / infinite weights (a feature-name kernel over a feature holding NaN), infinite samples under list weights and under Kernel-object windows (0 * inf = nan)")
    trusted = ["math.exp / math.sqrt are Float.exp / Float.sqrt of the Lean runtime in the driver (both the C library's); closed-form user kernel functions are a parameter of the model: "
               "their values at the model's sample points are tabulated by the real Python function",
               "math.pow(a, n) for n = 2, 3, 5, 7 is modelled as a product (exact over the rationals, compared at 1e-9 with floats)",
               "np.sum is modelled as a left-to-right sum; int(support) as floor"]
    rule = ("signals random-integer / dyadic / float / constant / monotone, with isolated NaN, length window..window+12, and (about one case in seven, every API) shorter than the "
            "window: 1..window-1, below and above the half window; about one signal in four (every API and stream) holds samples of very different orders of magnitude: one or two "
            "samples of 1e6..3e20 (one sign per signal) at the first valid index / anywhere / at the last valid index among small values or a constant stretch, every sample at its own "
            "scale 1e-6..1e13, or a large common offset with metre-level variations (tag dynamic_range); every output is judged with a tolerance local to its own window "
            "(1e-12 of the largest sample carrying a positive weight; a copied boundary value exactly); kernels: odd weight "
            "lists with positive weights (symmetric and asymmetric, integer/dyadic/decimal, or every weight at its own scale 1e-6..1e7), integers (filter_seq, incl. the default kernel), the built-in "
            "non-negative kernels Uniform/Triangular/Epanechnikov/Gaussian/Exponential/Cubic/Spheric/Dirac with widths 1..5, boundary and "
            "non-integer widths, user-defined kernels (Kernel + setFunction) returning Python ints / floats / bools / numpy scalars from a table or a closed form "
            "(0 at the support edge or not), filterBoundary set to True / False / never set; features via track.operate(FILTER) incl. output into an existing / the same / a new feature / "
            "output name omitted, the algebraic forms \"out = in ! w\" / \"out = in .* w\" (out a new / an existing feature / the input / a coordinate) and \"in ! w\" (values returned), "
            "lists of names (in place, fresh outputs; overlapping / repeated / mismatched lists for correspondence) "
            "and kernels given as feature names, x/y/z and features via filter_seq with dim omitted / a module constant / a list / a str, once or twice on the same track with the same kernel object, "
            "Track.smooth (width given or omitted), Kernel.toSlidingWindow; sessions of 2-4 calls (filter_seq, Track.smooth, filter_freq) in one process on different tracks, some with an all-NaN "
            "coordinate or no observation, the module constants and Kernel class attributes being read after every call. All signals over {0,1,NaN} up to length 6 (quick) / 7 (thorough) "
            "for three kernels; every kernel class x boundary flag x track lengths 1, 2, D-1, D, D+1, N-2..N+2; all user tables of length <= 3 over five typed values for supports 1..3. "
            "Signals shorter than the window ('short') are judged like the others: renormalised mean over the in-track samples when boundaries are filtered, input unchanged when they are "
            "copied; the IndexError of the boundary copy below the half window is not judged. Cases outside the "
            "property's domain are kept in correspondence-only streams: 'zeronorm' (a window without valid weight), "
            "'badk' (even / empty windows, support < 1, zero-sum kernels, a float kernel, reserved or unknown names, empty tracks); "
            "'zerow' (weight lists with zero weights) is judged at the indices whose valid weights have a positive sum; 'inff' (float signals holding +inf / -inf samples, "
            "first valid / anywhere / both signs) is judged at the windows that hold no infinite sample and at the copied boundary values; 'ext' (exact stream over Ext Rat: 20 fixed weight lists "
            "x every signal over {1, 3, NaN, inf} of the window's length, then random weight lists with a zero total / negative weights (total +/- a power of two) / a NaN or infinite weight / "
            "positive weights, given as a list or as the name of a feature, and Kernel objects, on signals holding NaN, +inf, -inf) is compared with Model/FilterExt.lean everywhere and judged "
            "only where the property speaks: non-negative finite weights with a positive total, at the windows holding no infinite sample; 'coll' (TrackCollection.smooth on 0..4 tracks, "
            "widths 0.5..2 or the default constraint 1e3, tracks longer than the window / between the half window and the window / shorter than the half window / without observation): "
            "every track reached before an exception is judged like a track smoothed alone, with the window the implementation exposes; the exception is excusable only on the first track "
            "that is by its input outside the domain or shorter than the half window; 'extseq' (filter_seq with a weight list over Ext Rat: derivative kernels [1,0,-1], [-1,0,1], "
            "[1,-2,1] and other zero totals, negative weights with a total +/- a power of two, a NaN / infinite weight, on x/y/z and a feature holding NaN / infinite samples; judged only "
            "for non-negative lists with a positive total). non-trivial = window of "
            "at least 3 weights and a non-constant signal (or a sliding-window case)")

    def setup(self):
        import warnings
        warnings.filterwarnings("ignore")
        import numpy as np
        from tracklib.core.track import Track
        from tracklib.core.obs import Obs
        from tracklib.core.obs_coords import ENUCoords
        from tracklib.core.obs_time import ObsTime
        from tracklib.core.operators import Operator
        from tracklib.core import kernel as K
        from tracklib.algo import filtering as F
        self.np = np
        self.Track, self.Obs, self.ENU, self.ObsTime, self.Operator, self.K, self.F = Track, Obs, ENUCoords, ObsTime, Operator, K, F
        self.t0 = ObsTime.readUnixTime(0)
        # the module-level state a call can read, as it is in a fresh process: taken once per process tree (the engine
        # calls setup() again in worker processes that have already run cases)
        global _PRISTINE
        if _PRISTINE is None:
            _PRISTINE = ({n: list(getattr(F, n)) for n in FILTER_CONSTS},
                         {a: getattr(K.Kernel, a) for a in ("_Kernel__filter_boundary", "_Kernel__kernel_function", "_Kernel__support")})
        self.pristine_consts, self.pristine_kattr = _PRISTINE
        self.restore_globals()

    # ---------------------------------------------------------------- module-level state
    def restore_globals(self):
        """every case starts from the state of a fresh process (what an earlier case left must not leak into a replay)"""
        for n, v in self.pristine_consts.items():
            getattr(self.F, n)[:] = v
        for a, v in self.pristine_kattr.items():
            setattr(self.K.Kernel, a, v)

    def globals_now(self):
        d = {n: list(getattr(self.F, n)) for n in FILTER_CONSTS}
        d["Kernel.filter_boundary"] = getattr(self.K.Kernel, "_Kernel__filter_boundary")
        d["Kernel.kernel_function"] = "None" if getattr(self.K.Kernel, "_Kernel__kernel_function") is None else "set"
        d["Kernel.support"] = "None" if getattr(self.K.Kernel, "_Kernel__support") is None else "set"
        return d

    # ---------------------------------------------------------------- generators
    WIDTHS = [1, 2, 3, 4, 5, 1.5, 2.5, 1.25, 3.75]
    # the smallest sizes whose support is still >= 1, and sizes around the steps of int(support)
    BOUNDARY_WIDTHS = {"uniform": [0.5, 0.75, 1], "triangular": [0.75, 1, 1.5], "epanechnikov": [0.75, 1, 1.5],
                       "gaussian": [0.5, 0.75, 1], "exponential": [0.5, 0.75, 1], "cubic": [1, 1.5, 2], "spheric": [1, 1.5, 2]}
    USER_ALPHABET = [["i", 0], ["i", 1], ["f", 0.5], ["f", 0.0], ["F", 0.25]]
    # one or two sizes of every kernel class, for the enumeration of track lengths around the half window and the window
    LENGTH_KERNELS = [{"t": "list", "w": [1, 2, 1]}, {"t": "list", "w": [1, 2, 3, 4, 5]}, {"t": "list", "w": [1] * 7},
                      {"t": "dirac"}, {"t": "uniform", "p": 1}, {"t": "uniform", "p": 2}, {"t": "triangular", "p": 2},
                      {"t": "epanechnikov", "p": 2}, {"t": "gaussian", "p": 1}, {"t": "gaussian", "p": 2}, {"t": "exponential", "p": 1},
                      {"t": "cubic", "p": 3}, {"t": "spheric", "p": 3}, {"t": "user", "tbl": [["f", 0.5], ["f", 0.25]], "s": 2.5},
                      {"t": "userfn", "shape": "tent", "p": 2, "s": 3}]

    def exhaustive_scopes(self, tier):
        m = 7 if tier == "thorough" else 6
        return ["every signal over {0, 1, NaN} of length 1..%d inside the domain (shorter than the window included), for the weight list [1,2,5], UniformKernel(1) "
                "with and without boundary filtering" % m,
                "every kernel class (15 kernels: 3 weight lists, Dirac, Uniform x2, Triangular, Epanechnikov, Gaussian x2, Exponential, Cubic, Spheric, a user table, a user closed form) "
                "x filterBoundary True / False / never set x track lengths 1, 2, D-1, D, D+1, N-2, N-1, N, N+1, N+2 x three signals (ramp, spike, isolated NaN)",
                "the sliding window of every user-defined kernel whose table has 1..3 values among int 0, int 1, float 0.5, float 0.0, numpy 0.25, "
                "for the supports 1, 1.5, 2, 2.5, 3",
                "the sliding window of every built-in kernel class at its boundary sizes (smallest support >= 1) and at the widths 1..5, 6, 7.5, 10",
                "over Python's numbers (stream 'ext'): every signal over {1, 3, NaN, +inf} of length 3 for each of the 12 three-weight lists of EXT_WEIGHT_LISTS (zero total, negative, "
                "NaN and infinite weights) — and one signal in nine of length 5 for the five-weight lists"]

    def rand_weights(self, rng):
        D = rng.choice([0, 1, 1, 1, 2, 2, 3, 4])
        N = 2 * D + 1
        style = rng.choice(["int", "int", "dyadic", "sym", "decimal", "ones", "scales"])
        if style == "scales":
            # weights of very different orders of magnitude: none of them may be dropped or flushed
            w = [round(rng.uniform(1, 10), 2) * 10.0 ** rng.randrange(-6, 7) for _ in range(N)]
        elif style == "int":
            w = [rng.randrange(1, 9) for _ in range(N)]
        elif style == "dyadic":
            w = [rng.randrange(1, 33) / 8 for _ in range(N)]
        elif style == "decimal":
            w = [round(rng.uniform(0.05, 3), 2) for _ in range(N)]
        elif style == "ones":
            w = [1] * N
        else:
            h = [rng.randrange(1, 9) for _ in range(D + 1)]
            w = h + h[-2::-1]
        return w

    def rand_fb(self, rng):
        return rng.choice([True, False, True, False, None])

    def rand_user(self, rng):
        """a user-defined kernel: a table of typed non-negative values at |x| = 0, 1, 2, ... (0 beyond), positive somewhere inside the support"""
        if rng.random() < 0.3:
            shape = rng.choice(USERFN_SHAPES)
            p = rng.choice([1, 1.5, 2, 2.5, 3, 4])
            s = rng.choice([p, p + 0.5, 1.5 * p, max(1, p - 0.5)])
            if shape == "bell" and p <= 1:
                p = 2
            return {"t": "userfn", "shape": shape, "p": p, "s": max(1, s), "fb": self.rand_fb(rng)}
        L = rng.randrange(1, 5)
        tbl = []
        for a in range(L):
            ty = rng.choice(USER_TYPES)
            if ty in ("i", "I"):
                val = rng.choice([0, 0, 1, 1, 2, 3])
            elif ty == "b":
                val = rng.choice([0, 1])
            else:
                val = rng.choice([0.0, 0.125, 0.25, 0.5, 0.5, 0.75, 1.0, 1.5])
            tbl.append([ty, val])
        if rng.random() < 0.5:
            tbl.append([rng.choice(["i", "i", "f", "I", "b"]), 0])        # 0 at the edge
        S = rng.choice([max(1, len(tbl) - 2), len(tbl) - 1 if len(tbl) > 1 else 1, len(tbl), len(tbl) + 1])
        s = S + rng.choice([0, 0, 0.5, 0.25])
        k = {"t": "user", "tbl": tbl, "s": s, "fb": self.rand_fb(rng)}
        if rng.random() < 0.5:
            k["setf"] = False      # the constructor alone, no setFunction afterwards (fix 91685d1)
        if sum(shape_weights(k)) <= 0:
            k["tbl"][0] = ["f", 0.5]
        return k

    def rand_kernel(self, rng, allow_int=False):
        r = rng.random()
        if allow_int and r < 0.12:
            return {"t": "int", "n": rng.choice([1, 3, 3, 5, 7])}
        if r < 0.45:
            return {"t": "list", "w": self.rand_weights(rng)}
        if r < 0.6:
            return self.rand_user(rng)
        t = rng.choice(OBJ_KERNELS)
        if t == "dirac":
            return {"t": "dirac", "fb": self.rand_fb(rng)}
        p = rng.choice(self.WIDTHS) if rng.random() < 0.85 else rng.choice(self.BOUNDARY_WIDTHS[t])
        return {"t": t, "p": p, "fb": self.rand_fb(rng)}

    # orders of magnitude met in one feature: a raw epoch / a sentinel / an accumulated quantity next to increments
    OUTLIERS = [1.0e6, 6861234.75, 1.7e9, 4.0e12, 1.0e16, 1.0e20]

    def rand_signal(self, rng, n, style=None, nan=True, floats=False):
        style = style or rng.choice(["int", "int", "const", "mono", "dyadic", "float" if floats else "int", "spike",
                                     "outlier", "scales" if floats else "outlier", "offset" if floats else "int"])
        if n == 0:
            return []
        outlier = None
        if style == "outlier":
            # samples of very different orders of magnitude in ONE signal: a window that does not hold the large sample is
            # still the mean of its own (small) samples. All large samples of a signal have the same sign (no cancellation
            # between them: the model's weights may differ from the implementation's in the last bit)
            outlier = rng.choice([1, 1, -1]) * rng.choice(self.OUTLIERS)
            style = rng.choice(["tenth", "const", "int", "float" if floats else "dyadic", "dyadic"])
        if style == "int":
            v = [rng.randrange(-50, 51) for _ in range(n)]
        elif style == "const":
            c = rng.choice([0, 1, -3, 7, 2.5, 1000] + ([0.1] if outlier is not None else []))
            v = [c] * n
        elif style == "tenth":
            v = [rng.choice([0.1, 0.1, 0.1, 0.3, 25.013]) for _ in range(n)]
        elif style == "mono":
            x = rng.randrange(-20, 20)
            v = []
            for _ in range(n):
                v.append(x)
                x += rng.randrange(0, 6) if rng.random() < 0.8 else 0
            if rng.random() < 0.5:
                v = [-a for a in v]
        elif style == "dyadic":
            v = [rng.randrange(-400, 401) / 8 for _ in range(n)]
        elif style == "float":
            v = [round(rng.uniform(-1000, 1000), 3) for _ in range(n)]
        elif style == "scales":
            # every sample at its own order of magnitude, one sign for the whole signal
            sg = rng.choice([1, -1])
            v = [sg * round(rng.uniform(1, 10), 3) * 10.0 ** rng.randrange(-6, 13) for _ in range(n)]
        elif style == "offset":
            # projected coordinates: a large common part, variations of a few metres
            base = rng.choice([651234.25, 6861234.75, -12345.5, 1.6e9])
            v = [base + round(rng.gauss(0, 3), 3) for _ in range(n)]
        else:
            v = [0] * n
            v[rng.randrange(n)] = rng.choice([1, 64, -8])
        if nan and rng.random() < 0.45:
            # isolated NaN: never two neighbours
            i = rng.randrange(0, 3)
            while i < n:
                v[i] = None
                i += rng.randrange(2, 7)
        if outlier is not None:
            valid = [i for i in range(n) if v[i] is not None]
            if valid:
                where = rng.choice(["first", "first", "first", "any", "last", "two"])
                at = {"first": valid[:1], "any": [rng.choice(valid)], "last": valid[-1:], "two": [valid[0], rng.choice(valid)]}[where]
                for i in at:
                    v[i] = float(outlier) * rng.choice([1, 1, 1.25, 3])
        return v

    def rand_dim(self, rng, names):
        """(how, dims, const): the `dim` argument of filter_seq and the names it means"""
        r = rng.random()
        if r < 0.3:
            return "default", ["x", "y", "z"], None
        if r < 0.5:
            c = rng.choice(sorted(FILTER_CONSTS))
            return "const", list(FILTER_CONSTS[c]), c
        if r < 0.6:
            return "str", rng.choice([["x"], ["y"], ["z"], ["x", "y"], ["y", "x"], ["x", "z"], ["z", "y", "x"], ["x", "y", "z"]]), None
        dims = rng.choice([["x", "y", "z"], ["x", "y"], ["y", "z"], ["x"], ["y"], ["z"],
                           [rng.choice(names)], rng.sample(names, rng.randrange(1, len(names) + 1))])
        return "list", dims, None

    def rand_seq(self, rng, session=False):
        """one call of filter_seq (None when the draw falls outside the property's domain and session is False)"""
        k = self.rand_kernel(rng, allow_int=True)
        if k["t"] == "int" and k["n"] == 1 and rng.random() < 0.6:
            k["omit"] = True          # filter_seq(track[, dim=...]): the default value of `kernel`
        w = shape_weights(k)
        n = max(1, len(w)) + rng.choice([0, 1, 2, rng.randrange(0, 10)])
        if len(w) >= 3 and rng.random() < 0.15:
            n = rng.randrange(1, len(w))          # a track shorter than the window
            if "fb" in k and rng.random() < 0.4:
                k["fb"] = True
        sc = self.pick_scalar(rng, k)
        empty = session and rng.random() < 0.08
        if empty:
            n = 0
        sigs = {nm: self.rand_signal(rng, n, nan=(rng.random() < 0.3), floats=(sc == "f")) for nm in ("x", "y", "z")}
        if session and n and rng.random() < 0.3:
            sigs[rng.choice(["z", "z", "x", "y"])] = [None] * n          # a coordinate without any valid value (2D data)
        feats = {}
        if n:
            for nm in ("a", "b")[:rng.randrange(0, 3)]:
                feats[nm] = self.rand_signal(rng, n, floats=(sc == "f"))
        names = ["x", "y", "z"] + list(feats)
        if n and rng.random() < 0.06:
            # the kernel is the name of a feature holding as many weights as there are observations
            if n % 2 == 0:
                n -= 1
                sigs = {nm: v[:n] for nm, v in sigs.items()}
                feats = {nm: v[:n] for nm, v in feats.items()}
            wts = [rng.choice([0, 1, 1, 2, 3, 0.5]) for _ in range(n)]
            wts[n // 2] = rng.choice([1, 2, 4])
            feats["w"] = wts
            k = {"t": "feat", "name": "w"}
            if sc == "f" and rng.random() < 0.5:
                sc = "r"
        how, dims, const = self.rand_dim(rng, names)
        c = {"kind": "seq", "x": sigs["x"], "y": sigs["y"], "z": sigs["z"], "feats": feats, "dims": dims, "k": k, "sc": sc, "how": how}
        if const:
            c["const"] = const
        if not session and not self._in_domain(c):
            return None
        if not session and k["t"] not in ("feat", "int") and len(w) >= 3 and how != "str" and rng.random() < 0.2:
            # the same track filtered a second time with the same kernel object (it finds the scratch feature 'temp' and a
            # weight list already normalised): kept when the signals produced by the first call are in the domain again
            fbk = bool(k.get("fb"))
            allsig = dict(sigs, **feats)
            firsts = [mean_oracle(w, allsig[d], fbk) for d in dims]
            if all("undefined" not in f and domain_ok(w, f) for f in firsts):
                c["twice"] = True
        return c

    # ---------------------------------------------------------------- 'ext': Filter.execute over Python's numbers
    # (Model/FilterExt.lean: scalar Ext Rat = rationals + inf, -inf, nan). Case: {"kind": "ext", "sc": "r", "sig": [...],
    # "k": {"t": "list", "w": [...]} | a Kernel object of RATIONAL_KERNELS / dirac, "via": "list" | "feat"}; values are
    # dyadic numbers, None (NaN), "inf", "-inf". via = "feat": the weights are the values of the feature "w" (as many
    # as observations) and the kernel is given by its name.
    EXT_WEIGHT_LISTS = [[1, -1, 0], [0, 0, 0], [1, 0, -1], [2, -1, -1], [-1, 2, -1], [1, 1, -2, 0, 0], [0.5, -0.5, 0], [1, -2, 2],
                        [1, -2, 1.5], [-1, -2, -1], [3, -1, 0], [1, -1, 1], [1, 2, -1, -1, 1], [1, None, 1], [None, None, None],
                        [1, 2, None, 2, 1], [1, "inf", 1], [1, "-inf", 2], ["inf", "-inf", 1], [0, 0, 0, 0, 0]]

    def ext_tok(self, a):
        return "nan" if a is None else (a if isinstance(a, str) else ratstr(a))

    def ext_val(self, t):
        if t == "nan":
            return None
        if t in ("inf", "-inf"):
            return float(t)
        return float(Fraction(t))

    def ext_class(self, case):
        """which of the situations of Model/FilterExt.lean the input is in (decided on the input alone)"""
        k = case["k"]
        tags = []
        if k["t"] == "list":
            w = k["w"]
            if any(a is None for a in w):
                tags.append("nan_weight")
            elif any(isinstance(a, str) for a in w):
                tags.append("inf_weight")
            else:
                if sum(Fraction(a) for a in w) == 0:
                    tags.append("zero_total")
                if any(a < 0 for a in w):
                    tags.append("negative_weight")
        if any(isinstance(a, str) for a in case["sig"]):
            tags.append("inf_sample")
        return tags or ["plain"]

    def ext_cases(self, rng, quick):
        out = []
        # every weight list of EXT_WEIGHT_LISTS on every signal over {1, 3, NaN, inf} of length N..N+1 (lists) -- bounded
        for w in self.EXT_WEIGHT_LISTS:
            n = len(w)
            for c, v in enumerate(itertools.product([1, 3, None, "inf"], repeat=n)):
                if n == 3 or c % 9 == 4:
                    out.append({"kind": "ext", "sc": "r", "sig": list(v), "k": {"t": "list", "w": list(w)}, "via": "list"})
        vals = [0, 1, 2, -1, 0.5, 3, 4, -2.5, 8]
        for _ in range(500 if quick else 5000):
            D = rng.choice([1, 1, 1, 2, 3])
            N = 2 * D + 1
            r = rng.random()
            if r < 0.35:        # zero total, any signs
                w = [rng.choice([-2, -1, 0, 0, 1, 2, 0.5, -0.5]) for _ in range(N - 1)]
                w.insert(rng.randrange(N), -sum(w))
            elif r < 0.6:       # negative weights; the total is +/- a power of two, so that the normalised weights are dyadic and a
                #                     collected norm that cancels exactly in the rationals cancels exactly in floating point too
                w = [rng.choice([-2, -1, 0, 1, 2, 3, 0.5, -0.5]) for _ in range(N - 1)]
                w.insert(rng.randrange(N), rng.choice([1, 2, 4, 8, 0.5, -1, -2, -4]) - sum(w))
            elif r < 0.75:      # a NaN / an infinite weight
                w = [rng.choice([0, 1, 2, 0.5]) for _ in range(N)]
                w[rng.randrange(N)] = rng.choice([None, None, "inf", "-inf"])
            else:               # positive weights (the property's kernels), infinite samples
                w = [rng.choice([1, 2, 3, 0.5, 0.25]) for _ in range(N)]
            via = "feat" if rng.random() < 0.25 else "list"
            n = N if via == "feat" else N + rng.choice([-2, -1, 0, 0, 1, 2, 3, 5])
            if n < 1:
                n = 1
            v = [rng.choice(vals) for _ in range(n)]
            for _ in range(rng.choice([0, 0, 1, 1, 2, n])):
                v[rng.randrange(n)] = rng.choice([None, None, "inf", "-inf"])
            if r >= 0.75 and not any(isinstance(a, str) for a in v):
                v[rng.randrange(n)] = rng.choice(["inf", "-inf"])
            out.append({"kind": "ext", "sc": "r", "sig": v, "k": {"t": "list", "w": w}, "via": via})
        # Kernel objects (Python-float windows) on signals holding infinite samples
        for _ in range(150 if quick else 1500):
            t = rng.choice(RATIONAL_KERNELS + ("dirac",))
            k = {"t": t, "fb": self.rand_fb(rng)}
            if t != "dirac":
                k["p"] = rng.choice([1, 2, 3, 1.5, 2.5])
            N = len(shape_weights(k))
            n = max(1, N + rng.choice([-1, 0, 0, 1, 2, 4]))
            v = [rng.choice(vals) for _ in range(n)]
            for _ in range(rng.choice([1, 1, 2, 3])):
                v[rng.randrange(n)] = rng.choice([None, "inf", "inf", "-inf"])
            out.append({"kind": "ext", "sc": "r", "sig": v, "k": k, "via": "list"})
        return out

    def ext_impl(self, case):
        v, k = case["sig"], case["k"]
        t = self.mk_track([float(i) for i in range(len(v))])
        t.createAnalyticalFeature("a", [num(a) for a in v])
        if case["via"] == "feat":
            t.createAnalyticalFeature("w", [num(a) for a in k["w"]])
            kern = "w"
        elif k["t"] == "list":
            kern = [num(a) for a in k["w"]]
        else:
            kern = self.mk_kernel(k)
        ret = t.operate(self.Operator.FILTER, "a", kern, "b")
        res = {"out": [canon(a) for a in t.getAnalyticalFeature("b")], "ret": [canon(a) for a in ret],
               "kafter": [canon(a) for a in kern] if isinstance(kern, list) else None,
               "input_after": [canon(a) for a in t.getAnalyticalFeature("a")], "window": self.window_of(k)}
        if case["via"] == "feat":
            res["weights_after"] = [canon(a) for a in t.getAnalyticalFeature("w")]
        return res

    def ext_requests(self, case):
        k = case["k"]
        ks = "list " + tok_list(self.ext_tok(a) for a in k["w"]) if k["t"] == "list" else self.kspec("r", k)
        ls = ["C15.execx r %s %s" % (tok_list(self.ext_tok(a) for a in case["sig"]), ks)]
        if self.needs_sw(k):
            ls.append("C15.sw r %s" % ks)
        return ls

    def ext_decode(self, case, replies):
        r = replies[0].split(" ")
        if r[0] != "ok":
            return {"err": r[0]}
        out = [self.ext_val(t) for t in untok(r[2])]
        res = {"out": out, "ret": out, "input_after": [canon(num(a)) for a in case["sig"]], "window": self.decode_sw("r", case["k"], replies[-1]),
               "kafter": None if (r[1] == "none" or case["via"] == "feat") else [self.ext_val(t) for t in untok(r[1])]}
        if case["via"] == "feat":
            res["weights_after"] = [canon(num(a)) for a in case["k"]["w"]]      # a fresh list is normalised, not the feature
        return res

    def ext_spec(self, case, out):
        """what the PROPERTY says of these inputs: it speaks of non-negative kernels and of weighted means of real numbers.
        Non-negative finite weights with a positive total (and every Kernel object, with the sliding window the implementation
        itself exposes): the windows holding no infinite sample are judged (check_nonfinite), when every window keeps a positive
        valid weight. Anything else (a zero / NaN / infinite
        total, a negative weight) is outside the statement: correspondence with the model only (theorems
        list_zero_or_nan_total, nonfinite_weights_nan say what is returned)."""
        k = case["k"]
        if k["t"] == "list":
            w = k["w"]
            if any(not finite(a) for a in w) or any(a < 0 for a in w) or sum(w) <= 0:
                return None
            w, fb = [Fraction(a) for a in w], False
        else:
            # the window is the implementation's own (observed, checked for the shape the property states), never the clean tree's
            w, fb, bad = self.weights_for(k, out)
            if bad:
                return bad
        v = case["sig"]
        if not domain_ok(w, [0 if isinstance(a, str) else a for a in v], fb) or index_zone(w, fb, len(v)):
            return None
        if "err" in out:
            return "raised %s (%s) inside the domain" % (out["err"], out.get("detail", ""))
        if out["input_after"] != [canon(num(a)) for a in v]:
            return "the input feature was modified: %r" % out["input_after"]
        return check_nonfinite(w, v, fb, out["out"], "feature")

    # ---------------------------------------------------------------- 'coll': TrackCollection.smooth
    # case: {"kind": "coll", "sc": "f", "tracks": [{"x": .., "y": .., "z": ..}, ...], "w": width, "womit": bool (default constraint = 1e3)}
    def coll_width(self, case):
        return 1000.0 if case.get("womit") else case["w"]

    def coll_cases(self, rng, quick):
        out = [{"kind": "coll", "sc": "f", "tracks": [], "w": 1}]
        for _ in range(120 if quick else 1500):
            wd = rng.choice([1, 1, 2, 1.5, 0.5, 0.75])
            D = int(3 * wd)
            tracks = []
            for _ in range(rng.randrange(1, 5)):
                r = rng.random()
                if r < 0.78:
                    n = 2 * D + 1 + rng.randrange(0, 7)
                elif r < 0.9:
                    n = rng.randrange(D, 2 * D + 1)                # shorter than the window, at least the half window: unchanged
                elif r < 0.97:
                    n = rng.randrange(1, D) if D > 1 else 2 * D + 1   # shorter than the half window: IndexError, the loop stops
                else:
                    n = 0                                             # no observation: AnalyticalFeatureError
                tracks.append({"x": self.rand_signal(rng, n, nan=False, floats=True),
                               "y": self.rand_signal(rng, n, nan=(rng.random() < 0.15), floats=True),
                               "z": self.rand_signal(rng, n, nan=False, floats=True)})
            out.append({"kind": "coll", "sc": "f", "tracks": tracks, "w": wd})
        for _ in range(4 if quick else 30):      # the default argument: constraint = 1e3, half window 3000
            tracks = [{"x": self.rand_signal(rng, n, nan=False, floats=True), "y": self.rand_signal(rng, n, nan=False, floats=True),
                       "z": self.rand_signal(rng, n, nan=False, floats=True)} for n in [rng.randrange(1, 12) for _ in range(rng.randrange(1, 4))]]
            out.append({"kind": "coll", "sc": "f", "tracks": tracks, "w": 1000.0, "womit": True})
        return out

    def coll_impl(self, case):
        import engine
        from tracklib.core.track_collection import TrackCollection
        ts = [self.mk_track(t["x"], t["y"], t["z"]) for t in case["tracks"]]
        tc = TrackCollection(list(ts))
        res = {}
        try:
            ret = tc.smooth() if case.get("womit") else tc.smooth(case["w"])
            res["returned"] = None if ret is None else "something"
        except BaseException as e:
            if isinstance(e, KeyboardInterrupt):
                raise
            res = {"err": engine.err_kind(e), "detail": str(e)[:200]}
        res["tracks"] = [self.read_track(t) for t in ts]              # the caller's track objects: smoothed in place
        res["members_same"] = tc.size() == len(ts) and all(tc.getTrack(i) is ts[i] for i in range(len(ts)))
        res["state"] = self.globals_now()
        res["window"] = self.safe_window({"t": "gaussian", "p": self.coll_width(case), "fb": None})
        return res

    def coll_requests(self, case):
        ks = self.kspec("f", {"t": "gaussian", "p": self.coll_width(case), "fb": None})
        toks = " ".join(self.track_tok("f", t) for t in case["tracks"])
        return [("C15.coll f %d %s %s" % (len(case["tracks"]), toks, ks)).replace("  ", " "), "C15.sw f %s" % ks]

    def coll_decode(self, case, replies):
        parts = replies[0].split(" # ")
        n = len(case["tracks"])
        res = {}
        if parts[0] != "ok":
            kind, at = parts[0].split("@")
            res = {"err": kind, "at": int(at)}
        else:
            res["returned"] = None
        tracks = []
        for p in parts[1:1 + n]:
            names, sigs = p.split(" ")
            tracks.append(dict(zip(untok(names), [self.vals("f", s_) for s_ in untok(sigs, ";")])))
        res["tracks"] = tracks
        res["members_same"] = True
        res["state"] = self.decode_globals(parts[1 + n])
        res["window"] = self.decode_sw("f", {"t": "gaussian"}, replies[-1])
        return res

    def coll_compare(self, case, a, b):
        if ("err" in a) != ("err" in b):
            return "impl=%s model=%s" % (str(a)[:300], str(b)[:300])
        skip = None
        if "err" in a:
            if a["err"] not in self.ERR_MAP.get(b["err"], ()):
                return "error kinds differ: impl=%s model=%s" % (a["err"], b["err"])
            skip = b["at"]       # the failing track itself is not modelled after the exception (scratch feature, half-done coordinates)
        for key in ("returned", "members_same", "state"):
            if a.get(key) != b.get(key):
                return "%s: impl=%r model=%r" % (key, a.get(key), b.get(key))
        if not close(a["window"], b["window"], self.rel_tol):
            return "window: impl=%s model=%s" % (str(a["window"])[:200], str(b["window"])[:200])
        for i, (x, y) in enumerate(zip(a["tracks"], b["tracks"])):
            if i != skip and not close(x, y, self.rel_tol):
                return "track %d: impl=%s model=%s" % (i, str(x)[:300], str(y)[:300])
        return None

    def coll_spec(self, case, out):
        """every track of the collection is to be smoothed like a track smoothed alone (Track.smooth, judged by spec_seq with the
        window the implementation exposes); an exception is excusable only on the first track that is, by its INPUT, outside the domain
        (a window without valid weight, no observation) or shorter than the half window with copied boundaries; the tracks before it are
        judged, the ones after it were never reached"""
        if not out.get("members_same", True):
            return "the collection does not hold the caller's tracks any more"
        win = out.get("window")
        bad = check_window(win)
        if bad:
            return bad
        w = [Fraction(x) for x in win]
        wd = self.coll_width(case)
        def status(t):
            n = len(t["x"])
            if n == 0 or any(x < 0 for x in w) or not all(domain_ok(w, t[c]) for c in "xyz"):
                return "undefined"
            if index_zone(w, False, n):
                return "index"
            return "ok"
        st = [status(t) for t in case["tracks"]]
        stop = len(st)
        if "err" in out:
            bad_ones = [i for i, s_ in enumerate(st) if s_ != "ok"]
            if not bad_ones:
                return "raised %s (%s) although every track is inside the domain" % (out["err"], out.get("detail", ""))
            stop = bad_ones[0]
            bad = None if len(case["tracks"][stop]["x"]) == 0 else self.judge_error(dict(case["tracks"][stop], kind="smooth", w=wd, sc="f"), {"err": out["err"], "detail": out.get("detail", ""), "window": win})
            if bad:
                return "track %d: %s" % (stop, bad)
        for i in range(stop):
            if st[i] != "ok":
                continue
            bad = self.spec_seq(dict(case["tracks"][i], api="smooth", w=wd), {"sigs": out["tracks"][i], "same": True, "window": win})
            if bad:
                return "track %d of the collection: %s" % (i, bad)
        return None

    # ---------------------------------------------------------------- 'extseq': filter_seq / operate with a weight list over Python's numbers
    # case: {"kind": "extseq", "sc": "r", "x": .., "y": .., "z": .., "feats": {..}, "w": [weights], "dims": [names]}
    def extseq_cases(self, rng, quick):
        out = []
        vals = [0, 1, 2, -1, 0.5, 3, 4, -2.5, 8]
        fixed = [[1, 0, -1], [-1, 0, 1], [1, -2, 1], [0, 0, 0], [1, -1, 0], [1, 2, -1], [1, None, 1], [1, "inf", 1], [-1, -1, 0, 1, 1], [1, 2, 1]]
        for i in range(400 if quick else 4000):
            if i < 3 * len(fixed):
                w = list(fixed[i % len(fixed)])
            else:
                D = rng.choice([1, 1, 2, 3])
                N = 2 * D + 1
                r = rng.random()
                w = [rng.choice([-2, -1, 0, 0, 1, 2, 0.5, -0.5]) for _ in range(N - 1)]
                if r < 0.5:
                    w.insert(rng.randrange(N), -sum(w))                                              # zero total
                elif r < 0.8:
                    w.insert(rng.randrange(N), rng.choice([1, 2, 4, 0.5, -1, -2]) - sum(w))          # +/- a power of two (dyadic normalised weights)
                else:
                    w.insert(rng.randrange(N), rng.choice([None, "inf", "-inf"]))
            N = len(w)
            n = max(1, N + rng.choice([-2, -1, 0, 0, 1, 2, 3, 5]))
            def sig():
                v = [rng.choice(vals) for _ in range(n)]
                for _ in range(rng.choice([0, 0, 0, 1, 2])):
                    v[rng.randrange(n)] = rng.choice([None, "inf", "-inf"])
                return v
            feats = {"s": sig()} if rng.random() < 0.4 else {}
            dims = rng.choice([["x", "y", "z"], ["x", "y", "z"], ["x", "y"], ["z"], ["y", "s"] if feats else ["y"], ["s", "x"] if feats else ["x"]])
            out.append({"kind": "extseq", "sc": "r", "x": sig(), "y": sig(), "z": sig(), "feats": feats, "w": w, "dims": dims})
        return out

    def extseq_impl(self, case):
        t = self.mk_track(case["x"], case["y"], case["z"])
        for nm, v in case["feats"].items():
            t.createAnalyticalFeature(nm, [num(a) for a in v])
        kern = [num(a) for a in case["w"]]
        r = self.F.filter_seq(t, kern, list(case["dims"]))
        return {"sigs": self.read_track(t), "same": r is t, "kafter": [canon(a) for a in kern]}

    def extseq_requests(self, case):
        names = ["x", "y", "z"] + list(case["feats"])
        sigs = [case["x"], case["y"], case["z"]] + [case["feats"][n] for n in case["feats"]]
        return ["C15.seqx r %s %s %s %s" % (tok_list(case["dims"]), tok_list(names),
                                            tok_list((tok_list(self.ext_tok(a) for a in s_) for s_ in sigs), ";"),
                                            tok_list(self.ext_tok(a) for a in case["w"]))]

    def extseq_decode(self, case, replies):
        r = replies[0].split(" ")
        if r[0] != "ok":
            return {"err": r[0]}
        names = untok(r[2])
        sigs = [[self.ext_val(t) for t in untok(s_)] for s_ in untok(r[3], ";")]
        return {"sigs": dict(zip(names, sigs)), "same": True, "kafter": [self.ext_val(t) for t in untok(r[1])]}

    def extseq_spec(self, case, out):
        """the property speaks of non-negative weight lists with a positive total on signals without infinite sample in the judged windows:
        then every listed signal is judged (check_nonfinite), the others must be unchanged; anything else is correspondence only"""
        w = case["w"]
        if any(not finite(a) for a in w) or any(a < 0 for a in w) or sum(w) <= 0 or len(w) % 2 == 0:
            return None
        wf = [Fraction(a) for a in w]
        allsig = dict({"x": case["x"], "y": case["y"], "z": case["z"]}, **case["feats"])
        fin0 = lambda v: [0 if isinstance(a, str) else a for a in v]
        if len(w) > 1 and (any(not domain_ok(wf, fin0(allsig[d])) for d in case["dims"]) or index_zone(wf, False, len(case["x"]))):
            return None
        if "err" in out:
            return "raised %s (%s) inside the domain" % (out["err"], out.get("detail", ""))
        if not out["same"]:
            return "filter_seq did not return the track it filtered"
        for nm, v in allsig.items():
            got = out["sigs"].get(nm)
            if nm in case["dims"] and len(w) != 1:
                bad = check_nonfinite(wf, v, False, got, nm)
                if bad:
                    return bad
            elif got != [canon(num(a)) for a in v]:
                return "%s was not to be filtered but changed: %r -> %r" % (nm, v, got)
        return None

    def cases(self, rng, tier):
        out = []
        quick = tier == "quick"
        # ---- enumerated small scope
        m = 6 if quick else 7
        for n in range(1, m + 1):
            for v in itertools.product([0, 1, None], repeat=n):
                v = list(v)
                for k in ({"t": "list", "w": [1, 2, 5]}, {"t": "uniform", "p": 1, "fb": True}, {"t": "uniform", "p": 1, "fb": False}):
                    w = shape_weights(k)
                    if domain_ok(w, v):
                        out.append({"kind": "feat" if n >= len(w) else "short", "sig": v, "k": k, "sc": "r"})
        # ---- every kernel class x boundary flag x track lengths around the half window D and the window N = 2D+1
        #      (shorter than the half window, between the half window and the window, equal, just longer)
        for k0 in self.LENGTH_KERNELS:
            for fb in ((None,) if k0["t"] == "list" else (True, False, None)):
                k = dict(k0) if fb is None and k0["t"] == "list" else dict(k0, fb=fb)
                N = len(shape_weights(k))
                D = N // 2
                sc = "f" if k["t"] in TABLE_KERNELS + ("userfn",) else "r"
                for n in sorted({1, 2, D - 1, D, D + 1, N - 2, N - 1, N, N + 1, N + 2}):
                    if n < 1:
                        continue
                    sigs = [[3 * i - 4 for i in range(n)], [8 if i == n // 2 else 0 for i in range(n)]]
                    if n >= 3:
                        sigs.append([None if i == 1 else (i * i) % 7 for i in range(n)])
                    for v in sigs:
                        out.append({"kind": "feat" if n >= N else "short", "sig": v, "k": k, "sc": sc})
        # ---- sliding windows of every built-in kernel, boundary sizes included
        for t in OBJ_KERNELS:
            if t == "dirac":
                continue
            for p in self.BOUNDARY_WIDTHS[t] + self.WIDTHS + [6, 7.5, 10]:
                out.append({"kind": "sw", "k": {"t": t, "p": p, "fb": False}, "sc": "r" if t in RATIONAL_KERNELS else "f"})
                if t in RATIONAL_KERNELS:
                    out.append({"kind": "sw", "k": {"t": t, "p": p, "fb": False}, "sc": "f"})
        # ---- sliding windows of user-defined kernels: every small table over typed values, supports of every small size
        for L in (1, 2, 3):
            for tbl in itertools.product(self.USER_ALPHABET, repeat=L):
                for s in (1, 1.5, 2, 2.5, 3):
                    k = {"t": "user", "tbl": [list(e) for e in tbl], "s": s, "fb": False}
                    out.append({"kind": "sw" if sum(shape_weights(k)) > 0 else "badk", "k": k, "sc": "r"})
        for shape in USERFN_SHAPES:
            for p in (1, 1.5, 2, 3, 4.5):
                for s in (p, p + 0.5, 2 * p):
                    k = {"t": "userfn", "shape": shape, "p": p, "s": max(1, s), "fb": False}
                    out.append({"kind": "sw" if sum(shape_weights(k)) > 0 else "badk", "k": k, "sc": "f"})
        for _ in range(150 if quick else 1500):
            out.append({"kind": "sw", "k": self.rand_user(rng), "sc": rng.choice(["r", "f"])})
            if out[-1]["k"]["t"] == "userfn":
                out[-1]["sc"] = "f"
        # ---- random: features through track.operate(FILTER)
        nfeat = 2500 if quick else 40000
        made = 0
        while made < nfeat:
            k = self.rand_kernel(rng)
            w = shape_weights(k)
            n = len(w) + rng.choice([0, 0, 1, 2, rng.randrange(0, 13)])
            sc = self.pick_scalar(rng, k)
            v = self.rand_signal(rng, n, floats=(sc == "f"))
            if not domain_ok(w, v):
                continue
            out.append({"kind": "feat", "sig": v, "k": k, "sc": sc})
            made += 1
        # ---- random: track.operate(FILTER, af_in, kernel, af_out) with other output names and feature-name kernels
        nop = 500 if quick else 6000
        made = 0
        while made < nop:
            c = self.rand_op(rng)
            if c is not None:
                out.append(c)
                made += 1
        # ---- random: the list form of track.operate(FILTER, [names], kernel[, [names]])
        made = 0
        while made < (400 if quick else 5000):
            c = self.rand_opl(rng)
            if c is not None:
                out.append(c)
                made += 1
        # ---- random: x, y, z and features through filter_seq, every form of `dim`
        nseq = 900 if quick else 12000
        made = 0
        while made < nseq:
            c = self.rand_seq(rng)
            if c is not None:
                out.append(c)
                made += 1
        # ---- Track.smooth
        for _ in range(150 if quick else 2000):
            wd = rng.choice([1, 1, 2, 1.5, 3, 0.5, 0.75])
            womit = wd == 1 and rng.random() < 0.5
            n = 2 * int(3 * wd) + 1 + rng.randrange(0, 8)
            if rng.random() < 0.15:
                n = rng.randrange(1, 2 * int(3 * wd) + 1)      # shorter than the Gaussian window
            out.append({"kind": "smooth", "x": self.rand_signal(rng, n, nan=False, floats=True), "y": self.rand_signal(rng, n, nan=(rng.random() < 0.3), floats=True),
                        "z": self.rand_signal(rng, n, nan=False, floats=True), "w": wd, "sc": "f"})
            if womit:
                out[-1]["womit"] = True
        # ---- sessions: several calls in one process, module-level state read after every call
        for _ in range(350 if quick else 4000):
            steps = []
            for _ in range(rng.randrange(2, 5)):
                r = rng.random()
                if r < 0.7:
                    st = self.rand_seq(rng, session=True)
                    st["api"] = "seq"
                elif r < 0.9:
                    wd = rng.choice([1, 1, 2, 1.5, 0.5])
                    n = 0 if rng.random() < 0.08 else 2 * int(3 * wd) + 1 + rng.randrange(0, 6)
                    if n and rng.random() < 0.15:
                        n = rng.randrange(1, 2 * int(3 * wd) + 1)
                    st = {"api": "smooth", "w": wd, "x": self.rand_signal(rng, n, nan=False, floats=True),
                          "y": self.rand_signal(rng, n, nan=(rng.random() < 0.3), floats=True), "z": self.rand_signal(rng, n, nan=False, floats=True)}
                    if n and rng.random() < 0.3:
                        st[rng.choice(["z", "z", "x", "y"])] = [None] * n
                else:
                    n = rng.choice([0, 4, 6, 8, 9])
                    st = {"api": "freq", "fc": rng.choice([0.25, 0.5]), "x": self.rand_signal(rng, n, nan=False), "y": self.rand_signal(rng, n, nan=False),
                          "z": [None] * n if rng.random() < 0.4 else self.rand_signal(rng, n, nan=False),
                          "how": rng.choice(["default", "const"]), "const": rng.choice(sorted(FILTER_CONSTS))}
                st.pop("kind", None)
                steps.append(st)
            sc = "f" if any(st.get("sc") == "f" or st["api"] == "smooth" for st in steps) else "r"
            for st in steps:
                if st["api"] == "seq" and st["k"]["t"] in TABLE_KERNELS + ("userfn",):
                    sc = "f"
                st.pop("sc", None)
            out.append({"kind": "session", "steps": steps, "sc": sc, "prebuild": rng.random() < 0.5})
        # ---- infinite samples (a speed d/0 computed with numpy, a sentinel): the windows that hold none are judged
        made = 0
        while made < (200 if quick else 2500):
            k = self.rand_kernel(rng)
            w = shape_weights(k)
            if len(w) < 3:
                continue
            n = len(w) + rng.choice([0, 1, 2, rng.randrange(0, 13)])
            v = self.rand_signal(rng, n, floats=True)
            valid = [i for i in range(n) if v[i] is not None]
            if not valid or not domain_ok(w, v):
                continue
            sg = rng.choice(["inf", "inf", "-inf"])
            where = rng.choice(["first", "first", "any", "two", "mixed"])
            if where == "first":
                v[valid[0]] = sg
            elif where == "any":
                v[rng.choice(valid)] = sg
            elif where == "two":
                v[valid[0]] = sg
                v[rng.choice(valid)] = sg
            else:
                v[rng.choice(valid)] = "inf"
                v[rng.choice(valid)] = "-inf"
            out.append({"kind": "inff", "sig": v, "k": k, "sc": "f"})
            made += 1
        # ---- weight lists with zero weights: judged where the valid weights have a positive sum
        made = 0
        while made < (300 if quick else 3000):
            D = rng.choice([1, 1, 2, 3])
            w = [rng.choice([0, 0, 1, 2, 0.5]) for _ in range(2 * D + 1)]
            if sum(w) <= 0:
                continue
            n = len(w) + rng.randrange(0, 6)
            v = self.rand_signal(rng, n, nan=False)
            for _ in range(rng.randrange(0, 4)):
                v[rng.randrange(n)] = None
            out.append({"kind": "zerow", "sig": v, "k": {"t": "list", "w": w}, "sc": "r"})
            made += 1
        # ---- outside the domain: a Kernel object whose window loses all its weight (the code divides by zero)
        for _ in range(40 if quick else 400):
            k = rng.choice([{"t": "dirac", "fb": rng.random() < 0.5}, {"t": "triangular", "p": 1, "fb": rng.random() < 0.5},
                            {"t": "epanechnikov", "p": 1, "fb": True},
                            {"t": "user", "tbl": [["f", 0.5], ["i", 0]], "s": 1, "fb": rng.random() < 0.5}])
            n = rng.randrange(3, 9)
            v = self.rand_signal(rng, n, nan=False)
            v[rng.randrange(n)] = None
            out.append({"kind": "zeronorm", "sig": v, "k": k, "sc": "r"})
        # ---- outside the domain: a positive weight list whose window holds no valid sample at all
        for _ in range(40 if quick else 400):
            w = self.rand_weights(rng)
            n = len(w) + rng.randrange(0, 5)
            v = self.rand_signal(rng, n, nan=False)
            a = rng.randrange(n)
            for i in range(a, min(n, a + len(w))):
                v[i] = None
            if not domain_ok([Fraction(x) for x in w], v):
                out.append({"kind": "zeronorm", "sig": v, "k": {"t": "list", "w": w}, "sc": "r"})
        # ---- signals shorter than the window: the window overhangs both ends at once. Judged like any other signal
        #      (renormalised mean when boundaries are filtered, input unchanged when they are copied); IndexError when
        #      the track is shorter than the half window and boundaries are copied (not judged, see index_zone)
        made = 0
        while made < (500 if quick else 5000):
            k = self.rand_kernel(rng)
            N = len(shape_weights(k))
            if N < 3:
                continue
            if "fb" in k and rng.random() < 0.4:
                k["fb"] = True
            n = rng.randrange(1, N)
            sc = self.pick_scalar(rng, k)
            out.append({"kind": "short", "sig": self.rand_signal(rng, n, nan=(rng.random() < 0.3), floats=(sc == "f")), "k": k, "sc": sc})
            made += 1
        # ---- outside the domain: refused kernels, names and tracks (correspondence only)
        for _ in range(150 if quick else 1500):
            out.append(self.rand_bad(rng))
        out.extend(self.ext_cases(rng, quick))
        out.extend(self.coll_cases(rng, quick))
        out.extend(self.extseq_cases(rng, quick))
        return out

    def rand_op(self, rng):
        """track.operate(FILTER, af_in, kernel, af_out): output into a new / an existing / the input feature, input may be a coordinate,
        kernel may be the name of a feature holding the weights"""
        n = rng.choice([3, 5, 5, 7, 9, rng.randrange(3, 12)])
        featk = rng.random() < 0.4
        sc = "r"
        if featk:
            if n % 2 == 0:
                n += 1
            k = {"t": "feat", "name": rng.choice(["w", "w", "w", "y"])}
        else:
            k = self.rand_kernel(rng)
            sc = self.pick_scalar(rng, k)
            n = max(n, len(shape_weights(k)))
            if n >= 3 and rng.random() < 0.15:
                n = rng.randrange(1, len(shape_weights(k))) if len(shape_weights(k)) >= 3 else n
                if "fb" in k and rng.random() < 0.4:
                    k["fb"] = True
        sigs = {nm: self.rand_signal(rng, n, nan=False, floats=(sc == "f")) for nm in ("x", "y", "z")}
        feats = {"a": self.rand_signal(rng, n, floats=(sc == "f")), "c": self.rand_signal(rng, n, floats=(sc == "f"))}
        if featk:
            wts = [rng.choice([0, 1, 1, 2, 3, 0.5]) for _ in range(n)]
            wts[n // 2] = rng.choice([1, 2, 4])
            if k["name"] == "w":
                feats["w"] = wts
            else:
                sigs["y"] = wts
        af_in = rng.choice(["a", "a", "x", "z", "c"])
        af_out = rng.choice(["b", "b", af_in if af_in in feats else "b", "c", "a"])
        if featk and af_out == k["name"]:
            af_out = "b"
        if af_in in feats and rng.random() < 0.2:
            af_out = None        # third argument omitted: output into the input feature
        c = {"kind": "op", "x": sigs["x"], "y": sigs["y"], "z": sigs["z"], "feats": feats, "in": af_in, "out": af_out, "k": k, "sc": sc}
        if featk and rng.random() < 0.5:
            # the algebraic form of the same call: track.operate("out = in ! w") / ("out = in .* w"); without left-hand
            # side the values are returned and the track is left as it was; a coordinate may be the left-hand side
            c["expr"] = rng.choice(["!", ".*", " ! "])
            r = rng.random()
            if r < 0.2:
                c["out"] = None
            elif r < 0.4:
                c["out"] = rng.choice(["x", "z", "y"])
        w = self.op_weights(c)
        if not domain_ok(w, dict(sigs, **feats)[af_in]):
            return None
        return c

    def rand_opl(self, rng):
        """track.operate(FILTER, [names], kernel[, [names]]): the list form (one call of Filter.execute per pair, the kernel
        being the same object at every turn); 'judge' tells whether the property says what the final track is (in place on
        distinct features, or distinct fresh output names) — the other forms are kept for correspondence only"""
        k = self.rand_kernel(rng)
        sc = self.pick_scalar(rng, k)
        N = len(shape_weights(k))
        n = max(1, N) + rng.choice([0, 1, 2, rng.randrange(0, 8)])
        if N >= 3 and rng.random() < 0.15:
            n = rng.randrange(1, N)
            if "fb" in k and rng.random() < 0.4:
                k["fb"] = True
        sigs = {nm: self.rand_signal(rng, n, nan=False, floats=(sc == "f")) for nm in ("x", "y", "z")}
        feats = {nm: self.rand_signal(rng, n, floats=(sc == "f")) for nm in ("a", "c", "d")}
        form = rng.choice(["omitted", "omitted", "same", "fresh", "fresh", "overlap", "mismatch", "coord", "empty", "dup"])
        judge = form in ("omitted", "same", "fresh")
        fnames = ["a", "c", "d"]
        if form in ("omitted", "same"):
            ins = rng.sample(fnames, rng.randrange(1, 4))
            outs = None if form == "omitted" else list(ins)
        elif form == "fresh":
            ins = rng.sample(["x", "y", "z"] + fnames, rng.randrange(1, 4))
            outs = ["o%d" % i for i in range(len(ins))]
        elif form == "overlap":
            ins = rng.choice([["a", "c"], ["a", "c", "d"], ["a", "a"], ["x", "a"]])
            outs = {2: ["c", "d"], 3: ["c", "d", "a"]}[len(ins)] if ins[0] != ins[-1] or len(ins) == 3 else ["a", "o0"]
        elif form == "mismatch":
            ins = rng.sample(fnames, rng.randrange(1, 4))
            outs = ["o%d" % i for i in range(len(ins) + rng.choice([-1, 1]))]
        elif form == "coord":
            ins, outs = rng.choice([["x"], ["a", "y"], ["z", "a"]]), None
        elif form == "empty":
            ins, outs = [], rng.choice([None, []])
        else:
            ins = rng.choice([["a", "a"], ["c", "a", "c"]])
            outs = None
        c = {"kind": "opl", "x": sigs["x"], "y": sigs["y"], "z": sigs["z"], "feats": feats, "ins": ins, "outs": outs,
             "k": k, "sc": sc, "form": form, "judge": judge}
        if judge and not self._in_domain(c):
            return None
        return c

    def kweights(self, case):
        """the weights the kernel of a case / session step stands for (a feature-name kernel reads them in the track)"""
        k = case.get("k") or {"t": "gaussian", "p": case.get("w")}
        return self.op_weights(case) if k["t"] == "feat" else shape_weights(k)

    def op_weights(self, case):
        k = case["k"]
        if k["t"] == "feat":
            allsig = dict({"x": case["x"], "y": case["y"], "z": case["z"]}, **case.get("feats", {}))
            return [Fraction(x) for x in allsig[k["name"]]]
        return shape_weights(k)

    def rand_bad(self, rng):
        n = rng.choice([0, 3, 4, 5, 7])
        sigs = {nm: self.rand_signal(rng, n, nan=False) for nm in ("x", "y", "z")}
        feats = {"a": self.rand_signal(rng, n, nan=False)} if n else {}
        what = rng.choice(["even", "int", "support", "zerosum", "reserved", "unknown", "empty", "strdim", "newfeat", "float"])
        k = {"t": "list", "w": [1, 2, 1]}
        dims, how = ["x", "y"], "list"
        if what == "even":
            k = {"t": "list", "w": [rng.randrange(1, 5) for _ in range(rng.choice([0, 2, 4]))]}
        elif what == "int":
            k = {"t": "int", "n": rng.choice([0, 2, 4, -1, -3, 1])}
        elif what == "support":
            k = rng.choice([{"t": "uniform", "p": 0.25, "fb": False}, {"t": "triangular", "p": 0.5, "fb": True},
                            {"t": "user", "tbl": [["f", 1.0]], "s": 0.5, "fb": False}])
        elif what == "zerosum":
            k = {"t": "user", "tbl": [rng.choice([["i", 0], ["f", 0.0], ["I", 0]]) for _ in range(rng.randrange(1, 3))] + [["f", 1.0]], "s": 1, "fb": False}
            k["tbl"] = k["tbl"][:2] if len(k["tbl"]) > 2 else k["tbl"][:1] + [["i", 0]]
        elif what == "reserved":
            dims = rng.choice([["t"], ["idx"], ["x", "timestamp"], ["x", "idx", "y"]])
        elif what == "unknown":
            dims = rng.choice([["q"], ["x", "q"], ["q", "a", "y"]])
        elif what == "empty":
            n, feats = 0, {}
            sigs = {nm: [] for nm in ("x", "y", "z")}
            k = rng.choice([{"t": "list", "w": [1, 2, 1]}, {"t": "uniform", "p": 1, "fb": True}, {"t": "int", "n": 1}, {"t": "list", "w": [1, 1]}])
            dims = rng.choice([["x"], ["x", "y", "z"], []])
        elif what == "strdim":
            how, dims = "str", list(rng.choice(["a", "xa", "ab", "speed", "xyt", ""]))
        elif what == "newfeat":
            dims = rng.choice([["n"], ["x", "n"], ["n", "n"]])
        elif what == "float":
            # the documented "float number giving the half width of a rectangular window": a TypeError in the code
            k = {"t": "num", "v": rng.choice([1.0, 2.0, 2.5]), "np": rng.random() < 0.3}
            dims = rng.choice([["x", "y"], ["x"], [], ["q"], ["t"]])
        return {"kind": "badk", "x": sigs["x"], "y": sigs["y"], "z": sigs["z"], "feats": feats, "dims": dims, "k": k, "sc": "r", "how": how}

    def pick_scalar(self, rng, k):
        if k["t"] in TABLE_KERNELS or k["t"] == "userfn":
            return "f"
        return "r" if rng.random() < 0.7 else "f"

    def step_kernel(self, st):
        return st["k"] if st.get("api", "seq") == "seq" and "k" in st else {"t": "gaussian", "p": st.get("w"), "fb": None}

    def describe(self, case):
        kind = case["kind"]
        if kind == "ext":
            return {"kind": kind, "kernel": case["k"]["t"], "scalar": "r", "via": case["via"], "ext": "+".join(self.ext_class(case))}
        if kind == "extseq":
            w = case["w"]
            cl = ("nonfinite_weight" if any(not finite(a) for a in w) else "zero_total" if sum(w) == 0 else "negative_weight" if any(a < 0 for a in w) else "plain")
            return {"kind": kind, "kernel": "list", "scalar": "r", "ext": cl, "dims": len(case["dims"])}
        if kind == "coll":
            return {"kind": kind, "kernel": "gaussian", "scalar": "f", "tracks": min(len(case["tracks"]), 4),
                    "width_argument": "omitted" if case.get("womit") else "given"}
        if kind == "session":
            t = {"kind": kind, "scalar": case["sc"], "steps": len(case["steps"]), "prebuilt_kernels": bool(case.get("prebuild")),
                 "apis": "+".join(sorted({st["api"] for st in case["steps"]})),
                 "allnan_or_empty": any(self.step_degenerate(st) for st in case["steps"]),
                 "default_dim": sum(1 for st in case["steps"] if st.get("how", "default") == "default")}
            return t
        k = case.get("k", {"t": "gaussian"})
        t = {"kind": kind, "kernel": k["t"], "scalar": case.get("sc")}
        if "fb" in k:
            t["filterBoundary"] = k["fb"]
        if "how" in case:
            t["dim"] = case["how"]
        if kind == "seq":
            t["calls_on_the_track"] = 2 if case.get("twice") else 1
            t["kernel_argument"] = "omitted" if k.get("omit") else "given"
        if kind == "smooth":
            t["width_argument"] = "omitted" if case.get("womit") else "given"
        if kind == "opl":
            t["form"] = case["form"]
        if kind == "op":
            t["output"] = "omitted" if case["out"] is None else ("input" if case["out"] == case["in"] else "coordinate" if case["out"] in ("x", "y", "z") else "other")
            t["entry"] = "algebraic " + case["expr"].strip() if case.get("expr") else "operator"
        if k["t"] == "user":
            t["user_types"] = "".join(sorted({e[0] for e in k["tbl"]}))
            t["edge_zero_int"] = bool(k["tbl"]) and k["tbl"][-1][1] == 0 and k["tbl"][-1][0] in ("i", "I", "b") or int(k["s"]) >= len(k["tbl"])
        sig = case.get("sig") or case.get("y")
        if sig is not None and k["t"] != "feat":
            t["nan"] = any(x is None for x in sig)
            N = len(shape_weights(k if kind != "smooth" else {"t": "gaussian", "p": case["w"]}))
            t["slack"] = min(3, len(sig) - N) if len(sig) >= N else ("shorter-than-half-window" if len(sig) < N // 2 else "shorter-than-window")
        if k["t"] == "list":
            t["window"] = len(k["w"])
            t["asymmetric"] = k["w"] != k["w"][::-1]
        if kind != "badk":
            t["dynamic_range"] = self.dynamic_range(case)
        return t

    def dynamic_range(self, case):
        """largest ratio between the magnitudes of two non-zero samples of one filtered signal, and where the largest sample is"""
        best, where = 1.0, ""
        try:
            sigs = self.case_signals(case)
        except KeyError:
            return "n/a"
        for s in sigs:
            mags = [(abs(float(x)), i) for i, x in enumerate(s) if x is not None and x != 0]
            if len(mags) < 2:
                continue
            r = max(mags)[0] / min(mags)[0]
            if r > best:
                first_valid = min(i for _, i in mags)
                best, where = r, ("largest-first" if max(mags)[1] == first_valid else "largest-elsewhere")
        if best < 1e4:
            return "<1e4"
        return (">=1e12 " if best >= 1e12 else ">=1e8 " if best >= 1e8 else ">=1e4 ") + where

    def step_degenerate(self, st):
        return len(st["x"]) == 0 or any(len(st[c]) and all(a is None for a in st[c]) for c in ("x", "y", "z"))

    def nontrivial(self, case):
        kind = case["kind"]
        if kind == "ext":
            return False
        if kind == "coll":
            return len(case["tracks"]) >= 2 and not case.get("womit")
        if kind == "extseq":
            return False
        if kind == "sw":
            return True
        if kind in ("zeronorm", "badk"):
            return False
        if kind == "session":
            return sum(1 for st in case["steps"] if st["api"] != "freq") >= 2
        if kind == "op":
            w = self.op_weights(case)
            return len(w) >= 3
        if kind == "opl":
            return bool(case["judge"]) and len(shape_weights(case["k"])) >= 3
        if len(self.kweights(case)) < 3:
            return False
        sigs = [case["sig"]] if kind in ("feat", "zerow", "short", "inff") else [case["x"], case["y"], case["z"]]
        return any(len(set(x for x in s if x is not None)) > 1 for s in sigs)

    # ---------------------------------------------------------------- implementation
    def mk_track(self, x, y=None, z=None):
        t = self.Track()
        for i in range(len(x)):
            t.addObs(self.Obs(self.ENU(num(x[i]), num(y[i]) if y else 0.0, num(z[i]) if z else 0.0), self.t0.addSec(i)))
        return t

    def pyval(self, ty, val):
        np = self.np
        return {"i": lambda: int(val), "f": lambda: float(val), "F": lambda: np.float64(val), "I": lambda: np.int64(val),
                "b": lambda: bool(val), "h": lambda: np.float32(val)}[ty]()

    def user_function(self, k):
        """the Python function of a user-defined kernel"""
        if k["t"] == "user":
            tbl = [self.pyval(ty, val) for ty, val in k["tbl"]]

            def f(x, tbl=tbl):
                a = abs(x)
                if a == int(a) and int(a) < len(tbl):
                    return tbl[int(a)]
                return 0
            return f
        shape, p = k["shape"], k["p"]
        if shape == "tent":
            return lambda x: max(0, 1 - abs(x) / p)
        if shape == "box":
            return lambda x: 1 * (abs(x) <= p)
        if shape == "cond":
            return lambda x: 0 if abs(x) > p else (p - abs(x)) / p ** 2
        if shape == "bell":
            return lambda x: 0 if abs(x) >= p else (1 - (x / p) ** 2) ** 2
        raise ValueError(shape)

    def mk_kernel(self, k):
        K = self.K
        t = k["t"]
        if t == "list":
            return list(k["w"])
        if t == "int":
            return k["n"]
        if t == "num":
            return self.np.float64(k["v"]) if k.get("np") else float(k["v"])
        if t == "feat":
            return k["name"]
        if t == "dirac":
            o = K.DiracKernel()
        elif t in ("user", "userfn"):
            f = self.user_function(k)
            o = K.Kernel(f, k["s"])
            if k.get("setf", True):      # "setf": false = the constructor alone (the defect repaired by 91685d1: the constructor dropped its function)
                o.setFunction(f)
        else:
            o = {"uniform": K.UniformKernel, "triangular": K.TriangularKernel, "epanechnikov": K.EpanechnikovKernel,
                 "gaussian": K.GaussianKernel, "exponential": K.ExponentialKernel, "cubic": K.CubicKernel,
                 "spheric": K.SphericKernel}[t](k["p"])
        if k.get("fb") is not None:
            o.setFilterBoundary(bool(k["fb"]))
        return o

    def window_of(self, k):
        """the weights the implementation says it uses for a Kernel object (observed, not recomputed)"""
        if k["t"] in ("list", "int", "feat", "num"):
            return None
        if k["t"] == "dirac":
            return [0.0, 1.0, 0.0]
        return [canon(x) for x in self.mk_kernel(k).toSlidingWindow()]

    def safe_window(self, k):
        try:
            return self.window_of(k)
        except BaseException as e:
            if isinstance(e, KeyboardInterrupt):
                raise
            return None

    def impl(self, case):
        self.restore_globals()
        try:
            return self.impl_raw(case)
        except BaseException as e:
            if isinstance(e, KeyboardInterrupt):
                raise
            # keep the window the implementation exposes: the oracle needs it to tell whether a division by
            # zero happened inside or outside the property's domain
            import engine
            k = case.get("k", {"t": "gaussian", "p": case.get("w"), "fb": None})
            return {"err": engine.err_kind(e), "detail": str(e)[:200], "window": self.safe_window(k)}
        finally:
            self.restore_globals()

    def call_seq(self, st, kern=None):
        """one call of filter_seq / Track.smooth on its own track; never raises. `kern`: a kernel object built beforehand"""
        import engine
        api = st.get("api", "seq")
        k = self.step_kernel(st)
        res = {}
        try:
            t = self.mk_track(st["x"], st["y"], st["z"])
            for nm, v in st.get("feats", {}).items():
                t.createAnalyticalFeature(nm, [num(a) for a in v])
            if api == "smooth":
                if st.get("womit"):
                    t.smooth()            # the default value of `width`
                else:
                    t.smooth(st["w"])
                r = t
            else:
                if kern is None:
                    kern = self.mk_kernel(k)
                how = st.get("how", "list")
                if k.get("omit"):
                    if how == "default":
                        r = self.F.filter_seq(t)
                    elif how == "const":
                        r = self.F.filter_seq(t, dim=getattr(self.F, st["const"]))
                    elif how == "str":
                        r = self.F.filter_seq(t, dim="".join(st["dims"]))
                    else:
                        r = self.F.filter_seq(t, dim=list(st["dims"]))
                elif how == "default":
                    r = self.F.filter_seq(t, kern)
                elif how == "const":
                    r = self.F.filter_seq(t, kern, getattr(self.F, st["const"]))
                elif how == "str":
                    r = self.F.filter_seq(t, kern, "".join(st["dims"]))
                else:
                    r = self.F.filter_seq(t, kern, list(st["dims"]))
                if st.get("twice"):
                    # a second call on the same track with the same kernel object
                    sigs1 = self.read_track(t)
                    if how == "default":
                        r = self.F.filter_seq(t, kern)
                    elif how == "const":
                        r = self.F.filter_seq(t, kern, getattr(self.F, st["const"]))
                    else:
                        r = self.F.filter_seq(t, kern, list(st["dims"]))
                    res["sigs1"] = sigs1
            res = dict(res, sigs=self.read_track(t), same=r is t)
        except BaseException as e:
            if isinstance(e, KeyboardInterrupt):
                raise
            res = {"err": engine.err_kind(e), "detail": str(e)[:200]}
        res["state"] = self.globals_now()
        res["window"] = self.safe_window(k)
        return res

    def impl_raw(self, case):
        kind = case["kind"]
        if kind == "ext":
            return self.ext_impl(case)
        if kind == "coll":
            return self.coll_impl(case)
        if kind == "extseq":
            return self.extseq_impl(case)
        if kind == "sw":
            return {"window": self.window_of(case["k"])}
        if kind in ("feat", "zeronorm", "short", "zerow", "inff"):
            v = case["sig"]
            t = self.mk_track([float(i) for i in range(len(v))])
            t.createAnalyticalFeature("a", [num(a) for a in v])
            kern = self.mk_kernel(case["k"])
            ret = t.operate(self.Operator.FILTER, "a", kern, "b")
            return {"out": [canon(a) for a in t.getAnalyticalFeature("b")], "ret": [canon(a) for a in ret],
                    "kafter": [canon(a) for a in kern] if isinstance(kern, list) else None,
                    "input_after": [canon(a) for a in t.getAnalyticalFeature("a")],
                    "window": self.window_of(case["k"])}
        if kind == "op":
            t = self.mk_track(case["x"], case["y"], case["z"])
            for nm, v in case["feats"].items():
                t.createAnalyticalFeature(nm, [num(a) for a in v])
            kern = self.mk_kernel(case["k"])
            if case.get("expr"):
                e = "%s%s%s" % (case["in"], case["expr"], case["k"]["name"])
                ret = t.operate(e if case["out"] is None else "%s=%s" % (case["out"], e))
            elif case["out"] is None:
                ret = t.operate(self.Operator.FILTER, case["in"], kern)
            else:
                ret = t.operate(self.Operator.FILTER, case["in"], kern, case["out"])
            return {"ret": None if ret is None else [canon(a) for a in ret], "sigs": self.read_track(t),
                    "kafter": [canon(a) for a in kern] if isinstance(kern, list) else None,
                    "window": self.window_of(case["k"]), "state": self.globals_now()}
        if kind == "opl":
            t = self.mk_track(case["x"], case["y"], case["z"])
            for nm, v in case["feats"].items():
                t.createAnalyticalFeature(nm, [num(a) for a in v])
            kern = self.mk_kernel(case["k"])
            if case["outs"] is None:
                ret = t.operate(self.Operator.FILTER, list(case["ins"]), kern)
            else:
                ret = t.operate(self.Operator.FILTER, list(case["ins"]), kern, list(case["outs"]))
            return {"ret": None if ret is None else "something", "sigs": self.read_track(t),
                    "kafter": [canon(a) for a in kern] if isinstance(kern, list) else None,
                    "window": self.window_of(case["k"])}
        if kind in ("seq", "smooth", "badk"):
            if kind == "badk" and "dims" not in case:
                return {"window": self.window_of(case["k"])}
            st = dict(case, api="smooth" if kind == "smooth" else "seq")
            res = self.call_seq(st)
            if "err" in res:
                res.pop("state")
            return res
        if kind == "session":
            steps = []
            # all the kernel objects of the session may be alive before the first call
            prebuilt = {}
            if case.get("prebuild"):
                for i, st in enumerate(case["steps"]):
                    if st["api"] == "seq":
                        try:
                            prebuilt[i] = self.mk_kernel(st["k"])
                        except BaseException as e:
                            if isinstance(e, KeyboardInterrupt):
                                raise
            for i, st in enumerate(case["steps"]):
                if st["api"] == "freq":
                    try:
                        t = self.mk_track(st["x"], st["y"], st["z"])
                        if st["how"] == "default":
                            self.F.filter_freq(t, st["fc"])
                        else:
                            self.F.filter_freq(t, st["fc"], dim=getattr(self.F, st["const"]))
                    except BaseException as e:
                        if isinstance(e, KeyboardInterrupt):
                            raise
                    steps.append({"api": "freq", "state": self.globals_now()})
                else:
                    steps.append(self.call_seq(st, prebuilt.get(i)))
            return {"steps": steps}
        raise ValueError(kind)

    def read_track(self, t):
        d = {"x": [canon(a) for a in t.getX()], "y": [canon(a) for a in t.getY()], "z": [canon(a) for a in t.getZ()]}
        for nm in t.getListAnalyticalFeatures():
            d[nm] = [canon(a) for a in t.getAnalyticalFeature(nm)]
        return d

    # ---------------------------------------------------------------- model
    def tok(self, sc, x):
        return ratstr(x) if sc == "r" else fbits(x)

    def sig_tok(self, sc, v):
        return tok_list("nan" if a is None else self.tok(sc, a) for a in v)

    def fbtok(self, k):
        return "d" if k.get("fb") is None else str(int(bool(k["fb"])))

    def kspec(self, sc, k):
        t = k["t"]
        if t == "list":
            return "list " + tok_list(self.tok(sc, w) for w in k["w"])
        if t == "int":
            return "int %d" % k["n"]
        if t == "num":
            return "num"
        if t == "feat":
            return "feat " + k["name"]
        if t == "dirac":
            return "dirac " + self.fbtok(k)
        if sc == "r" and t in RATIONAL_KERNELS:
            return "%s %s %s" % ({"uniform": "uni", "triangular": "tri", "epanechnikov": "epa", "cubic": "cub", "spheric": "sph"}[t],
                                 self.fbtok(k), ratstr(k["p"]))
        if sc == "f" and t in TABLE_KERNELS:
            # the model evaluates math.exp / math.sqrt itself (Float.exp / Float.sqrt of the Lean runtime)
            return "%s %s %s" % ({"gaussian": "gau", "exponential": "expo"}[t], self.fbtok(k), fbits(k["p"]))
        if t == "user":
            return "user %s %s %s" % (self.fbtok(k), self.tok(sc, k["s"]), tok_list(self.tok(sc, val) for _, val in k["tbl"]))
        # any other Kernel object: its Python function tabulated at the half-integers around the window
        o = self.mk_kernel(k)
        f = o.getFunction()
        S = int(o.support) + 1
        pts = [h / 2.0 for h in range(-2 * S, 2 * S + 1)]
        return "fn %s %s %s" % (self.fbtok(k), self.tok(sc, o.support), tok_list("%s:%s" % (self.tok(sc, x), self.tok(sc, float(f(x)))) for x in pts))

    def needs_sw(self, k):
        return k["t"] not in ("list", "int", "dirac", "feat", "num")

    def track_tok(self, sc, st):
        feats = st.get("feats", {})
        names = ["x", "y", "z"] + list(feats)
        sigs = [st["x"], st["y"], st["z"]] + [feats[n] for n in feats]
        return "%s %s" % (tok_list(names), tok_list((self.sig_tok(sc, s) for s in sigs), ";"))

    def dim_tok(self, st):
        how = st.get("how", "list")
        if st.get("api") == "smooth" or how == "default":
            return "D"
        if how == "const":
            return "C:" + st["const"]
        if how == "str":
            return "S:" + "".join(st["dims"])
        return "L:" + tok_list(st["dims"])

    def requests(self, case):
        try:
            return self._requests(case)
        finally:
            self.restore_globals()      # building a kernel object to tabulate its function must not leave anything behind

    def _requests(self, case):
        kind, sc = case["kind"], case["sc"]
        if kind == "ext":
            return self.ext_requests(case)
        if kind == "coll":
            return self.coll_requests(case)
        if kind == "extseq":
            return self.extseq_requests(case)
        if kind == "sw" or (kind == "badk" and "dims" not in case):
            return ["C15.sw %s %s" % (sc, self.kspec(sc, case["k"]))]
        if kind in ("feat", "zeronorm", "short", "zerow", "inff"):
            k = case["k"]
            ls = ["C15.exec %s %s %s" % (sc, self.sig_tok(sc, case["sig"]), self.kspec(sc, k))]
            if self.needs_sw(k):
                ls.append("C15.sw %s %s" % (sc, self.kspec(sc, k)))
            return ls
        if kind == "op":
            k = case["k"]
            if case.get("expr"):
                return ["C15.opx %s %s %s %s %s" % (sc, case["in"], k["name"], "-" if case["out"] is None else case["out"], self.track_tok(sc, case))]
            if case["out"] is None:
                ls = ["C15.opa %s one %s - %s %s" % (sc, case["in"], self.track_tok(sc, case), self.kspec(sc, k))]
            else:
                ls = ["C15.op %s %s %s %s %s" % (sc, case["in"], case["out"], self.track_tok(sc, case), self.kspec(sc, k))]
            if self.needs_sw(k):
                ls.append("C15.sw %s %s" % (sc, self.kspec(sc, k)))
            return ls
        if kind == "opl":
            k = case["k"]
            ls = ["C15.opa %s many %s %s %s %s" % (sc, tok_list(case["ins"]), "-" if case["outs"] is None else tok_list(case["outs"]),
                                                   self.track_tok(sc, case), self.kspec(sc, k))]
            if self.needs_sw(k):
                ls.append("C15.sw %s %s" % (sc, self.kspec(sc, k)))
            return ls
        if kind in ("seq", "badk"):
            k = case["k"]
            if case.get("twice"):
                ls = ["C15.seqn %s 2 %s %s %s" % (sc, self.dim_tok(case), self.track_tok(sc, case), self.kspec(sc, k))]
            else:
                ls = ["C15.seq %s %s %s %s" % (sc, self.dim_tok(case), self.track_tok(sc, case), self.kspec(sc, k))]
            if self.needs_sw(k):
                ls.append("C15.sw %s %s" % (sc, self.kspec(sc, k)))
            return ls
        if kind == "smooth":
            k = {"t": "gaussian", "p": case["w"], "fb": None}
            return ["C15.smooth %s %s %s" % (sc, self.track_tok(sc, case), self.kspec(sc, k)), "C15.sw %s %s" % (sc, self.kspec(sc, k))]
        if kind == "session":
            toks, ls = [], []
            steps = [st for st in case["steps"] if st["api"] != "freq"]
            for st in steps:
                k = self.step_kernel(st)
                ks = self.kspec(sc, k)
                toks.append("%s %s %d %s" % (self.dim_tok(st), self.track_tok(sc, st), len(ks.split(" ")), ks))
                if self.needs_sw(k):
                    ls.append("C15.sw %s %s" % (sc, ks))
            return ["C15.session %s %d %s" % (sc, len(steps), " ".join(toks))] + ls

    def val(self, sc, tok):
        if tok == "nan":
            return None
        return float(Fraction(tok)) if sc == "r" else canon(bitsf(tok))

    def vals(self, sc, tok, sep=","):
        return [self.val(sc, t) for t in untok(tok, sep)]

    def decode_sw(self, sc, k, reply):
        if k["t"] in ("list", "int", "feat", "num"):
            return None
        if k["t"] == "dirac":
            return [0.0, 1.0, 0.0]
        r = reply.split(" ")
        if r[0] != "ok":
            return None
        return self.vals(sc, r[1])

    def decode_window(self, case, k, replies):
        return self.decode_sw(case["sc"], k, replies[-1])

    def decode_globals(self, tok):
        consts, fb = tok.split(";")
        d = {}
        for item in consts.split("|"):
            n, v = item.split("=")
            d[n] = [] if v in ("_", "") else v.split(".")
        d["Kernel.filter_boundary"] = fb == "1"
        d["Kernel.kernel_function"] = "None"
        d["Kernel.support"] = "None"
        return d

    def decode_call(self, sc, reply, window):
        """reply of one filter_seq call: `ok <names> <signals> <globals>` | `err:<kind> <globals>`"""
        r = reply.split(" ")
        if r[0] != "ok":
            return {"err": r[0], "window": window, "state": self.decode_globals(r[1])}
        names = untok(r[1])
        sigs = [self.vals(sc, s) for s in untok(r[2], ";")]
        return {"sigs": dict(zip(names, sigs)), "same": True, "window": window, "state": self.decode_globals(r[3])}

    def decode(self, case, replies):
        kind, sc = case["kind"], case["sc"]
        if any(r == "bad-request" or r.startswith("bad-request ") or " # bad-request" in r for r in replies):
            raise ValueError("bad-request")
        if kind == "ext":
            return self.ext_decode(case, replies)
        if kind == "coll":
            return self.coll_decode(case, replies)
        if kind == "extseq":
            return self.extseq_decode(case, replies)
        if kind == "sw" or (kind == "badk" and "dims" not in case):
            r = replies[-1].split(" ")
            if r[0] != "ok":
                return {"err": r[0]}
            return {"window": self.decode_window(case, case["k"], replies)}
        if kind in ("feat", "zeronorm", "short", "zerow", "inff"):
            r = replies[0].split(" ")
            if r[0] != "ok":
                return {"err": r[0]}
            out = self.vals(sc, r[2])
            return {"out": out, "ret": out, "kafter": None if r[1] == "none" else self.vals(sc, r[1]),
                    "input_after": [canon(num(a)) for a in case["sig"]], "window": self.decode_window(case, case["k"], replies)}
        if kind == "op":
            r = replies[0].split(" ")
            if r[0] != "ok":
                return {"err": r[0]}
            names = untok(r[3])
            sigs = [self.vals(sc, s) for s in untok(r[4], ";")]
            return {"ret": None if r[2] == "none" else self.vals(sc, r[2]), "sigs": dict(zip(names, sigs)), "kafter": None if r[1] == "none" else self.vals(sc, r[1]),
                    "window": self.decode_window(case, case["k"], replies), "state": self.decode_globals(self.PRISTINE_TOKEN)}
        if kind == "opl":
            r = replies[0].split(" ")
            if r[0] != "ok":
                return {"err": r[0]}
            names = untok(r[3])
            sigs = [self.vals(sc, s) for s in untok(r[4], ";")]
            return {"ret": None if r[2] == "none" else "something", "sigs": dict(zip(names, sigs)),
                    "kafter": None if r[1] == "none" else self.vals(sc, r[1]), "window": self.decode_window(case, case["k"], replies)}
        if kind in ("seq", "smooth", "badk"):
            k = case["k"] if kind != "smooth" else {"t": "gaussian", "p": case["w"], "fb": None}
            if case.get("twice"):
                parts = replies[0].split(" # ")
                res = self.decode_call(sc, parts[-1], self.decode_window(case, k, replies))
                if len(parts) == 2 and "err" not in res:
                    res["sigs1"] = self.decode_call(sc, parts[0], None)["sigs"]
            else:
                res = self.decode_call(sc, replies[0], self.decode_window(case, k, replies))
            if "err" in res:
                res.pop("state")
            return res
        if kind == "session":
            parts = replies[0].split(" # ")
            steps, j, w = [], 0, 1
            for st in case["steps"]:
                if st["api"] == "freq":
                    steps.append({"api": "freq", "state": self.decode_globals(self.PRISTINE_TOKEN)})
                    continue
                k = self.step_kernel(st)
                window = None
                if self.needs_sw(k):
                    window = self.decode_sw(sc, k, replies[w])
                    w += 1
                elif k["t"] == "dirac":
                    window = [0.0, 1.0, 0.0]
                steps.append(self.decode_call(sc, parts[j], window))
                j += 1
            return {"steps": steps}

    PRISTINE_TOKEN = "FILTER_X=x|FILTER_Y=y|FILTER_Z=z|FILTER_XY=x.y|FILTER_XZ=x.z|FILTER_YZ=y.z|FILTER_XYZ=x.y.z;0"
    ERR_MAP = {"err:even-kernel": ("err:NameError", "err:KernelError"), "err:zerodiv": ("err:zerodiv",),
               "err:index": ("err:index",), "err:support": ("err:NameError", "err:KernelError"),
               "err:feature": ("err:AnalyticalFeatureError",), "err:empty-track": ("err:AnalyticalFeatureError",),
               "err:operands": ("err:NameError", "err:OperatorError"), "err:kernel-type": ("err:type", "err:TypeError")}

    def compare_one(self, impl_out, model_out):
        if "err" in impl_out or "err" in model_out:
            if "err" in impl_out and "err" in model_out:
                want = self.ERR_MAP.get(model_out["err"], ())
                if impl_out["err"] not in want:
                    return "error kinds differ: impl=%s model=%s" % (impl_out["err"], model_out["err"])
                if impl_out.get("state") != model_out.get("state"):
                    return "module-level state after the call: impl=%s model=%s" % (impl_out.get("state"), model_out.get("state"))
                return None
            return "impl=%s model=%s" % (str(impl_out)[:300], str(model_out)[:300])
        if close(impl_out, model_out, self.rel_tol):
            return None
        return "impl=%s model=%s" % (str(impl_out)[:400], str(model_out)[:400])

    def compare(self, case, impl_out, model_out):
        if case["kind"] == "coll":
            return self.coll_compare(case, impl_out, model_out)
        if case["kind"] == "extseq" and "err" not in impl_out and "err" not in model_out:
            # what filter_seq leaves in the caller's weight list is the library's business (the model divides it by its total at every
            # dimension, as the code does today; the in-place normalisation itself is compared at the level of Filter.execute, stream 'ext'):
            # the tracks are compared, `kafter` is kept in the outputs for the record only
            impl_out = {k: v for k, v in impl_out.items() if k != "kafter"}
            model_out = {k: v for k, v in model_out.items() if k != "kafter"}
        if case["kind"] == "session" and "steps" in impl_out and "steps" in model_out:
            for i, (a, b) in enumerate(zip(impl_out["steps"], model_out["steps"])):
                bad = self.compare_one(a, b)
                if bad:
                    return "step %d: %s" % (i, bad)
            return None
        return self.compare_one(impl_out, model_out)

    # ---------------------------------------------------------------- oracle (transfer)
    def weights_for(self, k, out, case=None):
        """(weights as Fractions, filterBoundary, problem): lists use the caller's weights, a feature name the values of
        that feature, Kernel objects the sliding window the implementation exposes (checked for the shape the property
        states); a kernel on which setFilterBoundary was never called does not filter boundaries"""
        if k["t"] in ("list", "int"):
            return shape_weights(k), False, None
        if k["t"] == "feat":
            return self.op_weights(case), False, None
        win = out.get("window")
        bad = check_window(win)
        if bad:
            return None, None, bad
        return [Fraction(x) for x in win], bool(k.get("fb")), None

    def spec_seq(self, st, out):
        """one call of filter_seq / Track.smooth inside the property's domain"""
        api = st.get("api", "seq")
        k = self.step_kernel(st)
        dims = st["dims"] if api == "seq" else ["x", "y", "z"]
        if api == "seq" and st.get("how") == "str" and len(dims) != 1:
            return None     # the property does not say what a str of several characters means as `dim` (correspondence only)
        if "err" in out:
            return self.judge_error(dict(st, kind="seq" if api == "seq" else "smooth"), out)
        w, fb, bad = self.weights_for(k, out, st)
        if bad:
            return bad
        if not out["same"]:
            return "filter_seq did not return the track it filtered"
        allsig = dict({"x": st["x"], "y": st["y"], "z": st["z"]}, **st.get("feats", {}))
        if st.get("twice"):
            # two calls on the same track: the first is judged on the track read between the calls, the second on what the
            # first one left (when that is in the domain again)
            first = out.get("sigs1")
            if not isinstance(first, dict):
                return "the track was not read after the first call"
            for nm, v in allsig.items():
                if nm in dims:
                    bad = check_signal(w, v, fb, first.get(nm), "%s after the first call" % nm)
                    if bad:
                        return bad
                    v1 = first[nm]
                    if domain_ok(w, v1):
                        bad = check_signal(w, v1, fb, out["sigs"].get(nm), "%s after the second call (input: the result of the first)" % nm)
                        if bad:
                            return bad
                elif out["sigs"].get(nm) != [canon(num(a)) for a in v] or first.get(nm) != [canon(num(a)) for a in v]:
                    return "%s was not to be filtered but changed: %r -> %r" % (nm, v, out["sigs"].get(nm))
            return None
        for nm, v in allsig.items():
            got = out["sigs"].get(nm)
            if nm in dims and len(w) != 1:
                bad = check_signal(w, v, fb, got, nm)
                if bad:
                    return bad
            elif got != [canon(num(a)) for a in v]:
                return "%s was not to be filtered but changed: %r -> %r" % (nm, v, got)
        return None

    def spec(self, case, out):
        kind = case["kind"]
        if kind == "ext":
            return self.ext_spec(case, out)
        if kind == "coll":
            return self.coll_spec(case, out)
        if kind == "extseq":
            return self.extseq_spec(case, out)
        if kind in ("zeronorm", "badk") or (kind == "opl" and not case["judge"]):
            return None  # outside the domain of the property (a window without valid weight / a refused call / a form of
            #              the list arguments whose final track the property does not describe)
        if kind == "session":
            if "steps" not in out:
                return "the session raised %s (%s)" % (out.get("err"), out.get("detail", ""))
            for i, (st, o) in enumerate(zip(case["steps"], out["steps"])):
                if st["api"] == "freq" or not self._in_domain(dict(st, kind="seq" if st["api"] == "seq" else "smooth")):
                    continue
                bad = self.spec_seq(st, o)
                if bad:
                    return "call %d of the session (%s): %s" % (i + 1, st["api"], bad)
            return None
        if kind in ("seq", "smooth"):
            return self.spec_seq(dict(case, api="smooth" if kind == "smooth" else "seq"), out)
        if "err" in out:
            return self.judge_error(case, out)
        if kind == "sw":
            return check_window(out["window"])
        if kind == "inff":
            w, fb, bad = self.weights_for(case["k"], out)
            if bad:
                return bad
            if out["input_after"] != [canon(num(a)) for a in case["sig"]]:
                return "the input feature was modified: %r" % out["input_after"]
            return check_nonfinite(w, case["sig"], fb, out["out"], "feature")
        if kind in ("feat", "zerow", "short"):
            w, fb, bad = self.weights_for(case["k"], out)
            if bad:
                return bad
            if kind == "short" and not domain_ok(w, case["sig"]):
                return None      # a window without valid weight (or a negative weight): outside the domain
            if out["input_after"] != [canon(num(a)) for a in case["sig"]]:
                return "the input feature was modified: %r" % out["input_after"]
            return check_signal(w, case["sig"], fb, out["out"], "feature", skip_undefined=(kind == "zerow"))
        if kind == "opl":
            w, fb, bad = self.weights_for(case["k"], out, case)
            if bad:
                return bad
            allsig = dict({"x": case["x"], "y": case["y"], "z": case["z"]}, **case["feats"])
            outs = case["outs"] if case["outs"] is not None else case["ins"]
            src = dict(zip(outs, case["ins"]))
            for nm in list(allsig) + [o for o in outs if o not in allsig]:
                got = out["sigs"].get(nm)
                if nm in src:
                    bad = check_signal(w, allsig[src[nm]], fb, got, "feature %s (filtered %s)" % (nm, src[nm]))
                    if bad:
                        return bad
                elif got != [canon(num(a)) for a in allsig[nm]]:
                    return "%s was not to be filtered but changed: %r -> %r" % (nm, allsig[nm], got)
            return None
        if kind == "op":
            w, fb, bad = self.weights_for(case["k"], out, case)
            if bad:
                return bad
            allsig = dict({"x": case["x"], "y": case["y"], "z": case["z"]}, **case["feats"])
            if case.get("expr") and case["out"] is None:
                # "in ! w" without left-hand side: the filtered values are returned, the track is as it was
                bad = check_signal(w, allsig[case["in"]], fb, out["ret"], "returned list")
                if bad:
                    return bad
                for nm in sorted(allsig):
                    if out["sigs"].get(nm) != [canon(num(a)) for a in allsig[nm]]:
                        return "%s was not to be filtered but changed: %r -> %r" % (nm, allsig.get(nm), out["sigs"].get(nm))
                return None
            case = dict(case, out=case["out"] if case["out"] is not None else case["in"])
            bad = check_signal(w, allsig[case["in"]], fb, out["sigs"].get(case["out"]), "feature %s" % case["out"])
            if bad:
                return bad
            if not case.get("expr"):
                bad = check_signal(w, allsig[case["in"]], fb, out["ret"], "returned list")
                if bad:
                    return bad
            for nm, v in allsig.items():
                if nm != case["out"] and out["sigs"].get(nm) != [canon(num(a)) for a in v]:
                    return "%s was not to be filtered but changed: %r -> %r" % (nm, v, out["sigs"].get(nm))
            return None
        return self.spec_seq(dict(case, api="smooth" if kind == "smooth" else "seq"), out)

    # the IndexError of the boundary copy on a track shorter than the half window (index_zone) is outside the property's
    # quantifier ("signals of length at least the window length") and is not judged; set to True to judge it as a
    # failure of "the first and last half-window values are returned unchanged" (class short-track-boundary-copy-indexerror)
    JUDGE_SHORT_INDEXERROR = False

    def case_signals(self, case):
        kind = case["kind"]
        if kind in ("feat", "short", "zerow", "zeronorm", "inff"):
            return [case["sig"]]
        allsig = dict({"x": case["x"], "y": case["y"], "z": case["z"]}, **case.get("feats", {}))
        if kind == "op":
            return [allsig[case["in"]]]
        if kind == "opl":
            return [allsig[d] for d in case["ins"] if d in allsig]
        dims = ["x", "y", "z"] if kind == "smooth" else case.get("dims", ["x", "y", "z"])
        return [allsig[d] for d in dims if d in allsig]

    def judge_error(self, case, out):
        """an exception inside the property's domain is a failure. Outside it: a ZeroDivisionError when, with the sliding
        window the implementation itself exposes (well shaped), some window has no valid weight; an IndexError when the
        boundaries are copied on a track shorter than the half window (see index_zone)"""
        msg = "raised %s (%s)" % (out["err"], out.get("detail", ""))
        kind = case["kind"]
        k = case.get("k", {"t": "gaussian", "p": case.get("w"), "fb": None})
        if kind == "zerow" and out["err"] == "err:zerodiv":
            return None      # some window has no valid weight: outside the domain, the call may fail
        if kind == "sw" or out["err"] not in ("err:zerodiv", "err:index"):
            return msg
        if k["t"] in ("list", "int", "feat"):
            w, fb = self.kweights(case), False
        else:
            win = out.get("window")
            if check_window(win) or any(x < 0 for x in win):
                return msg
            w, fb = [Fraction(x) for x in win], bool(k.get("fb"))
        sigs = self.case_signals(case)
        if kind == "short" and not domain_ok(w, sigs[0]):
            return None      # a window without valid weight: outside the domain
        if out["err"] == "err:index":
            if sigs and all(index_zone(w, fb, len(v)) for v in sigs):
                if self.JUDGE_SHORT_INDEXERROR:
                    return msg + ": boundaries are not filtered, so every value of a track shorter than the half window was to be returned unchanged"
                return None
            return msg
        if k["t"] in ("list", "int", "feat"):
            return msg
        if any(not domain_ok(w, v) for v in sigs):
            return None
        return msg

    def classify(self, case, impl_out, msg):
        if self.JUDGE_SHORT_INDEXERROR and isinstance(impl_out, dict) and impl_out.get("err") == "err:index" and "shorter than the half window" in (msg or ""):
            return "short-track-boundary-copy-indexerror"
        return None

    # ---------------------------------------------------------------- shrinking / search
    def _sig_names(self, case):
        return ["sig"] if case["kind"] in ("feat", "zeronorm", "short", "zerow", "inff", "ext") else ["x", "y", "z"]

    def shrink(self, case):
        kind = case["kind"]
        if kind == "extseq":
            if len(case["dims"]) > 1:
                for d in case["dims"]:
                    yield dict(case, dims=[e for e in case["dims"] if e != d])
            return
        if kind == "coll":
            ts = case["tracks"]
            if len(ts) > 1:
                for i in range(len(ts)):
                    yield dict(case, tracks=ts[:i] + ts[i + 1:])
            return
        if kind == "ext":
            v = case["sig"]
            if case["via"] == "list" and len(v) > 1:
                for i in range(len(v)):
                    yield dict(case, sig=v[:i] + v[i + 1:])
            for i in range(len(v)):
                if finite(v[i]) and v[i] not in (0, 1):
                    yield dict(case, sig=v[:i] + [1] + v[i + 1:])
            return
        if kind == "sw":
            k = case["k"]
            if k["t"] == "user":
                if len(k["tbl"]) > 1:
                    yield dict(case, k=dict(k, tbl=k["tbl"][:-1]))
                if k["s"] > 1:
                    yield dict(case, k=dict(k, s=k["s"] - 1 if k["s"] >= 2 else 1))
                for i, (ty, val) in enumerate(k["tbl"]):
                    if ty not in ("i", "f"):
                        yield dict(case, k=dict(k, tbl=k["tbl"][:i] + [["i" if val == int(val) else "f", val]] + k["tbl"][i + 1:]))
            return
        if kind == "session":
            steps = case["steps"]
            if len(steps) > 1:
                for i in range(len(steps)):
                    yield dict(case, steps=steps[:i] + steps[i + 1:])
            for i, st in enumerate(steps):
                if st["api"] == "freq":
                    continue
                sub = dict(st, kind="seq" if st["api"] == "seq" else "smooth", sc=case["sc"])
                n = 0
                for c in self.shrink(sub):
                    n += 1
                    if n > 40:
                        break
                    c = dict(c)
                    c.pop("kind", None)
                    c.pop("sc", None)
                    if "api" not in c:
                        c["api"] = st["api"]
                    yield dict(case, steps=steps[:i] + [c] + steps[i + 1:])
            return
        if kind == "opl":
            if not case["judge"]:
                return
            ins, outs = case["ins"], case["outs"]
            if len(ins) > 1:
                for j in range(len(ins)):
                    yield dict(case, ins=ins[:j] + ins[j + 1:], outs=None if outs is None else outs[:j] + outs[j + 1:])
            n, N = len(case["x"]), len(shape_weights(case["k"]))
            if n > N or 1 < n < N:
                for i in range(n):
                    c = dict(case, feats={a: v[:i] + v[i + 1:] for a, v in case["feats"].items()})
                    for nm in ("x", "y", "z"):
                        c[nm] = case[nm][:i] + case[nm][i + 1:]
                    if self._in_domain(c):
                        yield c
            for a in ins:
                if a in case["feats"]:
                    v = case["feats"][a]
                    for i in range(len(v)):
                        if v[i] not in (0, 1):
                            c = dict(case, feats=dict(case["feats"], **{a: v[:i] + [0] + v[i + 1:]}))
                            if self._in_domain(c):
                                yield c
            return
        if kind in ("op", "badk"):
            return
        k = case.get("k", {"t": "gaussian", "p": case.get("w")})
        if k["t"] == "feat":
            return
        N = len(shape_weights(k))
        names = self._sig_names(case)
        n = len(case[names[0]])
        # drop one position of every signal
        if n > N or (n > 1 and n < N):
            for i in range(n):
                c = dict(case)
                for nm in names:
                    c[nm] = case[nm][:i] + case[nm][i + 1:]
                if "feats" in case:
                    c["feats"] = {a: s[:i] + s[i + 1:] for a, s in case["feats"].items()}
                if self._in_domain(c) == self._in_domain(case):
                    yield c
        if kind == "seq":
            if case["feats"]:
                for a in case["feats"]:
                    c = dict(case, feats={b: s for b, s in case["feats"].items() if b != a}, dims=[d for d in case["dims"] if d != a])
                    if c["dims"] and case.get("how", "list") == "list":
                        yield c
                    elif a not in case["dims"]:
                        yield dict(case, feats={b: s for b, s in case["feats"].items() if b != a})
            if len(case["dims"]) > 1 and case.get("how", "list") in ("list", "str"):
                for d in case["dims"]:
                    yield dict(case, dims=[e for e in case["dims"] if e != d])
        # simpler values
        for nm in names:
            s = case[nm]
            for i in range(len(s)):
                for nv in (0, 1):
                    if s[i] != nv and not isinstance(s[i], str) and (s[i] is None or abs(s[i]) > 1 or s[i] != int(s[i])):
                        c = dict(case)
                        c[nm] = s[:i] + [nv] + s[i + 1:]
                        if self._in_domain(c) == self._in_domain(case):
                            yield c
        if k["t"] == "list":
            w = k["w"]
            if len(w) >= 5:
                yield dict(case, k={"t": "list", "w": w[1:-1]})
            for i in range(len(w)):
                if w[i] != 1:
                    yield dict(case, k={"t": "list", "w": w[:i] + [1] + w[i + 1:]})
        if case.get("sc") == "f" and k["t"] in ("list", "int", "dirac", "user") + RATIONAL_KERNELS and kind not in ("smooth", "inff"):
            yield dict(case, sc="r")

    def _in_domain(self, case):
        kind = case["kind"]
        if kind in ("zeronorm", "short", "badk", "zerow", "sw", "session"):
            return True
        if kind == "op":
            allsig = dict({"x": case["x"], "y": case["y"], "z": case["z"]}, **case["feats"])
            return domain_ok(self.op_weights(case), allsig[case["in"]])
        if kind == "opl":
            allsig = dict({"x": case["x"], "y": case["y"], "z": case["z"]}, **case["feats"])
            w = shape_weights(case["k"])
            return (not case["judge"]) or (sum(w) > 0 and all(domain_ok(w, allsig[d]) for d in case["ins"]))
        k = case.get("k", {"t": "gaussian", "p": case.get("w")}) if kind != "smooth" else {"t": "gaussian", "p": case["w"]}
        if k["t"] not in ("list", "int", "dirac", "feat") and support_of(k) < 1:
            return False
        w = self.kweights(dict(case, k=k))
        if kind in ("feat", "inff"):
            return domain_ok(w, case["sig"])
        if len(case["x"]) == 0:
            return False
        allsig = dict({"x": case["x"], "y": case["y"], "z": case["z"]}, **case.get("feats", {}))
        dims = case.get("dims", ["x", "y", "z"]) if kind != "smooth" else ["x", "y", "z"]
        if any(d not in allsig for d in dims) or len(set(dims)) != len(dims):
            return False
        if len(w) == 1:
            return k["t"] in ("list", "int") or all(x is not None for d in dims for x in allsig[d])
        return sum(w) > 0 and all(domain_ok(w, allsig[d]) for d in dims)

    def mutate(self, case, rng):
        kind = case["kind"]
        if kind == "extseq":
            return
        if kind == "coll":
            return
        if kind == "ext":
            v = case["sig"]
            for _ in range(12):
                i = rng.randrange(len(v))
                yield dict(case, sig=v[:i] + [rng.choice([0, 1, 2, -1, 0.5, 4, None, "inf", "-inf"])] + v[i + 1:])
            return
        if kind == "sw":
            if "p" in case["k"]:
                for p in self.WIDTHS:
                    yield dict(case, k=dict(case["k"], p=p))
            return
        if kind in ("session", "op", "opl", "badk"):
            return
        for _ in range(20):
            c = dict(case)
            for nm in self._sig_names(case):
                s = list(case[nm])
                if not s:
                    continue
                i = rng.randrange(len(s))
                s[i] = rng.choice([None, 0, 1, rng.randrange(-50, 50)])
                c[nm] = s
            if self._in_domain(c):
                yield c
        # one sample of another order of magnitude (the first valid one, any one): the other windows must not notice
        for _ in range(12):
            c = dict(case)
            for nm in self._sig_names(case):
                s = list(case[nm])
                valid = [i for i in range(len(s)) if s[i] is not None]
                if not valid:
                    continue
                i = valid[0] if rng.random() < 0.6 else rng.choice(valid)
                s[i] = rng.choice([1, -1]) * rng.choice(self.OUTLIERS)
                c[nm] = s
            if self._in_domain(c):
                yield c
        if case.get("k", {}).get("t") == "list":
            for _ in range(10):
                w = [rng.randrange(1, 9) for _ in case["k"]["w"]]
                yield dict(case, k={"t": "list", "w": w})

# ---- tie to the source by translation: Kernel.evaluate / Kernel.toSlidingWindow (tools/py2lean.py -> lean/TracklibVerif/Gen/Kernel.lean, regenerated on every run)
P.tie_modules = getattr(P, "tie_modules", []) + ["TracklibVerif.Tie.C15"]
P.theorems = P.theorems + [
    ("TracklibVerif.Tie.C15", "TV.Tie.C15.tie_evaluate", "the Lean translation of the CURRENT source of Kernel.evaluate returns the model's evaluate f support x (never raises), given that abs(x) <= support has the same truth value for Python's abs and the model's absv"),
    ("TracklibVerif.Tie.C15", "TV.Tie.C15.fabs_le_iff_field", "the hypothesis of tie_evaluate holds in every ordered field (there Python's abs and the model's absv coincide: fabs_eq_absv_field)"),
    ("TracklibVerif.Tie.C15", "TV.Tie.C15.tie_toSlidingWindow", "the Lean translation of the CURRENT source of Kernel.toSlidingWindow (raise on support < 1, sampling loop with values[i] = evaluate(x) and norm += values[i], normalisation loop values[i] /= norm) equals the model's slidingWindow f support int(support) on every result, errors included (support -> raised, zeroDiv -> ZeroDivisionError), under explicit hypotheses on literals 2.0 / 0.5, int casts, == and abs"),
    ("TracklibVerif.Tie.C15", "TV.Tie.C15.tie_toSlidingWindow_field", "tie_toSlidingWindow in an ordered field: only the reading of the literals 2.0 and 0.5 remains a hypothesis"),
    ("TracklibVerif.Tie.C15", "TV.Tie.C15.slidingWindow_error", "the model's slidingWindow raises no error other than support and zeroDiv (the other cases of lift are unreachable)"),
]

# --- TIE3: translation tie for the loops of Filter.execute (Kernel object, not Dirac) ---
P.tie_modules = getattr(P, "tie_modules", []) + ["TracklibVerif.Tie.C15Filter"]
P.theorems = P.theorems + [
    ("TracklibVerif.Tie.C15Filter", "TV.Tie.C15Filter.tie_execute_kernel", "the Lean translation of the CURRENT source of Filter.execute (Kernel object, not Dirac: even-window raise, double loop with window index i - j + D skipping out-of-track and NaN samples, temp[i] /= norm, the two boundary-copy loops) equals the model's filterWindow on the column encoded by NaN -> none, on ALL arguments, errors included (evenKernel -> raised, zeroDiv -> ZeroDivisionError, index -> IndexError); the model signal is read back entry-wise (some y -> y, none at i -> the input's NaN at i); hypotheses: len(column) = track.size(), int(N / 2) is the integer half of N, the model's == is Python's =="),
    ("TracklibVerif.Tie.C15Filter", "TV.Tie.C15Filter.innerLoop_tie", "loop lemma (arbitrary body with a pointwise equation): the loop for j in range(N) changes only temp[i] and norm, as the model's inner"),
    ("TracklibVerif.Tie.C15Filter", "TV.Tie.C15Filter.outerLoop_tie", "loop lemma (arbitrary body): the loop for i in range(track.size()) leaves the cells divided by their norms, or ZeroDivisionError at the FIRST zero norm (divCells; divCells_eq: same as the model's 'any cell has norm == 0')"),
    ("TracklibVerif.Tie.C15Filter", "TV.Tie.C15Filter.copyLoop_ok", "loop lemma (arbitrary body): for i in range(a, b): temp[i] = af[i] inside both lists copies exactly the items a <= i < b"),
    ("TracklibVerif.Tie.C15Filter", "TV.Tie.C15Filter.copyLoop_index", "loop lemma (arbitrary body): the same loop with a <= len(af) < b raises IndexError (at i = len(af))"),
]
