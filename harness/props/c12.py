"""C12 — optimal partitioning returns a global optimum for the requested direction
(tracklib/algo/segmentation.py: optimalPartition, backtracking, backward, optimalSegmentation, findStopsGlobal;
tracklib/algo/simplification.py: optimalSimplification, simplify's modes 4-8).

Streams (`kind`):
  sym / part   optimalPartition on a given matrix (exact rationals or doubles, several call forms)
  partseq      several calls of optimalPartition on ONE matrix object (state left by earlier calls, aliasing)
  fe           the front ends optimalSegmentation / optimalSimplification / simplify(FREE, FREE_MAXIMIZE) with a user cost
               function (3 or 4 parameters, default value, *rest, callable object) and a global parameter (None, 0, 0.0,
               -0.0, False, numpy zero, negative, inf, tuples): the oracle evaluates the cost function ITSELF with the
               requested parameter and enumerates all chains
  sb           simplify with the built-in criteria 4, 5, 6 on planar tracks (the module's own cost function, tolerance as
               global parameter)
  stops        findStopsGlobal from the caller's arguments (track with altitudes, diameter, duration, downsampling, call form): the
               oracle recomputes the DOCUMENTED reward (enclosing circle in the plane, duration) from the track — the resampled one
               when downsampling > 1 — with exact rational geometry, demands that matrix, an optimal answer and returned stops that
               realise the optimum; findStopsGlobalForRTK: delegation and matrix correspondence only
"""
import sys, itertools, math, json, os
from fractions import Fraction
from engine import Prop, fbits, bitsf, ratstr

INF = float("inf")
FINDING_MINCIRCLE = "stops-mincircle-none"
FINDING_NANZ = "stops-nan-altitude-statistics"
FINDING_LOOSE = "stops-mincircle-not-enclosing"


# ------------------------------------------------------------------------------------------------
# exact values extended with +-inf (a double is an exact rational or an infinity; NaN is outside the domain)
# ------------------------------------------------------------------------------------------------
def X(v):
    """exact value of a token / number: Fraction, or float +-inf / nan"""
    if isinstance(v, str):
        return Fraction(v)
    if isinstance(v, Fraction):
        return v
    f = float(v)
    if f != f or f in (INF, -INF):
        return f
    return Fraction(f)


def finite(x):
    return isinstance(x, Fraction)


def isnan(x):
    return isinstance(x, float) and x != x


def xsum(vals):
    tot, extra = Fraction(0), 0.0
    for v in vals:
        if finite(v):
            tot += v
        else:
            extra += v          # +-inf / nan arithmetic of doubles
    return tot if extra == 0.0 else extra


# ------------------------------------------------------------------------------------------------
# oracle: enumeration of all strictly increasing chains 0 = p0 < ... < pr = N-1
# ------------------------------------------------------------------------------------------------
def chain_cost(Cx, idx):
    return xsum(Cx[a][b] for a, b in zip(idx, idx[1:]))


def chain_abs(Cx, idx):
    return sum((abs(Cx[a][b]) for a, b in zip(idx, idx[1:]) if finite(Cx[a][b])), Fraction(0))


def brute(Cx, N, maximise):
    """(best exact cost, one best chain) over the 2^(N-2) chains; Cx: exact matrix (Fraction / inf)"""
    best, arg = None, None
    inner = list(range(1, N - 1))
    for r in range(len(inner) + 1):
        for sub in itertools.combinations(inner, r):
            ch = [0] + list(sub) + [N - 1]
            c = chain_cost(Cx, ch)
            if best is None or (c > best if maximise else c < best):
                best, arg = c, ch
    return best, arg


def is_chain(idx, N):
    return (len(idx) >= 2 and idx[0] == 0 and idx[-1] == N - 1 and all(isinstance(x, int) for x in idx)
            and all(a < b for a, b in zip(idx, idx[1:])))


def oracle(Cx, N, maximise, idx, rel=0, what="summed segment cost"):
    """The property on one answer. `rel` = 0: exact optimum (exact scalars). `rel` > 0 (doubles): the optimum up to
    `rel` times the absolute costs summed along the answer and along one optimal chain — the rounding of the
    (non-associative) double additions performed on those two chains is what separates the table value from the
    exact sums; N * 2^-53 is far below `rel`."""
    if not is_chain(idx, N):
        return "result %s is not a strictly increasing list from 0 to %d" % (idx, N - 1)
    for a in range(N):
        for b in range(a + 1, N):
            if isnan(Cx[a][b]):
                return None           # NaN costs: comparisons are not an order, outside the property
    got = chain_cost(Cx, idx)
    best, arg = brute(Cx, N, maximise)
    if isnan(got) or isnan(best):
        return None                   # inf - inf along a chain
    slack = 0
    if rel:
        slack = Fraction(rel) * (chain_abs(Cx, idx) + chain_abs(Cx, arg))
    if finite(got) and finite(best):
        bad = (got < best - slack) if maximise else (got > best + slack)
    else:
        bad = (got < best) if maximise else (got > best)
    if bad:
        return "result %s has %s %s but %s has %s (%s requested)" % (
            idx, what, float(got), arg, float(best), "maximum" if maximise else "minimum")
    return None


# ------------------------------------------------------------------------------------------------
# exact planar geometry for the stop-detection oracle (coordinates are integers / dyadic doubles)
# ------------------------------------------------------------------------------------------------
def d2(p, q):
    return (p[0] - q[0]) ** 2 + (p[1] - q[1]) ** 2


def mec3_r2(p, q, r):
    """squared radius of the minimal enclosing circle of three distinct points"""
    a2, b2, c2 = d2(q, r), d2(p, r), d2(p, q)
    m = max(a2, b2, c2)
    if a2 + b2 + c2 - m <= m:          # right, obtuse or flat: the longest side is a diameter
        return Fraction(m) / 4
    cr = (q[0] - p[0]) * (r[1] - p[1]) - (q[1] - p[1]) * (r[0] - p[0])
    return Fraction(a2 * b2 * c2) / (4 * cr * cr)


def mec_r2(pts):
    """squared radius of the minimal enclosing circle (it is determined by at most three of the points, and is the
    largest of the circles of all triples)"""
    pts = list(dict.fromkeys(pts))
    if len(pts) == 1:
        return Fraction(0)
    if len(pts) == 2:
        return Fraction(d2(*pts)) / 4
    return max(mec3_r2(*t) for t in itertools.combinations(pts, 3))


def mec3_centre(p, q, r):
    """centre of the minimal enclosing circle of three distinct points"""
    a2, b2, c2 = d2(q, r), d2(p, r), d2(p, q)
    m = max(a2, b2, c2)
    if a2 + b2 + c2 - m <= m:          # the longest side is a diameter
        u, v = (q, r) if m == a2 else (p, r) if m == b2 else (p, q)
        return (Fraction(u[0] + v[0]) / 2, Fraction(u[1] + v[1]) / 2)
    (ax, ay), (bx, by), (cx, cy) = p, q, r
    d = 2 * (ax * (by - cy) + bx * (cy - ay) + cx * (ay - by))
    sa, sb, sc = ax * ax + ay * ay, bx * bx + by * by, cx * cx + cy * cy
    return (Fraction(sa * (by - cy) + sb * (cy - ay) + sc * (ay - by)) / d,
            Fraction(sa * (cx - bx) + sb * (ax - cx) + sc * (bx - ax)) / d)


def mec_centre(pts):
    """centre of the minimal enclosing circle: that of a triple whose circle is the largest (the model's driver CHECKS that
    the circle encloses every point: `enclosedB`)"""
    pts = list(dict.fromkeys(pts))
    if len(pts) == 1:
        return (Fraction(pts[0][0]), Fraction(pts[0][1]))
    if len(pts) == 2:
        return (Fraction(pts[0][0] + pts[1][0]) / 2, Fraction(pts[0][1] + pts[1][1]) / 2)
    return mec3_centre(*max(itertools.combinations(pts, 3), key=lambda t: mec3_r2(*t)))


def mec_tables(xy):
    """r2[i][e], centre[i][e] of the minimal enclosing circle of xy[i..e] for all i <= e. Row i grows the segment one point at
    a time: a point inside the current circle changes nothing; a point p outside it lies on the new circle, which is then
    the largest of the circles of the pairs / triples that contain p (its support set contains p)."""
    n = len(xy)
    r2 = [[None] * n for _ in range(n)]
    cen = [[(Fraction(0), Fraction(0))] * n for _ in range(n)]
    for i in range(n):
        cr, cc, seen = Fraction(0), (Fraction(xy[i][0]), Fraction(xy[i][1])), [xy[i]]
        r2[i][i], cen[i][i] = cr, cc
        for e in range(i + 1, n):
            p = xy[e]
            if (p[0] - cc[0]) ** 2 + (p[1] - cc[1]) ** 2 > cr:
                others = [q for q in dict.fromkeys(seen) if q != p]
                best = None
                for q in others:
                    v = Fraction(d2(p, q)) / 4
                    if best is None or v > best[0]:
                        best = (v, (Fraction(p[0] + q[0]) / 2, Fraction(p[1] + q[1]) / 2))
                for q, r in itertools.combinations(others, 2):
                    v = mec3_r2(p, q, r)
                    if v > best[0]:
                        best = (v, mec3_centre(p, q, r))
                cr, cc = best
            seen.append(p)
            r2[i][e], cen[i][e] = cr, cc
    return r2, cen


# ------------------------------------------------------------------------------------------------
# global parameters and cost functions of the front-end stream
# ------------------------------------------------------------------------------------------------
def pyval(tok, np=None):
    k = tok[0]
    if k == "none":
        return None
    if k == "int":
        return int(tok[1])
    if k == "float":
        return float(tok[1])
    if k == "bool":
        return bool(tok[1])
    if k == "npf":
        return np.float64(tok[1])
    if k == "tuple":
        return tuple(float(x) for x in tok[1])
    raise ValueError(tok)


BIGS = {"q": 1024.0, "f": 1e300}


def cost_value(fam, s, a, span, p):
    """the user's criterion: value of a segment whose table entry is `a`, covering `span` indices, for the parameter p"""
    if fam == "offset":       # deviation + penalty per segment
        return a + p
    if fam == "scale":        # weighted deviation
        return a * p
    if fam == "thresh":       # deviations above the tolerance are precluded (as the built-in strict criterion)
        return BIGS[s] * (a > p) + 1
    if fam == "weights":      # p = tuple of polynomial weights on the length of the segment
        return a + sum(w * span ** k for k, w in enumerate(p))
    raise ValueError(fam)


# other ways of writing the direction: `mode == MODE_SEGMENTATION_MINIMIZE (0)` / `== MODE_SEGMENTATION_MAXIMIZE (1)`
MODEVALS = {"min": ["False", "0.0", "np.int64(0)"], "max": ["True", "1.0", "np.int64(1)"]}
NEITHER = ("2", "None", "'max'")       # equal to neither constant: no direction is requested, [0, N-1] is returned

ACCEPTS3 = ("3", "4d", "var", "obj")
ACCEPTS4 = ("4", "4d", "var", "obj")
MODEL_SIG = {"3": "3", "4": "4", "4d": "4d", "var": "4d", "obj": "4d", "nc": "nc"}


class P(Prop):
    id = "C12"
    design_ref = "DESIGN.md section 5, C12"
    theorems = [
        ("TracklibVerif.Props.C12", "TV.C12.result_shape", "T1: for every matrix with >= 2 candidates and every mode the result starts at 0, ends at N-1 and is strictly increasing"),
        ("TracklibVerif.Props.C12", "TV.C12.optimal_min", "T2: in MINIMIZE mode the summed segment cost of the result is <= that of every strictly increasing list from 0 to N-1"),
        ("TracklibVerif.Props.C12", "TV.C12.optimal_max", "T2: in MAXIMIZE mode it is >= that of every such list"),
        ("TracklibVerif.Props.C12", "TV.C12.table_value", "the in-place D/M table programme (run by the driver) computes the interval recursion opt; D[0,N-1] is the cost of the returned list"),
        ("TracklibVerif.Props.C12", "TV.C12.array_form", "the programme on real 2-D arrays (what the driver runs) returns the same list and tables as the function-table form"),
        ("TracklibVerif.Props.C12", "TV.C12.optimal_bracketed", "T2 without associativity (IEEE doubles): for ANY addition that is monotone for the order, D[0,N-1] is the value of the returned list summed in the order given by the split table, and it is at least as good as EVERY bracketing of EVERY chain"),
        ("TracklibVerif.Props.C12", "TV.C12.optimal_rounded", "T2 for rounded arithmetic (standard model |fl(a+b)-(a+b)| <= u|a+b|, monotone, no associativity): the EXACT summed cost of the result is within ((1+u)^(N-2)-1) x (absolute costs along the result and along the competitor) of the exact cost of every chain, both directions"),
        ("TracklibVerif.Props.C12", "TV.C12.seg_matrix", "optimalSegmentation's two loops + C + C.T (loop form) build the closed form: cost(track,a,b-1) at a<b<=size-2, symmetric, 2*cost(track,a,a-1) on the diagonal, zero last row/column"),
        ("TracklibVerif.Props.C12", "TV.C12.segmentation_optimal", "T3: with the cost as a total function the result is a chain 0..size-2 optimal in the requested direction for the costs cost(track,a,b-1)"),
        ("TracklibVerif.Props.C12", "TV.C12.segmentation_requested", "T3: optimalSegmentation(track, cost, glob_param, mode) as called from Python (3-/4-parameter functions, defaults, None vs any other parameter value) returns a chain optimal for the criterion evaluated with the REQUESTED parameter"),
        ("TracklibVerif.Props.C12", "TV.C12.segmentation_requested_min", "T3: instance: cost(track,i,j,p=d) called with g minimises sum f(.,.,g), never the default d"),
        ("TracklibVerif.Props.C12", "TV.C12.segmentation_requested_max", "T3: instance: three-parameter function, no parameter, maximise"),
        ("TracklibVerif.Props.C12", "TV.C12.segmentation_errors", "outside the domain: an unaccepted call protocol raises TypeError (size >= 3); size 2 gives [0,0], size 1 IndexError, size 0 ValueError"),
        ("TracklibVerif.Props.C12", "TV.C12.simplification_selects", "T3: optimalSimplification keeps, in order, exactly the observations at the indices of optimalSegmentation for the same parameter AND direction (forwarded), an optimal selection"),
        ("TracklibVerif.Props.C12", "TV.C12.simplify_modes", "simplify: FREE = optimalSimplification(cost, None, MINIMIZE), FREE_MAXIMIZE = (cost, None, MAXIMIZE), modes 4-6 = (built-in 4-parameter cost, tolerance, MINIMIZE)"),
        ("TracklibVerif.Props.C12", "TV.C12.stops_matrix", "the row loops of stop detection with break + C + C.T put stopsReward(a,b) at a<b: (b-a)^2 iff the break test holds for no earlier end point, the continue test does not hold and the size is computed and admitted; symmetric"),
        ("TracklibVerif.Props.C12", "TV.C12.stops_documented", "findStopsGlobal's tests (026cb79): the reward of (a,b) is (b-a)^2 exactly when every end point is within diameter of p_a, duration <= t(p_{b-1}) - t(p_a) and minCircle gives a circle with 2r <= diameter (inclusive, as documented); 0 otherwise"),
        ("TracklibVerif.Props.C12", "TV.C12.stops_optimal", "T3: the segmentation computed inside findStopsGlobal maximises the summed stopsReward (= the documented criterion, stops_documented) over all chains 0..size-2"),
        ("TracklibVerif.Props.C12", "TV.C12.stops_planimetric", "findStopsGlobal(track, diameter, duration, downsampling) from the caller's arguments (findStopsGlobalPy: matrix, segmentation, final filter, identifiers) is the same for two tracks that agree on x, y and the times: the altitude (large variations, NaN) is never read"),
        ("TracklibVerif.Props.C12", "TV.C12.stops_criterion", "T3: with the tests read from the track (planimetric distance2DTo) and a minCircle whose circles enclose their segment in the plane, the reward matrix IS the documented one (0 if the circle is > diameter, 0 if the duration is < duration, (b-a)^2 otherwise): the row loop's early exit removes no documented reward, because two points of a disc are at most a diameter apart in the plane"),
        ("TracklibVerif.Props.C12", "TV.C12.stops_negative_diameter", "a negative diameter is exceeded by every distance: the reward matrix is zero"),
        ("TracklibVerif.Props.C12", "TV.C12.stops_fit_in_circle", "T3: if minCircle's circle is moreover minimal, the reward of (a,b) is (b-a)^2 exactly when the segment lasts at least duration and its observations fit in SOME disc of diameter <= diameter (no reference to minCircle's answer), 0 otherwise"),
        ("TracklibVerif.Props.C12", "TV.C12.stops_track_optimal", "T3: under stops_criterion's hypotheses the segmentation maximises the summed DOCUMENTED reward over all chains 0..size-2"),
        ("TracklibVerif.Props.C12", "TV.C12.stops_final_filter", "the final filter of findStopsGlobal (None circle, radius > diameter/2, duration() < duration) is the documented test with the same inclusive boundaries"),
        ("TracklibVerif.Props.C12", "TV.C12.find_stops_array_form", "stop detection with the dynamic programme on arrays (findStopsGlobalPyA, run by the driver) = findStopsGlobalPy: same errors, segmentation = stopsSegmentation, stops = stopsReported, same identifiers"),
        ("TracklibVerif.Props.C12", "TV.C12.enclosedB_sound", "the certificate the driver computes on every stop-detection case (every circle handed to the model encloses the observations of its segment in the plane) is the hypothesis hc of stops_criterion / stops_track_optimal / find_stops_global"),
        ("TracklibVerif.Props.C12", "TV.C12.find_stops_global_checked", "find_stops_global with its hypothesis on the circles replaced by that certificate (checked at run time, reply token <enc>)"),
        ("TracklibVerif.Props.C12", "TV.C12.find_stops_global", "T3: findStopsGlobal(track, diameter, duration, downsampling) returns, as (id_ini, id_end, nb_points) = (a*downsampling, (b-1)*downsampling, b-a), exactly the segments admitted by the documented criterion of a chain that maximises the summed documented reward on the track it works on (the resampled copy when downsampling > 1)"),
    ]
    partial = []
    open_statements = [
        "IEEE doubles: optimal_bracketed_fl / optimal_rounded_fl prove T2 for bracketed sums / T2-up-to-rounding for the addition a (+) b = fl(a + b) of ANY rounding function fl on an ordered field that is (1) monotone and (2) within u|x| of x (no associativity; monotonicity of the rounded addition and of the embedding are now derived, not assumed). What stays assumed about binary64 is exactly that the sum of two doubles is fl(exact sum) for such an fl with u = 2^-53 — true of round-to-nearest-even when no sum overflows and no operand is NaN (sums in the subnormal range are exact); Float is opaque in Lean, so (1) and (2) are not proved for the hardware and are what the transfer check on doubles samples, with the same tolerance shape and the generous constant 1e-9",
        "findStopsGlobal: the model (findStopsGlobalPy) reads the observations (x, y, z, t), computes the squared planimetric distances and the durations itself and applies the three tests, the final filter and the identifiers; minCircle is now modelled ON ITS OWN (Model/MinCircle.lean: __welzl, __circle, ENUCoords.__eq__, the random draws as an explicit parameter; stream `mc`, theorems mincircle_*, circle_*), and composed with the reward matrix in the theorems (stops_fit_in_circle_mincircle: table circOfMinCircle, one draw sequence per call, minimality proved, enclosure the only hypothesis); in the DRIVEN findStopsGlobalPy its answers and the temporal resampling `track ** (size/downsampling)` remain parameters: driving the composition would need the draws of every minCircle call of a run (one global random stream shared by all segments) and the code's rounded square roots / complex circumcentre on doubles, so the check still computes the circles with exact rational geometry — except the entries where tracklib's minCircle returns None (recorded from the run) and circles through >= 3 distinct fixes whose exact diameter equals the limit (doubles decide: read off the run) — and takes the resampled track from tracklib; that the circles handed to the model enclose their segments (hypothesis hc of stops_criterion / find_stops_global) is CHECKED by the driver on every case (enclosedB, theorem enclosedB_sound); it is NOT true of tracklib's minCircle in general (theorem mincircle_not_enclosing), nor is minimality (hmin of stops_fit_in_circle): proved only for the leaves (circle_two_minimal, circle_three_minimal) and for inputs of <= 2 fixes (mincircle_small); for >= 3 fixes: every answer that encloses the input IS the minimal circle (mincircle_enclosing_is_minimal; cross-checked on every mc case against the harness's exact geometry), on <= 3 fixes every circle returned does (mincircle_three); for >= 4 fixes which draw sequences give an enclosing answer is open",
        "minCircle on doubles: the model is exact (squared radii, rational circumcentre); the stream `mc` compares tracklib's doubles with it up to 1e-9 and does not compare inputs where a fix lies exactly on the circle through three other fixes (the code tests it against a centre computed in rounded complex arithmetic: the doubles decide, and the number of draws then differs) — about 40 % of the inputs generated (lattice fixes are often cocircular), tagged in the input histogram",
        "findStopsGlobal with downsampling > 1: coordinates and times of the resampled track are interpolated doubles on which the code's own doubles (sqrt of a rounded sum, circumcentre, difference of absolute times) are not exact; a case with a value within 1e-9 of a threshold is not judged (tagged in the input histogram). Lengths are compared through their squares in the model (exact for the integer / dyadic tracks generated)",
        "findStopsGlobal: tracklib's minCircle sometimes returns a circle that does NOT enclose the segment (its three-point case returns the smallest two-point circle containing the third point instead of the circle through the three boundary points Welzl's recursion needs; about 40 %% of the random orders on the five lattice fixes of the witness): a reward is granted where the documented criterion gives 0 (the routine's defect is theorem mincircle_not_enclosing about its model; circle_three_minimal / mincircle_three say why it needs four fixes). The circle returned is recorded from the run and handed to the model as such (the certificate enclosedB then rightly fails); class '%s', judged once it is listed in known_findings.json (findings/C12.json)" % FINDING_LOOSE,
        "findStopsGlobal on a track where every altitude of a reported stop is NaN raises ZeroDivisionError (the AVERAGER of no value) after the segmentation was computed: class '%s'; tracks where that can happen are generated once the class is listed in known_findings.json (findings/C12.json)" % FINDING_NANZ,
        "findStopsGlobal: when tracklib's minCircle returns None for a segment (three collinear boundary points met in some random orders of Welzl's algorithm) the code writes reward 0 where the documented criterion rewards the segment (theorems mincircle_none, mincircle_none_same_place about the routine's model; mincircle_none_only_collinear: never without three collinear entries); the model has this case (`small = none`), the oracle demands the optimum of the DOCUMENTED criterion and reports the loss (class '%s')" % FINDING_MINCIRCLE,
        "findStopsGlobalForRTK (outside the property's anchors): its tests are still exclusive (`<= duration`, `< std_max`) and its source comment documents a factor 0.33 under the root that the code does not have; only the delegation and the correspondence of its matrix construction are checked",
        "simplify's built-in cost functions (modes 4-6: minimum bounding rectangle geometry) are a parameter of the model; the check evaluates the module's own functions with the requested tolerance",
    ]
    modelled = ("segmentation.optimalPartition (N = rows-1, D/M tables filled by increasing diagonals, both direction tests as written), "
                "backtracking, backward; optimalSegmentation INCLUDING the call protocol of the cost function (is-None test on glob_param, 3/4 "
                "positional arguments, defaults, TypeError), the two loops filling the matrix, C + C.T, degenerate track sizes; "
                "simplification.optimalSimplification (parameter and direction forwarded, b8f1113), simplify() modes 4-8, "
                "TrackCollection.simplify for the free modes (collectionSimplifyFree); findStopsGlobal's and "
                "findStopsGlobalForRTK's reward matrix (row loops with break/continue, thresholds as written, C + C.T), their call of "
                "optimalPartition(MAXIMIZE); findStopsGlobal from the caller's arguments (findStopsGlobalPy): choice of the track "
                "(downsampling > 1: the resampled copy), planimetric distance2DTo and elapsed time read from the observations (x, y, z, t), "
                "the three tests, the final filter, id_ini / id_end / nb_points (multiplied by downsampling), errors on tracks of 0..2 "
                "observations; the dispatcher findStops(..., MODE_STOPS_GLOBAL, verbose) (findStopsPy: verbose goes by keyword, downsampling keeps its default 1); "
                "util/geometrics.minCircle / minCircleOfPoints / __welzl / __circle and ENUCoords.__eq__ (Model/MinCircle.lean: random draws as an "
                "explicit parameter, radii through their squares) as a routine of its own; inside findStopsGlobalPy minCircle's answers, the "
                "temporal resampling, the RTK variant's geometry and simplify's built-in cost functions are parameters")
    rule = ("all {0,1,2}-valued symmetric matrices over N <= 4 (quick) / <= 5 (thorough) candidates and all {0,1}-valued for N = 6 (thorough), "
            "both directions; random symmetric matrices up to N = 12 over small integers / dyadic rationals (exact, model at Rat) and over doubles "
            "(model at Float, bit patterns): uniform, gaussian, one-decimal and tie-rich values, 1e300 sentinels, +inf entries, N = 2..3, junk in the "
            "unused last row/column, several call forms (default/keyword mode, the direction written as True/1.0/numpy integer or as a value equal to "
            "neither constant, verbose, integer dtype, strided view, Fortran order); every matrix is submitted a second time as the same object, and "
            "sequences of calls with changing directions run on one matrix object; front ends with generated cost functions (3 / 4 / 4-with-default / "
            "*rest / callable object / not callable, four parametrised families) and global parameters None, 0, 0.0, -0.0, False, numpy zero, "
            "negative, positive, inf, tuples (empty included), positional and keyword call forms, track sizes 0..9, single calls and sequences of "
            "calls on the same track and cost function with changing parameter / direction / entry point; simplify modes 4-6 on planar tracks with "
            "tolerances 0, 0.0, -0.0, False, numpy zero, positive, negative, inf, None; findStopsGlobal on lattice and dyadic tracks of 3..14 "
            "observations (duplicates, collinear points, exact ties with both thresholds, diameter 0 or negative) WITH AN ALTITUDE CHANNEL (noise and "
            "jumps well above the diameter, ramps, constants, NaN), downsampling omitted / 1 / 1.0 / True / 0.5 (the track itself) or 2, 3, 1.5, 1.25 "
            "(the criterion is read on tracklib's temporal resampling of the track), positional / keyword / default-argument / verbose call forms; "
            "the same through the dispatcher findStops(track, spatial, temporal, MODE_STOPS_GLOBAL[, True / False]); "
            "findStopsGlobalForRTK on dyadic tracks with and without altitudes; minCircle / minCircleOfPoints on 0..7 fixes of a small lattice, a "
            "quarter lattice or a wide lattice, places met twice (same or another altitude), with random.randint replaced by a generated draw "
            "sequence handed to the model as well (correspondence only: centre, squared radius, number of draws, None). Oracle: enumeration of all 2^(N-2) chains "
            "in exact arithmetic on the matrix RECOMPUTED from the cost function and the requested parameter; for findStopsGlobal the DOCUMENTED "
            "reward recomputed from the (resampled) track with exact rational PLANIMETRIC geometry — enclosing circle and duration only, no "
            "distance test — must be the matrix passed down cell by cell, the answer must be optimal for it, and the stops RETURNED (id_ini, id_end) "
            "must realise that optimum; values compared (ties may pick another chain); doubles: optimum up to 1e-9 x the absolute costs summed "
            "along the answer and along one optimal chain (the shape proved in optimal_rounded). non-trivial = at least 3 candidates, the call "
            "protocol accepted, and for stops a reward matrix that is not zero")

    def setup(self):
        import importlib
        import numpy as np
        importlib.import_module("tracklib.algo.segmentation")
        importlib.import_module("tracklib.algo.simplification")
        self.S = sys.modules["tracklib.algo.segmentation"]
        self.Z = sys.modules["tracklib.algo.simplification"]
        self.G = importlib.import_module("tracklib.util.geometrics")
        self.np = np
        from tracklib.core import Obs, ENUCoords, ObsTime
        from tracklib.core.track import Track
        self.Obs, self.ENU, self.T, self.Track = Obs, ENUCoords, ObsTime, Track
        from tracklib.core.track_collection import TrackCollection
        self.TrackCollection = TrackCollection
        self.MODES = {"min": self.S.MODE_SEGMENTATION_MINIMIZE, "max": self.S.MODE_SEGMENTATION_MAXIMIZE}
        self.BUILTIN = {4: getattr(self.Z, "__cost_largest_deviation"), 5: getattr(self.Z, "__cost_mbr_ratio"),
                        6: getattr(self.Z, "__cost_largest_deviation_strict")}
        self._geo = {}
        self._sb = {}
        self._alive = []
        # classes of known_findings.json listed as (unrepaired) findings: a stream that can only end in a listed finding is
        # generated once the finding is listed (never written here)
        try:
            with open(os.path.join(os.path.dirname(os.path.abspath(__file__)), "..", "..", "known_findings.json")) as fh:
                self.listed = {e.get("class") for e in json.load(fh).get("entries", [])
                               if e.get("property") == "C12" and e.get("status") == "finding"}
        except Exception:
            self.listed = set()

    # ---------------------------------------------------------------- generators
    def exhaustive_scopes(self, tier):
        if tier == "thorough":
            return ["all {0,1,2}-valued symmetric matrices for N = 2..5 candidates x both directions",
                    "all {0,1}-valued symmetric matrices for N = 6 candidates x both directions",
                    "front ends: every (signature, global-parameter kind, call form) combination on one fixed cost table"]
        return ["all {0,1,2}-valued symmetric matrices for N = 2..4 candidates x both directions",
                "front ends: every (signature, global-parameter kind, call form) combination on one fixed cost table"]

    GLOBS_Q = [["none"], ["int", 0], ["float", 0.0], ["float", -0.0], ["bool", False], ["bool", True], ["npf", 0.0],
               ["int", 1], ["int", -2], ["float", 0.5], ["float", -1.25], ["int", 3], ["float", 2.0], ["npf", 1.5]]
    GLOBS_F = GLOBS_Q + [["float", INF], ["float", 0.1], ["float", 1e-9], ["float", -0.3], ["float", 1e6]]
    GLOBS_T = [["none"], ["tuple", []], ["tuple", [0.0]], ["tuple", [0.0, 0.0]], ["tuple", [1.0]], ["tuple", [0.5, -0.25]],
               ["tuple", [0.0, 1.0]], ["tuple", [2.0, 0.0, 0.125]]]

    def cases(self, rng, tier):
        out = []
        q = tier == "quick"
        nmax = 5 if tier == "thorough" else 4
        for N in range(2, nmax + 1):
            for vals in itertools.product("012", repeat=N * (N - 1) // 2):
                for mode in ("min", "max"):
                    out.append({"kind": "sym", "N": N, "vals": "".join(vals), "mode": mode})
        if tier == "thorough":
            for vals in itertools.product("01", repeat=15):
                for mode in ("min", "max"):
                    out.append({"kind": "sym", "N": 6, "vals": "".join(vals), "mode": mode})
        for _ in range(1200 if q else 20000):
            N = rng.choice([rng.randrange(2, 13), rng.randrange(3, 8)])
            out.append(self.rand_matrix(rng, N, "q"))
            out.append(self.rand_matrix(rng, N, "f"))
        for _ in range(300 if q else 4000):      # degenerate sizes, doubles
            out.append(self.rand_matrix(rng, rng.choice([2, 3]), rng.choice(["q", "f"])))
        for _ in range(60 if q else 600):   # malformed: single candidate / no candidate / asymmetric
            r = rng.random()
            if r < 0.3:
                out.append({"kind": "part", "s": "q", "mode": rng.choice(["min", "max"]), "C": [["0", "3"], ["3", "0"]], "dom": "single"})
            elif r < 0.5:
                out.append({"kind": "part", "s": "q", "mode": rng.choice(["min", "max"]), "C": [["1"]], "dom": "none"})
            else:
                c = self.rand_matrix(rng, rng.randrange(3, 8), "q")
                n = len(c["C"])
                for i in range(n):
                    for j in range(i):
                        c["C"][i][j] = ratstr(rng.randrange(-5, 9))
                c["dom"] = "asym"
                out.append(c)
        for _ in range(150 if q else 2000):
            c = self.rand_matrix(rng, rng.randrange(3, 8), rng.choice(["q", "f"]))
            out.append({"kind": "partseq", "s": c["s"], "C": c["C"],
                        "modes": [rng.choice(["min", "max"]) for _ in range(rng.randrange(2, 5))]})
        out += self.fe_grid()
        for _ in range(1500 if q else 20000):
            out.append(self.rand_fe(rng))
        for _ in range(200 if q else 3000):
            out.append(self.rand_feseq(rng))
        for _ in range(120 if q else 1500):
            out.append(self.rand_sb(rng))
        for _ in range(400 if q else 4000):
            out.append(self.rand_stops(rng))
        for _ in range(1500 if q else 15000):
            out.append(self.rand_mc(rng))
        return out

    # ---- minCircle (util/geometrics.py: __welzl, __circle) with the random draws as an explicit parameter
    def rand_mc(self, rng):
        n = rng.choice([0, 1, 2, 3, 3, 4, 4, 5, 5, 6, 6, 7])
        fam = rng.choice(["lattice", "quarter", "wide", "flat", "flat", "witness"])
        if fam == "witness" and n >= 3:
            # the fixes of the known witnesses (stops-mincircle-not-enclosing / -none), moved, turned, scaled, shuffled
            base = rng.choice([[(2, 1), (1, 1), (4, 1), (3, 2), (4, 0)], [(4, 0), (1, 0), (3, 2), (2, 2)],
                               [(2, 3), (3, 1), (4, 2), (4, 4), (1, 5)], [(0, 2), (1, 1), (2, 3), (1, 2), (1, 4), (0, 4)]])
            base = list(base)
            rng.shuffle(base)
            k, dx, dy, turn = rng.choice([1, 1, 2, 0.5]), rng.randrange(-3, 4), rng.randrange(-3, 4), rng.randrange(4)
            def tf(x, y):
                for _ in range(turn):
                    x, y = -y, x
                return [k * x + dx, k * y + dy, 0.0]
            return {"kind": "mc", "pts": [tf(x, y) for x, y in base], "draws": [rng.randrange(0, 5040) for _ in range(rng.choice([7, 40]))],
                    "form": rng.choice(["points", "track"])}
        def coord(axis=0):
            if fam == "flat":          # a narrow band: many obtuse triangles (the CANDIDATES step of __circle)
                return float(rng.randrange(0, 9)) if axis == 0 else float(rng.randrange(0, 3))
            if fam == "lattice":
                return float(rng.randrange(0, 6))
            if fam == "quarter":
                return rng.randrange(0, 25) / 4.0
            return float(rng.randrange(-40, 41))
        zs = rng.choice(["zero", "zero", "var"])
        pts = []
        for _ in range(n):
            if pts and rng.random() < 0.12:       # a fix met twice (same place; with `var` possibly another altitude)
                b = rng.choice(pts)
                pts.append([b[0], b[1], b[2] if zs == "zero" or rng.random() < 0.5 else float(rng.randrange(0, 4))])
            else:
                pts.append([coord(0), coord(1), 0.0 if zs == "zero" else float(rng.randrange(0, 4))])
        return {"kind": "mc", "pts": pts, "draws": [rng.randrange(0, 5040) for _ in range(rng.choice([1, 7, 40]))],
                "form": "points" if n == 0 else rng.choice(["points", "track"])}

    def mc_tie(self, case):
        """a point (by index) exactly on the circle through three other, non-collinear points: the code tests it against a
        centre computed in rounded complex arithmetic — the doubles decide, the run is not compared (predicate on the input)"""
        P = [(Fraction(x), Fraction(y)) for x, y, _ in case["pts"]]
        for i, j, k in itertools.combinations(range(len(P)), 3):
            if (P[j][0] - P[i][0]) * (P[k][1] - P[i][1]) - (P[k][0] - P[i][0]) * (P[j][1] - P[i][1]) == 0:
                continue
            (ax, ay), (bx, by), (cx, cy) = P[i], P[j], P[k]
            d = 2 * ((bx - ax) * (cy - ay) - (by - ay) * (cx - ax))
            b2 = (bx - ax) ** 2 + (by - ay) ** 2
            c2 = (cx - ax) ** 2 + (cy - ay) ** 2
            ux = ((cy - ay) * b2 - (by - ay) * c2) / d
            uy = ((bx - ax) * c2 - (cx - ax) * b2) / d
            for l in range(len(P)):
                if l not in (i, j, k) and (P[l][0] - ax - ux) ** 2 + (P[l][1] - ay - uy) ** 2 == ux * ux + uy * uy:
                    return True
        return False

    def mc_run(self, case):
        G = self.G
        dr = case["draws"]
        count = [0]
        class Src:
            def randint(self_, a, b):
                v = a + dr[count[0] % len(dr)] % (b - a + 1)
                count[0] += 1
                return v
            def random(self_):
                raise ArithmeticError("__circle perturbs a point by random.random() * 1e-10")
        pos = [self.ENU(x, y, z) for x, y, z in case["pts"]]
        real = G.random
        G.random = Src()
        try:
            if case["form"] == "track":
                t = self.Track([], 7)
                for i, p in enumerate(pos):
                    t.addObs(self.Obs(p, self.T.readUnixTime(i)))
                c = G.minCircle(t)
            else:
                c = G.minCircleOfPoints(pos)
        finally:
            G.random = real
        if c is None:
            return {"res": "none"}
        return {"c": [float(c.center.getX()), float(c.center.getY()), float(c.radius) ** 2], "draws": count[0]}

    def rand_matrix(self, rng, N, s):
        rows = N + 1
        style = rng.randrange(9 if s == "f" else 6)
        big = rng.random() < 0.5

        def ent():
            if s == "q":
                if style == 0:
                    return Fraction(rng.randrange(0, 4))
                if style == 1:
                    return Fraction(rng.randrange(-6, 7))
                if style == 2:
                    return Fraction(rng.randrange(0, 2000), 8)
                if style == 3:
                    return Fraction(rng.choice([0, 0, 1, 4, 9, 16, 25]))
                if style == 4:
                    return Fraction(rng.randrange(-64, 65), 4)
                return Fraction(rng.choice([0, 1, 1, 2, 3]), rng.choice([1, 2, 4]))       # tie-rich dyadic
            if style == 0:
                return rng.uniform(0, 1)
            if style == 1:
                return rng.gauss(0, 10)
            if style == 2:
                return rng.uniform(0, 1e6)
            if style == 3:
                return float(rng.randrange(0, 5))
            if style == 4:
                return rng.uniform(-1, 1) * 10 ** rng.randrange(-3, 6)
            if style == 5:        # one decimal: sums that round differently according to the bracketing
                return rng.randrange(0, 100) / 10
            if style == 6:        # tie-rich decimals
                return rng.choice([0.1, 0.2, 0.3, 0.4, 0.7])
            if style == 7:        # sentinel "forbidden segment" next to small costs (built-in strict criterion)
                return rng.choice([1.0, 1.0, 1e300 + 1, rng.uniform(0, 3)])
            return rng.choice([INF, INF, rng.uniform(0, 5), 1.0]) if big else rng.choice([INF, rng.uniform(0, 5), 1.0, 2.0, 0.5])
        M = [[None] * rows for _ in range(rows)]
        for i in range(rows):
            for j in range(i, rows):
                v = ent()
                if i == j and rng.random() < 0.7:
                    v = Fraction(0) if s == "q" else 0.0
                M[i][j] = M[j][i] = v
        integral = all(v not in (INF, -INF) and abs(v) < 2 ** 53 and float(v) == int(v) for r in M for v in r)
        if s == "q":
            M = [[ratstr(v) for v in r] for r in M]
        c = {"kind": "part", "s": s, "mode": rng.choice(["min", "max"]), "C": M}
        r = rng.random()
        if r > 0.92:
            # the direction given as another object: equal to one of the constants (True, 1.0, numpy integers) or to neither
            c["modeval"] = rng.choice(MODEVALS[c["mode"]] + (["2", "None", "'max'"] if rng.random() < 0.3 else []))
        if r < 0.35:
            forms = ["kw", "verbose", "view", "F"] + (["int"] if integral else []) + (["default"] if c["mode"] == "min" and not c.get("modeval") else [])
            c["form"] = rng.choice(forms)
        return c

    # ---- front ends
    def fe_table(self, rng, n, s):
        style = rng.randrange(4)
        def ent():
            if s == "q":
                return [Fraction(rng.randrange(0, 9)), Fraction(rng.randrange(-4, 12)), Fraction(rng.randrange(0, 64), 4),
                        Fraction(rng.choice([0, 1, 2, 3, 5, 8]))][style]
            return [rng.uniform(0, 10), rng.gauss(0, 3), rng.randrange(0, 100) / 10, rng.choice([0.1, 0.2, 0.5, 1.0, 2.5])][style]
        A = [[ent() for _ in range(n)] for _ in range(n)]
        return [[ratstr(v) for v in r] for r in A] if s == "q" else A

    def fe_grid(self):
        """every signature x parameter kind x call form on one fixed table (the combinations are the point, not the table)"""
        A = [["3", "1", "4", "1", "5", "9"], ["2", "6", "1", "3", "5", "8"], ["9", "7", "2", "1", "2", "8"],
             ["1", "8", "2", "8", "0", "4"], ["5", "9", "0", "4", "1", "2"], ["3", "5", "6", "2", "9", "1"]]
        out = []
        for sig in ("3", "4", "4d", "var", "obj", "nc"):
            for g in self.GLOBS_Q:
                for fam in ("offset", "scale", "thresh"):
                    for api, form in (("seg", "pos"), ("seg", "kw"), ("simp", "pos"), ("simp", "kw")):
                        for mode in ("min", "max"):
                            out.append({"kind": "fe", "api": api, "s": "q", "sig": sig, "fam": fam, "A": A, "glob": g,
                                        "dflt": ["int", 2], "mode": mode, "form": form})
            for g in self.GLOBS_T:
                for api in ("seg", "simp"):
                    out.append({"kind": "fe", "api": api, "s": "q", "sig": sig, "fam": "weights", "A": A, "glob": g,
                                "dflt": ["tuple", [1.0, 0.5]], "mode": "min", "form": "pos"})
            for smode in (7, 8):
                out.append({"kind": "fe", "api": "simplify", "s": "q", "sig": sig, "fam": "offset", "A": A, "glob": ["none"],
                            "dflt": ["int", 2], "mode": "min" if smode == 7 else "max", "form": "pos"})
        return out

    def rand_fe(self, rng):
        s = rng.choice(["q", "q", "f"])
        n = rng.choice([rng.randrange(3, 10), rng.randrange(4, 8), rng.randrange(0, 4)])
        fam = rng.choice(["offset", "offset", "scale", "thresh", "weights"])
        sig = rng.choice(["3", "4", "4", "4d", "4d", "4d", "var", "obj"] + (["nc"] if rng.random() < 0.1 else []))
        pool = self.GLOBS_T if fam == "weights" else (self.GLOBS_Q if s == "q" else self.GLOBS_F)
        g = rng.choice(pool)
        if rng.random() < 0.35:      # steer towards the accepted protocol with a falsy parameter
            g = rng.choice([x for x in pool if x[0] != "none" and not pyval(x, self.np)] or [g])
        d = rng.choice([x for x in pool if x[0] != "none"])
        if fam == "thresh" and s == "f":
            g = ["float", rng.choice([0.0, 1.0, 2.5, 5.0, INF])] if g[0] != "none" else g
        api = rng.choice(["seg", "seg", "simp", "simplify"])
        mode = rng.choice(["min", "max"])
        form = rng.choice(["pos", "pos", "kw", "defmode" if mode == "min" else "pos", "omit" if g[0] == "none" else "pos"])
        if api == "simplify":
            g, form = ["none"], rng.choice(["pos", "verbose", "collection"])   # collection: TrackCollection([t, t']).simplify(cost, mode)
        return {"kind": "fe", "api": api, "s": s, "sig": sig, "fam": fam, "A": self.fe_table(rng, n, s), "glob": g, "dflt": d,
                "mode": mode, "form": form}

    def rand_feseq(self, rng):
        """the same track and the same cost function, asked several times with other parameters / directions / entry points"""
        base = self.rand_fe(rng)
        while len(base["A"]) < 4 or base["sig"] in ("3", "nc"):
            base = self.rand_fe(rng)
        pool = self.GLOBS_T if base["fam"] == "weights" else (self.GLOBS_Q if base["s"] == "q" else self.GLOBS_F)
        if base["fam"] == "thresh" and base["s"] == "f":
            pool = [["none"]] + [["float", v] for v in (0.0, 1.0, 2.5, 5.0, INF)]
        calls = []
        for _ in range(rng.randrange(2, 5)):
            api = rng.choice(["seg", "seg", "simp", "simplify"])
            calls.append({"api": api, "glob": ["none"] if api == "simplify" else rng.choice(pool), "mode": rng.choice(["min", "max"]),
                          "form": "pos"})
        c = {x: base[x] for x in ("s", "sig", "fam", "A", "dflt")}
        c.update(kind="feseq", calls=calls)
        return c

    def subcases(self, case):
        return [dict({x: case[x] for x in ("s", "sig", "fam", "A", "dflt")}, kind="fe", **call) for call in case["calls"]]

    def rand_sb(self, rng):
        n = rng.choice([rng.randrange(3, 9), rng.randrange(5, 9), rng.randrange(0, 4)])
        pts, x, y = [], 0.0, 0.0
        for _ in range(n):
            x += rng.uniform(0.5, 3.0)
            y += rng.choice([rng.uniform(-0.05, 0.05), rng.uniform(-2, 2)])
            pts.append([x, y])
        tol = rng.choice([["none"], ["int", 0], ["float", 0.0], ["float", 0.0], ["float", -0.0], ["float", 0.05], ["float", 0.5],
                          ["float", 1.5], ["int", 1], ["float", -1.0], ["float", INF], ["npf", 0.0], ["bool", False]])
        return {"kind": "sb", "pts": pts, "tol": tol, "smode": rng.choice([4, 5, 6]), "form": rng.choice(["pos", "kw"])}

    def rand_stops(self, rng):
        if rng.random() < 0.25:
            return self.rand_rtk(rng)
        n = rng.choice([rng.randrange(4, 12), rng.randrange(4, 12), rng.randrange(3, 6), rng.randrange(8, 15)])
        dyadic = rng.random() < 0.4
        pts, x, y, t = [], 0.0, 0.0, 0
        for _ in range(n):
            if rng.random() < 0.6:
                if dyadic:
                    x += rng.randrange(-16, 17) / 8; y += rng.randrange(-16, 17) / 8
                else:
                    x += rng.choice([0, 1, -1, 2]); y += rng.choice([0, 1, -1])
            else:
                x += rng.randrange(10, 60); y += rng.randrange(-30, 30)
            t += rng.choice([1, 5, 10, 30])
            pts.append([x, y, t])
        c = {"kind": "stops", "pts": pts, "diameter": rng.choice([5, 10, 20] + ([2.5, 7.25] if dyadic else [])),
             "duration": rng.choice([0, 5, 10, 30] + ([7.5, 12.5] if dyadic else []))}
        # exact boundaries: the minimal duration is the duration of a group of the track, the maximal diameter the distance of two
        # of its fixes (when that distance is a dyadic number)
        if rng.random() < 0.4:
            i = rng.randrange(0, n - 1); e = rng.randrange(i + 1, min(n, i + 5))
            c["duration"] = pts[e][2] - pts[i][2]
        if rng.random() < 0.4:
            for _ in range(8):
                i = rng.randrange(0, n - 1); e = rng.randrange(i + 1, min(n, i + 4))
                q = Fraction(pts[e][0] - pts[i][0]) ** 2 + Fraction(pts[e][1] - pts[i][1]) ** 2
                r = Fraction(math.isqrt(q.numerator), math.isqrt(q.denominator))
                if q > 0 and r * r == q and q < 900:
                    c["diameter"] = float(r) if r.denominator != 1 else int(r)
                    break
        if rng.random() < 0.04:
            c["diameter"] = rng.choice([0, -1, 0.0])      # no circle is admitted but a point / nothing at all
        # the altitude channel: the documented size is that of the enclosing CIRCLE, planimetric — whatever the altitudes are
        if rng.random() < 0.6:
            c["z"] = self.rand_z(rng, n, c["diameter"], nan=True)
        r = rng.random()
        if r < 0.3 and n >= 6:
            # `downsampling > 1`: the criterion is evaluated on the temporal resampling of the track on size/downsampling points
            c["ds"] = rng.choice([x for x in (2, 2, 3, 1.5, 1.25) if n / x >= 4] or [1.25])
            if any(v == "nan" for v in c.get("z", [])) and rng.random() < 0.7:
                c["z"] = self.rand_z(rng, n, c["diameter"], nan=False)
        elif r < 0.4:
            c["ds"] = rng.choice([1, 1.0, 0.5, True])       # not > 1: the track itself (the identifiers are still multiplied)
        form = rng.choice(["pos", "pos", "kw", "verbose", "nods", "defaults"])
        if form == "nods" and "ds" in c:
            form = "kw"
        if form == "defaults":
            if rng.random() < 0.5 or "ds" in c:
                form = "pos"
            else:
                c["diameter"], c["duration"] = 20, 60     # the defaults of the signature
                if rng.random() < 0.7:                      # make the default duration reachable
                    k = rng.randrange(1, n)
                    for p in pts[k:]:
                        p[2] += 60
        if "ds" not in c and form in ("pos", "verbose") and rng.random() < 0.3:
            # the dispatcher findStops(track, spatial, temporal, MODE_STOPS_GLOBAL[, verbose]): `verbose` goes by keyword, findStopsGlobal's
            # `downsampling` keeps its default 1 (model: findStopsPy / dispatchDs); c["ds"] is the VERBOSE flag of this form;
            # "vdefault" = the argument is omitted (True)
            form = "dispatch"
            c["ds"] = rng.choice([True, False, False])
            if c["ds"] and rng.random() < 0.5:
                c["vdefault"] = True
        if form != "pos":
            c["form"] = form
        if rng.random() < 0.15 and len({(p[0], p[1]) for p in pts}) == n:
            # the same track object asked twice (state left by the first call); not with coincident fixes, which minCircle
            # moves by 1e-10 in the caller's track
            c["twice"] = True
        if FINDING_NANZ not in self.listed and any(v == "nan" for v in c.get("z", [])):
            # until the finding is listed: every stop that can be reported keeps one numeric altitude (a stop lasting > 0 s has
            # two fixes, no two consecutive altitudes are NaN, no interpolation between NaN altitudes)
            zs = c["z"]
            for k in range(len(zs)):
                if zs[k] == "nan" and (k % 2 == 1 or "ds" in c and c["ds"] > 1):
                    zs[k] = 12.5
            if c["duration"] == 0:
                c["duration"] = 5
        return c

    def rand_z(self, rng, n, diameter, nan):
        """altitudes: a noisy channel (jumps well above the diameter), a ramp, one jump inside the track, a constant, NaN"""
        d = max(float(diameter), 1.0)
        style = rng.choice(["noise", "noise", "ramp", "jump", "const"] + (["nan", "nanall"] if nan else []))
        if style == "noise":
            zs = [rng.randrange(-64, 65) / 8 * d for _ in range(n)]
        elif style == "ramp":
            s = rng.choice([0.125, 0.5, 2.0]) * d
            zs = [100.0 + k * s for k in range(n)]
        elif style == "jump":
            k = rng.randrange(1, n)
            zs = [50.0 if i < k else 50.0 + rng.choice([1.5, 3.0, -4.0]) * d for i in range(n)]
        elif style == "const":
            zs = [rng.choice([0.0, 250.5, -12.0])] * n
        elif style == "nan":
            zs = [("nan" if rng.random() < 0.4 else rng.randrange(-64, 65) / 8 * d) for _ in range(n)]
        else:
            zs = ["nan"] * n
        return zs

    def rand_rtk(self, rng):
        n = rng.randrange(4, 12)
        pts, x, y, t = [], 0.0, 0.0, 0
        for _ in range(n):
            if rng.random() < 0.7:
                x += rng.randrange(-8, 9) / 8; y += rng.randrange(-8, 9) / 8
            else:
                x += rng.randrange(5, 40); y += rng.randrange(-20, 20)
            t += rng.choice([1, 2, 5, 10])
            pts.append([x, y, t])
        c = {"kind": "stops", "rtk": True, "pts": pts, "std": rng.choice([0.25, 0.5, 1.0, 2.0]), "duration": rng.choice([0, 2, 5, 10])}
        if rng.random() < 0.5:
            # this variant measures in space (distanceTo, variance of z): small dyadic altitudes, some jumps
            c["z"] = [rng.choice([0.0, 0.125, -0.25, 0.5, 0.5, 1.0, rng.randrange(-40, 41) / 8]) for _ in range(n)]
        return c

    def describe(self, case):
        k = case["kind"]
        t = {"kind": k, "mode": case.get("mode", "-")}
        if k == "sym":
            t["N"] = case["N"]
        if k == "part":
            t["N"] = len(case["C"]) - 1
            t["scalar"] = case["s"]
            t["domain"] = case.get("dom", "in")
            t["form"] = case.get("form", "pos")
            t["modeval"] = case.get("modeval", "constant")
        if k == "fe":
            t["api"] = case["api"]
            t["sig"] = case["sig"]
            t["scalar"] = case["s"]
            t["fam"] = case["fam"]
            g = case["glob"]
            t["glob"] = "none" if g[0] == "none" else ("falsy " if not pyval(g, self.np) else "") + g[0]
            t["domain"] = "in" if self.fe_in_domain(case) else "out"
            t["size"] = len(case["A"])
            t["form"] = case.get("form", "pos")
        if k == "feseq":
            t["calls"] = len(case["calls"])
            t["sig"] = case["sig"]
        if k == "sb":
            t["smode"] = case["smode"]
            g = case["tol"]
            t["tol"] = "none" if g[0] == "none" else ("falsy " if not pyval(g, self.np) else "") + g[0]
        if k == "mc":
            t["points"] = len(case["pts"])
            t["form"] = case["form"]
            t["input"] = ("exact tie with a three-point circle (doubles decide: not compared)" if self.mc_tie(case) else
                          "a place met twice" if len({(x, y) for x, y, _ in case["pts"]}) < len(case["pts"]) else "distinct places")
        if k == "stops":
            g = self.geometry(case)
            t["criterion"] = "rtk variant (delegation only)" if case.get("rtk") else (
                "resampled track: a value too close to a threshold (skipped)" if g.get("unsure") else
                "exact tie with a threshold" if any(v for r in g["tie"] for v in r) else "no tie")
            zs = case.get("z")
            t["altitude"] = ("none (z = 0)" if not zs else "NaN" if any(v == "nan" for v in zs) else
                             "varies by more than the diameter" if max(zs) - min(zs) > float(case.get("diameter", 3 * case.get("std", 0))) else
                             "varies within the diameter")
            t["downsampling"] = str(case.get("ds", "omitted"))
            t["form"] = case.get("form", "pos") + (", second call on the same track" if case.get("twice") else "")
        return t

    def nontrivial(self, case):
        k = case["kind"]
        if k == "sym":
            return case["N"] >= 3
        if k in ("part", "partseq"):
            return len(case["C"]) - 1 >= 3 and not case.get("dom")
        if k == "mc":
            return len(case["pts"]) >= 3 and not self.mc_tie(case)
        if k == "stops":
            g = self.geometry(case)
            return len(g["R"]) >= 4 and not g.get("unsure") and any(v for r in g["R"] for v in r)
        if k == "fe":
            return len(case["A"]) - 1 >= 3 and self.fe_in_domain(case)
        if k == "feseq":
            return len(case["A"]) - 1 >= 3 and any(self.fe_in_domain(c) for c in self.subcases(case))
        if k == "sb":
            return len(case["pts"]) - 1 >= 3 and case["tol"][0] != "none" and self.sb_tables(case) is not None
        return True

    # ---------------------------------------------------------------- matrices
    def matrix(self, case):
        """(scalar kind, matrix of tokens/floats with rows = N + 1)"""
        if case["kind"] == "sym":
            N = case["N"]
            M = [["0"] * (N + 1) for _ in range(N + 1)]
            it = iter(case["vals"])
            for i in range(N):
                for j in range(i + 1, N):
                    M[i][j] = M[j][i] = next(it)
            return "q", M
        return case["s"], case["C"]

    def exact(self, s, M):
        return [[X(v) for v in r] for r in M]

    def track(self, n):
        t = self.Track([], 7)
        for i in range(n):
            t.addObs(self.Obs(self.ENU(float(i), 0.0, 0.0), self.T.readUnixTime(i)))
        return t

    def nparray(self, s, M, form=None):
        np = self.np
        C = np.array([[float(Fraction(v)) if s == "q" else float(v) for v in r] for r in M], dtype=float).reshape(len(M), len(M))
        if form == "int":
            C = C.astype(np.int64)
        elif form == "view":
            big = np.full((2 * len(M), 2 * len(M)), 777.0)
            big[::2, ::2] = C
            C = big[::2, ::2]
        elif form == "F":
            C = np.asfortranarray(C)
        return C

    # ---------------------------------------------------------------- front ends: cost functions
    def fe_in_domain(self, case):
        """the call the caller writes is one the cost function accepts, and there are at least two candidates"""
        g = case["glob"][0] == "none" or case["api"] == "simplify"     # simplify's free modes have no global parameter
        return len(case["A"]) >= 3 and case["sig"] in (ACCEPTS3 if g else ACCEPTS4)

    def make_cost(self, case):
        s, fam = case["s"], case["fam"]
        A = [[float(Fraction(v)) if s == "q" else float(v) for v in r] for r in case["A"]]
        d = pyval(case["dflt"], self.np)

        def val(i, e, p):
            return cost_value(fam, s, A[i][e + 1], e + 1 - i, p)
        sig = case["sig"]
        if sig == "3":
            def cost(track, i, j):
                return val(i, j, d)
        elif sig == "4":
            def cost(track, i, j, p):
                return val(i, j, p)
        elif sig == "4d":
            def cost(track, i, j, p=d):
                return val(i, j, p)
        elif sig == "var":
            def cost(track, i, j, *rest):
                return val(i, j, rest[0] if rest else d)
        elif sig == "obj":
            class Criterion:
                def __call__(self, track, i, j, p=d):
                    return val(i, j, p)
            cost = Criterion()
        elif sig == "nc":
            cost = 3.5
        else:
            raise ValueError(sig)
        return cost

    def fe_tables(self, case):
        """WD[i][j] = cost(track, i, j-1) (no fourth argument), WG[i][j] = cost(track, i, j-1, requested parameter): the
        cost function evaluated directly, cell by cell (cells the function does not accept stay 0: never read)"""
        n = len(case["A"])
        cost = self.make_cost(case)
        g = pyval(case["glob"], self.np)
        t = self.track(n)
        WD = [[0.0] * n for _ in range(n)]
        WG = [[0.0] * n for _ in range(n)]
        for i in range(n):
            for j in range(n):
                if case["sig"] in ACCEPTS3:
                    WD[i][j] = float(cost(t, i, j - 1))
                if case["sig"] in ACCEPTS4 and g is not None:
                    WG[i][j] = float(cost(t, i, j - 1, g))
        return WD, WG

    def requested_matrix(self, n, fn):
        """exact matrix of the requested criterion: entry (a, b), a < b <= n-2, is fn(a, b-1)"""
        Cx = [[Fraction(0)] * n for _ in range(n)]
        for a in range(max(n - 1, 0)):
            for b in range(a + 1, n - 1):
                Cx[a][b] = Cx[b][a] = X(fn(a, b - 1))
        return Cx

    # ---------------------------------------------------------------- implementation
    def impl(self, case):
        k = case["kind"]
        S, Z = self.S, self.Z
        if k == "mc":
            return self.mc_run(case)
        if k in ("sym", "part"):
            s, M = self.matrix(case)
            form = case.get("form")
            C = self.nparray(s, M, form)
            m = self.MODES[case["mode"]]
            if case.get("modeval"):
                m = eval(case["modeval"], {"np": self.np})
            if form == "default":
                r = S.optimalPartition(C, verbose=False)
            elif form == "kw":
                r = S.optimalPartition(cost_matrix=C, verbose=False, mode=m)
            elif form == "verbose":
                r = S.optimalPartition(C, m)
            else:
                r = S.optimalPartition(C, m, False)
            idx = [int(x) for x in r]
            # the caller still holds the matrix it built: a second request on the same object must be answered as well
            again = [int(x) for x in S.optimalPartition(C, m, False)]
            return {"idx": idx, "cost": self.cost_token(s, M, idx), "again": again}
        if k == "partseq":
            C = self.nparray(case["s"], case["C"])
            return {"seq": [[int(x) for x in S.optimalPartition(C, self.MODES[m], False)] for m in case["modes"]]}
        if k == "fe":
            t, cost = self.track(len(case["A"])), self.make_cost(case)
            self._alive.append((t, cost))      # never let an id() be recycled: a single-call case must not depend on earlier cases
            return self.run_fe(case, t, cost)
        if k == "feseq":
            # one track object, one cost-function object, several requests in a row (state left by earlier calls)
            t, cost = self.track(len(case["A"])), self.make_cost(case)
            self._alive.append((t, cost))
            outs = []
            for call in case["calls"]:
                try:
                    outs.append(self.run_fe(dict(case, kind="fe", **call), t, cost))
                except Exception as e:
                    import engine
                    outs.append({"err": engine.err_kind(e), "detail": str(e)[:200]})
            return {"seq": outs}
        if k == "sb":
            if self.sb_tables(case) is None:
                return {"err": "err:geometry", "detail": "tracklib's bounding-rectangle geometry fails on this track"}
            t = self.sb_track(case)
            self._alive.append(t)
            tol = pyval(case["tol"], self.np)
            if case.get("form") == "kw":
                r = Z.simplify(t, tolerance=tol, mode=case["smode"], verbose=False)
            else:
                r = Z.simplify(t, tol, case["smode"], False)
            xs = [p[0] for p in case["pts"]]
            return {"idx": [xs.index(r.getObs(i).position.getX()) for i in range(r.size())]}
        if k == "stops":
            return self.capture_stops(case)
        raise ValueError(k)

    def run_fe(self, case, t, cost):
        S, Z = self.S, self.Z
        g = pyval(case["glob"], self.np)
        m = self.MODES[case["mode"]]
        form = case.get("form", "pos")
        api = case["api"]
        rec = {}
        real = S.optimalPartition

        def spy(C, *a, **kw):       # the matrix the front end really hands over (correspondence of its construction)
            rec["matrix"] = self.mtok(case["s"], [[float(v) for v in row] for row in C.tolist()])
            return real(C, *a, **kw)
        S.optimalPartition = spy
        try:
            if api == "seg":
                if form == "kw":
                    r = S.optimalSegmentation(t, cost, verbose=False, mode=m, glob_param=g)
                elif form == "omit" and g is None:
                    r = S.optimalSegmentation(t, cost, mode=m, verbose=False)
                elif form == "defmode" and case["mode"] == "min":
                    r = S.optimalSegmentation(t, cost, g, verbose=False)
                else:
                    r = S.optimalSegmentation(t, cost, g, m, False)
                return {"idx": [int(x) for x in r], "matrix": rec.get("matrix")}
            if api == "simp":
                if form == "kw":
                    r = Z.optimalSimplification(t, cost, mode=m, eps=g, verbose=False)
                elif form == "defmode" and case["mode"] == "min":
                    r = Z.optimalSimplification(t, cost, g, verbose=False)
                else:
                    r = Z.optimalSimplification(t, cost, g, m, False)
            else:
                smode = Z.MODE_SIMPLIFY_FREE if case["mode"] == "min" else Z.MODE_SIMPLIFY_FREE_MAXIMIZE
                if form == "collection":
                    # core/track_collection.py: every track of the collection goes through simplify(track, cost, mode)
                    out = self.TrackCollection([t, self.track(t.size())]).simplify(cost, smode)
                    r = out[0]
                    both = [[int(o.getObs(i).position.getX()) for i in range(o.size())] for o in (out[0], out[1])]
                    if len(out) != 2 or both[0] != both[1]:
                        return {"idx": both[0], "second": both[1], "matrix": rec.get("matrix")}
                else:
                    r = Z.simplify(t, cost, smode) if form == "verbose" else Z.simplify(t, cost, smode, False)
        finally:
            S.optimalPartition = real
        return {"idx": [int(r.getObs(i).position.getX()) for i in range(r.size())], "matrix": rec.get("matrix")}

    def sb_track(self, case):
        t = self.Track([], 7)
        for i, (x, y) in enumerate(case["pts"]):
            t.addObs(self.Obs(self.ENU(float(x), float(y), 0.0), self.T.readUnixTime(i)))
        return t

    def sb_tables(self, case):
        """the module's own cost function of the mode, evaluated with the requested tolerance (cell (i, j) = cost(track, i, j-1,
        tolerance)); None when tracklib's geometry fails on this track — the convex hull of the bounding rectangle loops for
        ever on some collinear configurations, a vertical hull edge divides by zero — which is not this property: the case is
        then outside the domain and the implementation is not even run"""
        key = json.dumps(case, sort_keys=True)
        if key in self._sb:
            return self._sb[key]
        import signal
        n = len(case["pts"])
        tol = pyval(case["tol"], self.np)
        t = self.sb_track(case)
        f = self.BUILTIN[case["smode"]]
        W = [[0.0] * n for _ in range(n)]

        def alarm(*a):
            raise TimeoutError("built-in cost function does not return")
        old = signal.signal(signal.SIGALRM, alarm)
        signal.setitimer(signal.ITIMER_REAL, 2.0)
        try:
            for i in range(n):
                for j in range(i, n):
                    W[i][j] = float(f(t, i, j - 1, 0.25 if tol is None else tol))
            if tol is None:
                W = [[0.0] * n for _ in range(n)]
        except BaseException as e:
            if isinstance(e, KeyboardInterrupt):
                raise
            W = None
        finally:
            signal.setitimer(signal.ITIMER_REAL, 0)
            signal.signal(signal.SIGALRM, old)
        if len(self._sb) > 4000:
            self._sb.clear()
        self._sb[key] = W
        return W

    def stops_track(self, case):
        t = self.Track([], 7)
        zs = case.get("z")
        for k, (x, y, ts) in enumerate(case["pts"]):
            t.addObs(self.Obs(self.ENU(float(x), float(y), float(zs[k]) if zs else 0.0), self.T.readUnixTime(ts)))
        return t

    def resampled(self, case):
        """`downsampling > 1`: the track the function works on, `track ** (track.size() / downsampling)` as its source says
        (temporal resampling on that number of points: tracklib's own, not this property), else None"""
        ds = case.get("ds", 1)
        if case.get("rtk") or not ds > 1:
            return None
        t = self.stops_track(case)
        return t ** (t.size() / ds)

    def eff_points(self, case):
        """exact (x, y, z, t) of the observations the criterion is evaluated on (z = None for NaN) and whether they are the
        caller's own (small integers / dyadic numbers on which the doubles of the code are exact) or interpolated ones"""
        r = self.resampled(case)
        if r is None:
            zs = case.get("z")
            return [(Fraction(p[0]), Fraction(p[1]), (None if zs and zs[k] == "nan" else Fraction(zs[k]) if zs else Fraction(0)), Fraction(p[2]))
                    for k, p in enumerate(case["pts"])], True
        out = []
        for o in r:
            z = o.position.getZ()
            out.append((Fraction(o.position.getX()), Fraction(o.position.getY()), None if z != z else Fraction(z),
                        Fraction(o.timestamp.toAbsTime())))
        return out, False

    def capture_stops(self, case):
        """run findStopsGlobal, recording the delegation (matrix, mode, result of optimalPartition), the segments for which
        tracklib's minCircle returned None (geometry is a parameter of the model) and the stops reported"""
        t = self.stops_track(case)
        eff = self.resampled(case)
        eff = t if eff is None else eff
        # extract() shares the observations of the track the function works on (its own resampled copy when downsampling > 1):
        # a segment is recognised by the time of its first observation (strictly increasing)
        where = {eff.getObs(i).timestamp.toAbsTime(): i for i in range(eff.size())}
        rec = {"none": [], "none_after": [], "loose": [], "loose_after": []}
        real = self.S.optimalPartition
        real_mc = self.S.minCircle

        def spy(C, mode=self.S.MODE_SEGMENTATION_MINIMIZE, verbose=True):
            r = real(C, mode, verbose)
            rec["C"] = [[float(v) for v in row] for row in C.tolist()]
            rec["mode"] = int(mode)
            rec["idx"] = [int(x) for x in r]
            return r

        def spy_mc(tr):
            c = real_mc(tr)
            if c is None:
                i = where[tr.getObs(0).timestamp.toAbsTime()]
                (rec["none_after"] if "C" in rec else rec["none"]).append([i, i + tr.size() - 1])
            elif tr.size() > 0:
                # a circle that leaves a fix of the segment clearly outside (1e-9 relative: far above rounding and above the
                # 1e-10 by which __circle moves coincident fixes) is not an enclosing circle
                cx, cy, r = float(c.center.getX()), float(c.center.getY()), float(c.radius)
                if any(math.hypot(o.position.getX() - cx, o.position.getY() - cy) > r * (1 + 1e-9) + 1e-9 for o in tr):
                    i = where[tr.getObs(0).timestamp.toAbsTime()]
                    (rec["loose_after"] if "C" in rec else rec["loose"]).append([i, i + tr.size() - 1, 2 * r])
            return c
        # minCircle draws from the global `random`: make the run a function of the case
        import random as _random, zlib as _zlib
        state = _random.getstate()
        _random.seed(case.get("rseed", _zlib.crc32(json.dumps(case, sort_keys=True).encode())))
        self.S.optimalPartition = spy
        self.S.minCircle = spy_mc
        try:
            form = case.get("form", "pos")
            if case.get("twice") and not case.get("rtk"):
                self.S.optimalPartition, self.S.minCircle = real, real_mc
                try:
                    self.S.findStopsGlobal(t, case["diameter"], case["duration"], case.get("ds", 1), False)
                except ZeroDivisionError:
                    pass
                self.S.optimalPartition, self.S.minCircle = spy, spy_mc
            if case.get("rtk"):
                stops = self.S.findStopsGlobalForRTK(t, case["std"], case["duration"], 1, False)
            elif form == "dispatch":
                if case.get("vdefault") and case.get("ds", True) is True:
                    stops = self.S.findStops(t, case["diameter"], case["duration"], self.S.MODE_STOPS_GLOBAL)
                else:
                    stops = self.S.findStops(t, case["diameter"], case["duration"], self.S.MODE_STOPS_GLOBAL, bool(case.get("ds", True)))
            elif form == "kw":
                stops = self.S.findStopsGlobal(verbose=False, downsampling=case.get("ds", 1), duration=case["duration"],
                                               diameter=case["diameter"], track=t)
            elif form == "verbose":
                stops = self.S.findStopsGlobal(t, case["diameter"], case["duration"], case.get("ds", 1))
            elif form == "nods" and "ds" not in case:
                stops = self.S.findStopsGlobal(t, case["diameter"], case["duration"], verbose=False)
            elif form == "defaults" and "ds" not in case and (case["diameter"], case["duration"]) == (20, 60):
                stops = self.S.findStopsGlobal(t, verbose=False)
            else:
                stops = self.S.findStopsGlobal(t, case["diameter"], case["duration"], case.get("ds", 1), False)
        except ZeroDivisionError as e:
            # raised AFTER the delegation (statistics of a stop): what the property is about — the matrix, the answer of
            # optimalPartition — is still judged; the exception itself is reported by the oracle
            if "C" not in rec or case.get("rtk"):
                raise
            rec["raised_after"] = "err:zerodiv (%s)" % str(e)[:80]
            stops = None
        finally:
            self.S.optimalPartition = real
            self.S.minCircle = real_mc
            _random.setstate(state)
        if "C" not in rec:
            raise ValueError("findStopsGlobal did not call optimalPartition")
        rec["stops"] = []
        if stops is not None and stops.size() > 0:
            a, b = stops.getAnalyticalFeature("id_ini"), stops.getAnalyticalFeature("id_end")
            if case.get("rtk"):
                rec["stops"] = [[int(x), int(y)] for x, y in zip(a, b)]
            else:
                num = lambda v: int(v) if float(v) == int(v) else float(v)
                rec["stops"] = [[num(x), num(y), int(m)] for x, y, m in zip(a, b, stops.getAnalyticalFeature("nb_points"))]
        return rec

    def cost_token(self, s, M, idx):
        if s == "q":
            return ratstr(chain_cost(self.exact(s, M), idx))
        c = 0.0
        for a, b in zip(idx, idx[1:]):
            c += float(M[a][b])
        return c

    # ---------------------------------------------------------------- stop detection: exact geometry
    def geometry(self, case):
        key = json.dumps(case, sort_keys=True)
        g = self._geo.get(key)
        if g is not None:
            return g
        eff, own = self.eff_points(case)
        pts = [(p[0], p[1]) for p in eff]
        ts = [p[3] for p in eff]
        n = len(pts)
        du = Fraction(case["duration"])
        dur = [[ts[e] - ts[i] for e in range(n)] for i in range(n)]
        num = None
        unsure = False
        if case.get("rtk"):
            # the RTK variant measures in space: 3D distance, variance over the three axes
            pts = [(p[0], p[1], p[2]) for p in eff]
            # findStopsGlobalForRTK: same loops, `far` = distance > 3 std_max, `short` = dt <= duration,
            # `small` = sqrt(var_x + var_y + var_z) < std_max
            sd = Fraction(case["std"])

            def var(i, e):
                m = e - i + 1
                return sum(sum(p[a] * p[a] for p in pts[i:e + 1]) / m - (sum(p[a] for p in pts[i:e + 1]) / m) ** 2 for a in (0, 1, 2))
            v = [[var(i, e) if e >= i else None for e in range(n)] for i in range(n)]
            far = [[int(d2(pts[i], pts[e]) + (pts[i][2] - pts[e][2]) ** 2 > 9 * sd * sd) for e in range(n)] for i in range(n)]
            short = [[int(dur[i][e] <= du) for e in range(n)] for i in range(n)]
            small = [[int(e >= i and v[i][e] < sd * sd) for e in range(n)] for i in range(n)]
            fuzzy = [[int(e >= i and v[i][e] == sd * sd) for e in range(n)] for i in range(n)]   # a double sqrt decides
            tie = [[int(e >= i and (fuzzy[i][e] or dur[i][e] == du)) for e in range(n)] for i in range(n)]
        else:
            # findStopsGlobal, documented criterion (the tests of the code since 026cb79): C_ij = 0 if the enclosing circle of
            # p_i..p_{j-1} is > diameter, 0 if the duration is < duration, (j-i)^2 otherwise
            d = Fraction(case["diameter"])
            r2, centres = mec_tables(pts)
            far = [[int(d2(pts[i], pts[e]) > d * d) for e in range(n)] for i in range(n)]
            short = [[int(dur[i][e] < du) for e in range(n)] for i in range(n)]
            small = [[int(e >= i and 4 * r2[i][e] <= d * d) for e in range(n)] for i in range(n)]
            # a circle through three or more distinct fixes whose exact diameter IS the limit: the doubles of minCircle's
            # circumcircle decide (two fixes exactly `diameter` apart are exact: radius = distance / 2)
            fuzzy = [[int(e >= i and 4 * r2[i][e] == d * d and len(set(pts[i:e + 1])) >= 3) for e in range(n)] for i in range(n)]
            tie = [[int(e >= i and (4 * r2[i][e] == d * d or dur[i][e] == du or d2(pts[i], pts[e]) == d * d)) for e in range(n)] for i in range(n)]
            if d < 0:            # every distance, every circle exceeds a negative diameter
                far = [[1] * n for _ in range(n)]
                small = [[0] * n for _ in range(n)]
            num = {"diam2": d * d, "duration": du, "dist2": [[Fraction(d2(pts[i], pts[e])) for e in range(n)] for i in range(n)],
                   "dur": dur, "circ2": [[4 * r2[i][e] if e >= i else Fraction(0) for e in range(n)] for i in range(n)],
                   "centres": centres}
            if not own:
                # interpolated coordinates and times: the doubles of the code (sqrt of a rounded sum, Welzl's circumcentre, a
                # difference of two absolute times) are not the exact values; a value within 1e-9 of its threshold is undecided
                # and the case is left out of the judgement
                near = lambda v, lim: abs(v - lim) <= Fraction(1, 10 ** 9) * max(abs(lim), 1)
                unsure = any(near(num["dist2"][i][e], d * d) or near(num["circ2"][i][e], d * d) or near(dur[i][e], du)
                             for i in range(n) for e in range(i, n))
        # the reward. findStopsGlobal: the DOCUMENTED one — C_ij = 0 if the enclosing circle of p_i..p_{j-1} is > diameter, 0 if
        # the duration is < duration, (j-i)^2 otherwise; no other test (the early exit of the code's row loop on a far end point
        # is a shortcut that planimetric geometry justifies: theorem stops_criterion). RTK variant (no documented criterion
        # checked): the row loop as written, which stops at the first far end point.
        R = [[0] * n for _ in range(n)]
        for i in range(max(n - 2, 0)):
            for j in range(i + 1, n - 1):
                e = j - 1
                if far[i][e] and case.get("rtk"):
                    break
                if small[i][e] and not short[i][e]:
                    R[i][j] = R[j][i] = (j - i) ** 2
        if case.get("rtk"):
            keep = [[int(e + 1 < n and R[i][e + 1] != 0) for e in range(n)] for i in range(n)]
        else:
            keep = [[int(e >= i and d >= 0 and 4 * r2[i][e] <= d * d and dur[i][e] >= du) for e in range(n)] for i in range(n)]
        g = {"far": far, "short": short, "small": small, "keep": keep, "tie": tie, "fuzzy": fuzzy, "R": R, "num": num,
             "unsure": unsure, "eff": eff, "n": n}
        if len(self._geo) > 4000:
            self._geo.clear()
        self._geo[key] = g
        return g

    # ---------------------------------------------------------------- model
    def mtok(self, s, M):
        if s == "q":
            return ";".join(",".join(ratstr(Fraction(v)) if not isinstance(v, str) else v for v in r) for r in M) or "_"
        return ";".join(",".join(fbits(v) for v in r) for r in M) or "_"

    def btok(self, M):
        return ";".join(",".join(str(int(v)) for v in r) for r in M) or "_"

    def requests(self, case):
        k = case["kind"]
        if k == "mc":
            return ["C12.mincircle q 1/10000 %s %s" % (
                ";".join(",".join(ratstr(Fraction(v)) for v in p) for p in case["pts"]) or "_",
                ",".join(str(d) for d in case["draws"]))]
        if k in ("sym", "part"):
            s, M = self.matrix(case)
            m = 2 if case.get("modeval") in NEITHER else int(self.MODES[case["mode"]])
            reqs = ["C12.part %s %d %s" % (s, m, self.mtok(s, M))]
            if len(M) <= 10:   # the function form (un-memoised recursion, exponential) is cross-checked up to N = 9
                reqs.append("C12.opt %s %d %s" % (s, m, self.mtok(s, M)))
            return reqs
        if k == "partseq":
            return ["C12.part %s %d %s" % (case["s"], int(self.MODES[m]), self.mtok(case["s"], case["C"])) for m in case["modes"]]
        if k == "fe":
            WD, WG = self.fe_tables(case)
            s = case["s"]
            cmd = {"seg": "segpy", "simp": "simppy", "simplify": "simplify"}[case["api"]]
            if case["api"] == "simplify" and case.get("form") == "collection":
                cmd = "simplifyc"
            m = int(self.MODES[case["mode"]])
            if case["api"] == "simplify":
                m = 7 if case["mode"] == "min" else 8
            reqs = ["C12.%s %s %d %s %s %s %s" % (cmd, s, m, MODEL_SIG[case["sig"]], "none" if case["glob"][0] == "none" else "some",
                                                  self.mtok(s, WD), self.mtok(s, WG))]
            if self.fe_in_domain(case):
                # the matrix construction on its own: loop form of the model against numpy's result, see decode/compare
                reqs.append("C12.matrix %s %s" % (s, self.mtok(s, WD if case["glob"][0] == "none" else WG)))
            return reqs
        if k == "feseq":
            return [self.requests(c)[0] for c in self.subcases(case)]
        if k == "sb":
            W = self.sb_tables(case)
            if W is None:
                return []
            return ["C12.simplify f %d 4 %s %s %s" % (case["smode"], "none" if case["tol"][0] == "none" else "some",
                                                      self.mtok("f", W), self.mtok("f", W))]
        if k == "stops":
            g = self.geometry(case)
            if g.get("unsure"):
                return []
            cap = self.run_capture(case)
            small = [list(r) for r in g["small"]]
            keep = [list(r) for r in g["keep"]]
            n = len(small)
            have = "C" in cap and len(cap["C"]) == n
            # where the exact value sits on the threshold and doubles decide (`fuzzy`), whether the size is admitted is geometry
            # (a parameter of the model): read it off the run
            adm = {(i, e): int(cap["C"][i][e + 1] != 0) for i in range(n) for e in range(i, n - 1) if g["fuzzy"][i][e]} if have else {}
            for (i, e), a in adm.items():
                small[i][e] = keep[i][e] = a
            if case.get("rtk"):
                return ["C12.stops q %s %s %s %s" % (self.btok(g["far"]), self.btok(g["short"]), self.btok(small), self.btok(keep))]
            # findStopsGlobal from the caller's arguments: the model chooses the track (downsampling), computes the squared
            # planimetric distances and the durations from the observations and applies the three tests and the final filter
            # itself; minCircle's circles (squared diameters, exact) and the resampled track are its parameters. A NaN altitude
            # is sent as 0: the model never reads z (theorem stops_planimetric).
            num = g["num"]
            circ = [list(r) for r in num["circ2"]]
            for (i, e), a in adm.items():
                circ[i][e] = num["diam2"] if a else num["diam2"] + 1
            after = [list(r) for r in circ]
            # where tracklib's minCircle returned a circle that does not enclose the segment, the size the code compared is
            # that circle's (geometry is a parameter of the model): read off the run, as for None
            for (i, e, two_r) in (cap.get("loose") or []):
                circ[i][e] = Fraction(two_r) ** 2
            for (i, e, two_r) in (cap.get("loose_after") or []):
                after[i][e] = Fraction(two_r) ** 2
            for (i, e) in (cap.get("none") or []):
                circ[i][e] = Fraction(-1)
            for (i, e) in (cap.get("none_after") or []):
                after[i][e] = Fraction(-1)
            row = lambda p: [p[0], p[1], Fraction(0) if p[2] is None else p[2], p[3]]
            own, _ = self.eff_points(dict(case, ds=1))
            ds = case.get("ds", 1)
            # centres of the circles: the driver checks that every circle handed over encloses its segment (enclosedB), which
            # is the hypothesis of stops_criterion / find_stops_global
            cen = num["centres"]
            return ["C12.stopsd q %s %s %s %s %s %s %s %s %s" % (
                ratstr(Fraction(case["diameter"])), ratstr(num["duration"]),
                ("v1" if ds else "v0") if case.get("form") == "dispatch" else ratstr(Fraction(ds)), self.mtok("q", [row(p) for p in own]),
                self.mtok("q", [row(p) for p in g["eff"]]) if ds > 1 else "_", self.mtok("q", circ), self.mtok("q", after),
                self.mtok("q", [[c[0] for c in r] for r in cen]), self.mtok("q", [[c[1] for c in r] for r in cen]))]

    def run_capture(self, case):
        import engine
        return engine.run_impl(self, case)

    def decode(self, case, replies):
        k = case["kind"]
        if k == "sb" and not replies:
            return {"err": "err:geometry"}
        if k == "stops" and not replies:
            return {"skipped": "a value too close to a threshold on an interpolated track"}
        r = replies[0]
        if any(x == "bad-request" for x in replies):
            raise ValueError("bad-request")
        if k == "mc":
            if r == "none":
                return {"res": "none"}
            if r in ("random", "stuck"):
                return {"err": "model:" + r}
            cx, cy, r2, n, enc = r.split(" ")
            return {"c": [float(Fraction(cx)), float(Fraction(cy)), float(Fraction(r2))], "draws": int(n), "enc": enc == "1", "r2": r2}
        if k == "partseq":
            return {"seq": [[int(x) for x in rr.split(" ")[0].split(",")] for rr in replies]}
        if k == "feseq":
            return {"seq": [{"err": rr} if rr.startswith("err:") else {"idx": [] if rr == "_" else [int(x) for x in rr.split(",")]}
                            for rr in replies]}
        if r.startswith("err:"):
            return {"err": r}
        if k in ("sym", "part"):
            s, _ = self.matrix(case)
            idx, d = r.split(" ")
            if len(replies) > 1 and replies[1] != d:
                raise ValueError("table form D[0,N-1]=%s differs from function form opt=%s" % (d, replies[1]))
            return {"idx": [int(x) for x in idx.split(",")], "cost": d if s == "q" else bitsf(d),
                    "again": [int(x) for x in idx.split(",")]}
        if k == "stops":
            mat, idx, st = r.split(" ")[:3]
            if not case.get("rtk") and r.split(" ")[3] != "1" and not self.run_capture(case).get("loose"):
                # (with a non-enclosing circle of tracklib's minCircle handed over as such, the certificate rightly fails)
                raise ValueError("a circle handed to the model does not enclose its segment (enclosedB = %s)" % r.split(" ")[3])
            out = {"C": [[Fraction(v) for v in row.split(",")] for row in mat.split(";")],
                   "idx": [int(x) for x in idx.split(",")]}
            if case.get("rtk"):
                out["stops"] = [] if st == "_" else [[int(x) for x in p.split("-")] for p in st.split(",")]
            else:
                # a-e:id_ini:id_end:nb_points
                items = [] if st == "_" else [p.split(":") for p in st.split(",")]
                out["segments"] = [[int(x) for x in it[0].split("-")] for it in items]
                out["stops"] = [[Fraction(it[1]), Fraction(it[2]), int(it[3])] for it in items]
            return out
        if k == "fe" and "|" in r:
            a, b = r.split("|")          # collectionSimplifyFree on two equal tracks
            if a != b:
                return {"idx": [] if a == "_" else [int(x) for x in a.split(",")], "second": b}
            r = a
        out = {"idx": [] if r == "_" else [int(x) for x in r.split(",")]}
        if k == "fe" and len(replies) > 1:
            out["matrix"] = replies[1]
        return out

    def same_value(self, case, Cx, a, b, rel):
        N = len(Cx) - 1
        if not (is_chain(a, N) and is_chain(b, N)):
            return False
        ca, cb = chain_cost(Cx, a), chain_cost(Cx, b)
        if not (finite(ca) and finite(cb)):
            return ca == cb or (isnan(ca) and isnan(cb))
        return abs(ca - cb) <= Fraction(rel) * (chain_abs(Cx, a) + chain_abs(Cx, b)) if rel else ca == cb

    def compare(self, case, impl_out, model_out):
        k = case["kind"]
        if k == "fe" and ("second" in impl_out or "second" in model_out):
            return "TrackCollection.simplify: the two equal tracks of the collection are simplified differently: implementation %s / %s, model %s / %s" % (
                impl_out.get("idx"), impl_out.get("second"), model_out.get("idx"), model_out.get("second"))
        if k == "mc":
            if model_out.get("enc") and case["pts"]:
                # theorem mincircle_enclosing_is_minimal, checked on the model's run against the harness's own exact geometry
                # (largest minimal circle over all triples): an enclosing answer has THE minimal squared radius
                want = mec_r2([(Fraction(x), Fraction(y)) for x, y, _ in case["pts"]])
                if Fraction(model_out["r2"]) != want:
                    raise AssertionError("model: enclosing answer of squared radius %s, minimal enclosing circle %s" % (model_out["r2"], want))
            if self.mc_tie(case):
                return None
            if "err" in impl_out or "err" in model_out:
                return "minCircle: implementation %s, model %s" % (impl_out, model_out)
            if ("res" in impl_out) != ("res" in model_out):
                return "minCircle: implementation %s, model %s" % (impl_out, model_out)
            if "res" in impl_out:
                return None
            if impl_out["draws"] != model_out["draws"]:
                return "minCircle: %d random draws made, model %d" % (impl_out["draws"], model_out["draws"])
            for a, b, w in zip(impl_out["c"], model_out["c"], ("centre x", "centre y", "squared radius")):
                if abs(a - b) > 1e-9 * max(1.0, abs(a), abs(b)):
                    return "minCircle: %s %r, model %r" % (w, a, b)
            return None
        if case.get("dom"):
            return None   # single/no candidate, asymmetric matrix: outside the property's domain, behaviour left free
        if k == "feseq" and "seq" in impl_out:
            for n, (sub, a, b) in enumerate(zip(self.subcases(case), impl_out["seq"], model_out["seq"])):
                r = self.compare(sub, a, b)
                if r:
                    return "call %d: %s" % (n + 1, r)
            return None
        if "err" in impl_out or "err" in model_out:
            if impl_out.get("err") == model_out.get("err"):
                return None
            return "impl=%s model=%s" % ({x: impl_out[x] for x in impl_out if x != "C"}, model_out)
        if k in ("sym", "part"):
            s, M = self.matrix(case)
            if s == "q":
                same_cost = Fraction(impl_out["cost"]) == Fraction(model_out["cost"])
            else:
                a, b = float(impl_out["cost"]), float(model_out["cost"])
                same_cost = a == b or abs(a - b) <= 1e-9 * max(1.0, abs(a), abs(b))
            rel = 0 if s == "q" else 1e-9
            if impl_out["again"] != model_out["again"] and not self.same_value(case, self.exact(s, M), impl_out["again"], model_out["again"], rel):
                return "second call on the same matrix object: impl=%s model=%s" % (impl_out["again"], model_out["again"])
            if impl_out["idx"] == model_out["idx"] and same_cost:
                return None
            # a different chain of the same cost is a tie-break difference, which the property leaves free
            if same_cost and is_chain(impl_out["idx"], len(M) - 1):
                return None
            return "impl=%s model=%s" % (impl_out, model_out)
        if k == "partseq":
            if impl_out["seq"] == model_out["seq"]:
                return None
            Cx = self.exact(case["s"], case["C"])
            for a, b in zip(impl_out["seq"], model_out["seq"]):
                if a != b and not self.same_value(case, Cx, a, b, 0 if case["s"] == "q" else 1e-9):
                    return "impl=%s model=%s" % (impl_out["seq"], model_out["seq"])
            return None
        if k == "stops":
            g = self.geometry(case)
            if g.get("unsure"):
                return None
            if [[Fraction(v) for v in r] for r in impl_out["C"]] != model_out["C"]:
                return "reward matrix: impl=%s model=%s" % (impl_out["C"], [[float(v) for v in r] for r in model_out["C"]])
            if impl_out["idx"] != model_out["idx"] and not self.same_value(case, model_out["C"], impl_out["idx"], model_out["idx"], 0):
                return "segmentation: impl=%s model=%s" % (impl_out["idx"], model_out["idx"])
            if impl_out["idx"] == model_out["idx"] and not impl_out.get("raised_after"):
                # the stops reported, except segments on the boundary of the final filter (float radius against diameter/2)
                # and segments whose circle tracklib could not compute
                skip = {(a, e) for a in range(len(g["fuzzy"])) for e in range(len(g["fuzzy"])) if g["fuzzy"][a][e]}
                if case.get("rtk"):
                    skip |= {tuple(x) for x in impl_out.get("none_after", [])}
                    a = [x for x in impl_out["stops"] if tuple(x) not in skip]
                    b = [x for x in model_out["stops"] if tuple(x) not in skip]
                else:
                    # (id_ini, id_end, nb_points) of every stop; a segment on the boundary of the final filter is identified by
                    # the identifiers the model gives it
                    ds = Fraction(1) if case.get("form") == "dispatch" else Fraction(case.get("ds", 1))
                    ids = {(i * ds, e * ds) for (i, e) in skip}
                    a = [[Fraction(x[0]), Fraction(x[1]), x[2]] for x in impl_out["stops"]]
                    a = [x for x in a if (x[0], x[1]) not in ids]
                    b = [x for x in model_out["stops"] if (x[0], x[1]) not in ids]
                if a != b:
                    return "stops reported (id_ini, id_end, nb_points): impl=%s model=%s" % (
                        impl_out["stops"], [[float(v) for v in x] for x in model_out["stops"]])
            return None
        if k == "fe" and "matrix" in model_out and model_out["matrix"] != impl_out.get("matrix"):
            return "matrix construction: impl=%s model=%s" % (impl_out.get("matrix"), model_out["matrix"])
        if impl_out["idx"] == model_out["idx"]:
            return None
        # front ends: same rule, the value of both selections under the requested criterion
        Cx, rel = self.criterion(case)
        if Cx is not None and self.same_value(case, Cx, impl_out["idx"], model_out["idx"], rel):
            return None
        return "impl=%s model=%s" % (impl_out["idx"], model_out["idx"])

    # ---------------------------------------------------------------- oracle (transfer)
    def criterion(self, case):
        """(exact matrix of the criterion the CALLER requested, tolerance), recomputed from the cost function and the
        requested parameter — never from what the code passed down; (None, _) outside the domain"""
        k = case["kind"]
        if k == "fe":
            if not self.fe_in_domain(case):
                return None, 0
            n = len(case["A"])
            cost = self.make_cost(case)
            g = pyval(case["glob"], self.np)
            t = self.track(n)
            fn = (lambda a, e: cost(t, a, e)) if g is None else (lambda a, e: cost(t, a, e, g))
            return self.requested_matrix(n, fn), (0 if case["s"] == "q" else 1e-9)
        if k == "sb":
            tol = pyval(case["tol"], self.np)
            n = len(case["pts"])
            W = self.sb_tables(case)     # the module's own cost function with the requested tolerance
            if tol is None or n < 3 or W is None:
                return None, 0
            return self.requested_matrix(n, lambda a, e: W[a][e + 1]), 1e-9
        raise ValueError(k)

    def spec(self, case, out):
        k = case["kind"]
        if case.get("dom"):
            return None
        if k == "mc":
            # the property states nothing about minCircle by itself (its effect on findStopsGlobal is judged in the `stops`
            # stream against the documented criterion): this stream is a correspondence of the routine with its model only
            return None
        if k == "feseq":
            if "seq" not in out:
                return "raised %s (%s)" % (out.get("err"), out.get("detail"))
            for n, (sub, o) in enumerate(zip(self.subcases(case), out["seq"])):
                r = self.spec(sub, o)
                if r:
                    return "call %d (%s, parameter %s, %s) on the same track and cost function: %s" % (
                        n + 1, sub["api"], sub["glob"][1:], sub["mode"], r)
            return None
        if k in ("fe", "sb"):
            Cx, rel = self.criterion(case)
            if Cx is None:
                return None
            if "err" in out:
                return "raised %s (%s) for a call the cost function accepts" % (out["err"], out.get("detail"))
            return oracle(Cx, len(Cx) - 1, case.get("mode", "min") == "max", out["idx"], rel,
                          "summed cost for the requested parameter %s" % (case.get("glob") or case.get("tol"))[1:])
        if k == "stops" and self.geometry(case)["n"] < 3:
            return None       # fewer than two candidates on the (resampled) track: outside the property's domain
        if "err" in out:
            return "raised %s (%s)" % (out["err"], out.get("detail"))
        if k in ("sym", "part"):
            s, M = self.matrix(case)
            if case.get("modeval") in NEITHER:
                return None if is_chain(out["idx"], len(M) - 1) else "result %s is not a strictly increasing list from 0 to %d" % (out["idx"], len(M) - 2)
            r = oracle(self.exact(s, M), len(M) - 1, case["mode"] == "max", out["idx"], 0 if s == "q" else 1e-9)
            if r is None:
                r = oracle(self.exact(s, M), len(M) - 1, case["mode"] == "max", out["again"], 0 if s == "q" else 1e-9)
                r = r and "second call on the same matrix object: " + r
            return r
        if k == "partseq":
            Cx = self.exact(case["s"], case["C"])
            for n, (m, idx) in enumerate(zip(case["modes"], out["seq"])):
                r = oracle(Cx, len(Cx) - 1, m == "max", idx, 0 if case["s"] == "q" else 1e-9)
                if r:
                    return "call %d (%s) on the same matrix object: %s" % (n + 1, m, r)
            return None
        if k == "stops":
            g = self.geometry(case)
            n = g["n"]
            if g.get("unsure"):
                return None       # interpolated track with a value within 1e-9 of a threshold: doubles decide, not judged
            if out["mode"] != int(self.S.MODE_SEGMENTATION_MAXIMIZE):
                return "findStopsGlobal delegates with mode %s instead of MAXIMIZE" % out["mode"]
            if case.get("rtk"):
                # the RTK variant is outside the property's anchors: only the delegation (a symmetric matrix, MAXIMIZE, an optimal
                # answer for the matrix passed); its matrix construction is compared with the model (correspondence)
                Cx = [[Fraction(v) for v in r] for r in out["C"]]
                if any(Cx[a][b] != Cx[b][a] for a in range(len(Cx)) for b in range(len(Cx))):
                    return "findStopsGlobalForRTK passes an asymmetric matrix"
                return oracle(Cx, len(Cx) - 1, True, out["idx"], 0, "summed reward")
            # The documented reward recomputed from the track, cell by cell; the cell passed must hold exactly that, except
            # (a) where doubles decide a circle whose exact diameter is the limit (`fuzzy`: both values accepted) and (b) where
            # tracklib's minCircle returned None (the code then writes 0).
            R = g["R"]
            none = {(i, e + 1) for (i, e) in out.get("none", [])}
            loose = {(i, e + 1) for (i, e, _) in out.get("loose", [])}
            strict = FINDING_LOOSE in self.listed      # until the finding is listed such a cell is not judged
            bad_loose = []
            if len(out["C"]) != n or any(len(r) != n for r in out["C"]):
                return "findStopsGlobal's reward matrix is not %d x %d" % (n, n)
            Mx = [[Fraction(0)] * n for _ in range(n)]     # what the code was asked to maximise
            Dx = [[Fraction(0)] * n for _ in range(n)]     # the documented criterion
            bad = []
            for a in range(n):
                for b in range(n):
                    v = Fraction(out["C"][a][b])
                    lo, hi = min(a, b), max(a, b)
                    if v != Fraction(out["C"][b][a]):
                        return "findStopsGlobal passes an asymmetric matrix"
                    Mx[a][b] = v
                    Dx[a][b] = Fraction(R[a][b])
                    if lo < hi and g["fuzzy"][lo][hi - 1] and v in (0, (hi - lo) ** 2):
                        Dx[a][b] = v
                    elif v == 0 and (lo, hi) in none:
                        pass
                    elif v != R[a][b] and (lo, hi) in loose and v in (0, (hi - lo) ** 2):
                        if strict:
                            bad_loose.append((a, b, float(v), R[a][b]))
                        else:
                            Dx[a][b] = v
                    elif v != R[a][b]:
                        bad.append((a, b, float(v), R[a][b]))
            if bad_loose and not bad:
                return ("findStopsGlobal's reward matrix differs from the documented criterion recomputed from the track: (row, column, "
                        "passed, criterion) = %s — minCircle returned a circle that does not enclose the segment(s) %s" % (
                            bad_loose[:4], sorted({(min(a, b), max(a, b) - 1) for a, b, _, _ in bad_loose})[:4]))
            if bad:
                return "findStopsGlobal's reward matrix differs from the documented criterion recomputed from the track: (row, column, passed, criterion) = %s" % (bad[:4],)
            r = oracle(Mx, n - 1, True, out["idx"], 0, "summed reward")
            if r:
                return r
            r = oracle(Dx, n - 1, True, out["idx"], 0, "summed documented reward")
            if r:
                lost = sorted((a, b - 1) for (a, b) in none if Dx[a][b] != 0)
                return "%s — minCircle returned None for the segment(s) %s, which the documented criterion rewards" % (r, lost)
            if out.get("raised_after"):
                eff = g["eff"]
                idx = out["idx"]
                allnan = [(a, b - 1) for a, b in zip(idx, idx[1:]) if Dx[a][b] != 0 and all(eff[k][2] is None for k in range(a, b))]
                return "findStopsGlobal raised %s after the segmentation %s was computed%s" % (
                    out["raised_after"], idx,
                    ": every altitude of the stop(s) %s is NaN and the mean of no value divides by zero" % allnan if allnan else "")
            return self.spec_reported(case, g, out, Dx)
        return None

    def spec_reported(self, case, g, out, Dx):
        """The stops RETURNED realise the optimum of the documented criterion: they are disjoint segments in increasing order
        (id_ini, id_end = first and last observation of the stop, times `downsampling` as the function writes them) whose
        summed documented reward is the maximum over all partitions. Not judged where the function leaves it open or doubles
        decide: downsampling <= 0 (the identifiers are all 0), a circle whose exact diameter is the limit on the selected
        segments; a stop lost because minCircle returned None in the final filter is the known finding."""
        n = g["n"]
        ds = Fraction(case.get("ds", 1))
        if case.get("form") == "dispatch":
            # findStops(track, spatial, temporal, MODE_STOPS_GLOBAL[, verbose]): no downsampling was asked for — the stops are to
            # be identified in the track itself, whatever `verbose` is (case["ds"] is the verbose flag of this form)
            ds = Fraction(1)
        if not ds > 0:
            return None
        idx = out["idx"]
        if any(g["fuzzy"][a][b - 1] for a, b in zip(idx, idx[1:])):
            return None
        segs, last = [], -1
        for st in out["stops"]:
            a, e = Fraction(st[0]) / ds, Fraction(st[1]) / ds
            if a.denominator != 1 or e.denominator != 1 or not (last < a <= e <= n - 3):
                return "stops reported %s: (id_ini, id_end) / downsampling are not disjoint segments of the candidates 0..%d in increasing order%s" % (
                    out["stops"], n - 2, "")
            segs.append((int(a), int(e)))
            last = e
        got = sum((Dx[a][e + 1] for a, e in segs), Fraction(0))
        best, arg = brute(Dx, n - 1, True)
        if got < best:
            lost = sorted(tuple(x) for x in out.get("none_after", []) if Dx[x[0]][x[1] + 1] != 0 and tuple(x) not in segs)
            msg = "the stops reported %s realise a summed documented reward %s but the partition %s has %s" % (
                [list(x) for x in segs], float(got), arg, float(best))
            if lost:
                msg += " — minCircle returned None for the segment(s) %s, which the documented criterion rewards" % (lost,)
            elif out.get("loose_after") or out.get("loose"):
                if FINDING_LOOSE not in self.listed:
                    return None
                msg += " — minCircle returned a circle that does not enclose the segment(s) %s (row loops) / %s (final filter)" % (
                    [x[:2] for x in out.get("loose", [])], [x[:2] for x in out.get("loose_after", [])])
            return msg
        return None

    def classify(self, case, impl_out, msg):
        if case["kind"] == "stops" and not case.get("rtk") and msg and "minCircle returned None" in str(msg):
            return FINDING_MINCIRCLE
        if case["kind"] == "stops" and not case.get("rtk") and msg and "minCircle returned a circle that does not enclose" in str(msg):
            return FINDING_LOOSE
        if (case["kind"] == "stops" and not case.get("rtk") and msg and "every altitude of the stop(s)" in str(msg)
                and any(v == "nan" for v in case.get("z", []))):
            return FINDING_NANZ
        return None

    # ---------------------------------------------------------------- shrinking / search
    def shrink(self, case):
        k = case["kind"]
        if k == "mc":
            for i in range(len(case["pts"])):
                yield dict(case, pts=case["pts"][:i] + case["pts"][i + 1:], form="points")
            if len(case["draws"]) > 1:
                yield dict(case, draws=case["draws"][:len(case["draws"]) // 2])
            return
        if k == "sym":
            s, M = self.matrix(case)
            case = {"kind": "part", "s": "q", "mode": case["mode"], "C": M}
            k = "part"
            yield case
        if k == "part":
            if case.get("form"):
                yield {x: case[x] for x in case if x != "form"}
            if case.get("modeval") and case["modeval"] not in NEITHER:
                yield {x: case[x] for x in case if x != "modeval"}
            M = case["C"]
            n = len(M)
            if n > 4:
                for d in range(1, n - 1):
                    yield dict(case, C=[[v for j, v in enumerate(r) if j != d] for i, r in enumerate(M) if i != d])
            zero = "0" if case["s"] == "q" else 0.0
            for i in range(n):
                for j in range(i, n):
                    if M[i][j] != zero:
                        M2 = [list(r) for r in M]
                        M2[i][j] = M2[j][i] = zero
                        yield dict(case, C=M2)
        if k == "partseq":
            if len(case["modes"]) > 2:
                yield dict(case, modes=case["modes"][:-1])
                yield dict(case, modes=case["modes"][1:])
            M = case["C"]
            n = len(M)
            if n > 4:
                for d in range(1, n - 1):
                    yield dict(case, C=[[v for j, v in enumerate(r) if j != d] for i, r in enumerate(M) if i != d])
        if k == "fe":
            if case.get("form", "pos") != "pos":
                yield dict(case, form="pos")
            if case["api"] != "seg":
                yield dict(case, api="seg", form="pos")
            A = case["A"]
            n = len(A)
            if n > 4:
                for d in range(n):
                    yield dict(case, A=[[v for j, v in enumerate(r) if j != d] for i, r in enumerate(A) if i != d])
            zero = "0" if case["s"] == "q" else 0.0
            for i in range(n):
                for j in range(n):
                    if A[i][j] != zero:
                        A2 = [list(r) for r in A]
                        A2[i][j] = zero
                        yield dict(case, A=A2)
        if k == "feseq":
            if len(case["calls"]) > 1:
                for d in range(len(case["calls"])):
                    yield dict(case, calls=case["calls"][:d] + case["calls"][d + 1:])
            A = case["A"]
            n = len(A)
            if n > 4:
                for d in range(n):
                    yield dict(case, A=[[v for j, v in enumerate(r) if j != d] for i, r in enumerate(A) if i != d])
        if k == "sb" and len(case["pts"]) > 4:
            for d in range(len(case["pts"])):
                yield dict(case, pts=case["pts"][:d] + case["pts"][d + 1:])
        if k == "stops":
            for x in ("form", "ds", "twice"):
                if x in case:
                    yield {y: case[y] for y in case if y != x}
            if "z" in case:
                yield {y: case[y] for y in case if y != "z"}
                if any(v == "nan" for v in case["z"]):
                    yield dict(case, z=[0.0 if v == "nan" else v for v in case["z"]])
            if len(case["pts"]) > (6 if case.get("ds", 1) > 1 else 3):
                for d in range(len(case["pts"])):
                    c = dict(case, pts=case["pts"][:d] + case["pts"][d + 1:])
                    if "z" in case:
                        c["z"] = case["z"][:d] + case["z"][d + 1:]
                    yield c

    def search_cases(self, rng):
        out = [c for c in self.cases(rng, "quick")]
        for vals in itertools.product("01", repeat=10):
            for mode in ("min", "max"):
                out.append({"kind": "sym", "N": 5, "vals": "".join(vals), "mode": mode})
        for _ in range(3000):
            out.append(self.rand_matrix(rng, rng.randrange(3, 9), "q"))
            out.append(self.rand_matrix(rng, rng.randrange(3, 9), "f"))
            out.append(self.rand_fe(rng))
        return out

    def mutate(self, case, rng):
        k = case["kind"]
        if k in ("sym", "part"):
            s, M = self.matrix(case)
            if s != "q" or len(M) < 2:      # a 1 x 1 matrix has no partition to judge (the code raises IndexError): outside the statement
                return
            for _ in range(20):
                M2 = [list(r) for r in M]
                i = rng.randrange(len(M)); j = rng.randrange(len(M))
                M2[i][j] = M2[j][i] = ratstr(Fraction(M2[i][j]) + rng.choice([-2, -1, 1, 2]))
                for mode in ("min", "max"):
                    yield {"kind": "part", "s": "q", "mode": mode, "C": M2}
        if k == "fe":
            pool = self.GLOBS_T if case["fam"] == "weights" else self.GLOBS_Q
            for g in (pool if case["api"] != "simplify" else [["none"]]):
                for sig in ("3", "4", "4d", "var"):
                    for mode in ("min", "max"):
                        yield dict(case, glob=g, sig=sig, mode=mode)


# ---- minCircle inside the model (Model/MinCircle.lean): the two findings as theorems, and what the routine does guarantee ----
P.theorems = P.theorems + [
    ("TracklibVerif.Props.C12MinCircle", "TV.C12.mincircle_not_enclosing",
     "finding stops-mincircle-not-enclosing as a theorem about the model: for the fixes (4,0),(1,0),(3,2),(2,2) and 14 listed draws minCircle returns centre (3,1), squared radius 2, and (1,0) is at squared distance 5 of the centre — not enclosed"),
    ("TracklibVerif.Props.C12MinCircle", "TV.C12.mincircle_none",
     "finding stops-mincircle-none as a theorem about the model: five distinct fixes, three of them collinear, 23 listed draws: minCircle returns None"),
    ("TracklibVerif.Props.C12MinCircle", "TV.C12.mincircle_none_same_place",
     "a place met twice at two altitudes plus any third fix: ENUCoords.__eq__ compares the altitude, both fixes join the boundary set, None (witness draws)"),
    ("TracklibVerif.Props.C12MinCircle", "TV.C12.circle_two_minimal",
     "__circle(p,q) in exact arithmetic: both points on the circle, no disc containing both is smaller (the true minimal circle)"),
    ("TracklibVerif.Props.C12MinCircle", "TV.C12.circle_three",
     "__circle(p1,p2,p3) in exact arithmetic: None iff collinear; the random.random() perturbation branches are dead; otherwise a circle enclosing the three points — a two-point CANDIDATE (then the smallest disc containing the three points, third point strictly inside, NOT on the circle) or, with no candidate, the circle THROUGH the three points"),
    ("TracklibVerif.Props.C12MinCircle", "TV.C12.circle_three_minimal",
     "__circle(p1,p2,p3) in exact arithmetic is the TRUE minimal enclosing circle of its three points in both cases (no candidate: the circumcentre is a convex combination of the points); Welzl's recursion needs the circle with the three points ON it — they differ exactly when there is a candidate: the defect behind mincircle_not_enclosing"),
    ("TracklibVerif.Props.C12MinCircle", "TV.C12.mincircle_small",
     "inputs of 0, 1, 2 fixes, EVERY draw sequence: the zero circle at (0,0) / on the fix / the circle on the diameter of two fixes that ENUCoords.__eq__ tells apart = the true minimal circle"),
    ("TracklibVerif.Props.C12MinCircle", "TV.C12.mincircle_answer",
     "for EVERY draw sequence: the model neither runs out of fuel nor perturbs; the answer is the leaf circle of a list R' of input points and, when a circle, encloses the (up to three) points it is built on — nothing more (mincircle_not_enclosing)"),
    ("TracklibVerif.Props.C12MinCircle", "TV.C12.mincircle_none_only_collinear",
     "minCircle returns None ONLY IF three entries of the input are collinear in the plane (two may be the same place): never on a track with no three collinear fixes, whatever the draws"),
    ("TracklibVerif.Props.C12MinCircle", "TV.C12.mincircle_enclosing_is_minimal",
     "whatever the draws: an answer of minCircleOfPoints that encloses every input fix (the driver's certificate enc) is THE minimal enclosing circle; so minCircle errs only by None or by not enclosing"),
    ("TracklibVerif.Props.C12MinCircle", "TV.C12.mincircle_three",
     "at most three fixes that ENUCoords.__eq__ tells apart when they differ, EVERY draw sequence: a circle returned encloses every fix and is THE minimal enclosing circle; with mincircle_none_only_collinear: None (three collinear entries) or exact — the defect needs four fixes"),
    ("TracklibVerif.Props.C12MinCircle", "TV.C12.encloses_sound",
     "the certificate `enc` the driver evaluates on every answer of the mc stream is sound"),
]

# ---- rounded addition as the rounding of the exact sum; the dispatcher findStops ----
P.theorems = P.theorems + [
    ("TracklibVerif.Props.C12Round", "TV.C12.optimal_rounded_fl",
     "T2 for the addition a (+) b = fl(a + b), ANY rounding fl of an ordered field that is monotone and has relative error u: monotonicity of the rounded addition and of the embedding are proved, not assumed; same bound as optimal_rounded, both directions"),
    ("TracklibVerif.Props.C12Round", "TV.C12.optimal_bracketed_fl",
     "optimal_bracketed for the addition a (+) b = fl(a + b) of ANY monotone rounding fl: the monotonicity of the rounded addition is proved from that of fl"),
    ("TracklibVerif.Props.C12Collection", "TV.C12.collection_simplify_each",
     "T3: TrackCollection.simplify(cost, MODE_SIMPLIFY_FREE / _MAXIMIZE) returns, in order, simplify(track, cost, mode) of every track (each optimal for the requested direction by simplify_modes); if it raises, some simplify(track, ...) raised that exception after the earlier tracks were simplified"),
    ("TracklibVerif.Props.C12Dispatch", "TV.C12.find_stops_dispatch_verbose",
     "findStops(track, spatial, temporal, MODE_STOPS_GLOBAL[, True]) is findStopsGlobal with downsampling = 1 (verbose goes by keyword): find_stops_global applies to the dispatcher"),
    ("TracklibVerif.Props.C12Dispatch", "TV.C12.find_stops_dispatch_silent",
     "findStops(..., MODE_STOPS_GLOBAL, False) returns exactly what findStopsGlobal(track, spatial, temporal) returns (downsampling = 1, same identifiers): the statement that was false before the repair of stops-dispatch-verbose-as-downsampling"),
    ("TracklibVerif.Props.C12Dispatch", "TV.C12.find_stops_dispatch_silent_old",
     "about the documented PRE-FIX variant findStopsPyOld only (verbose passed positionally as downsampling): verbose=False reported the same stops as downsampling = 1 but with id_ini = id_end = 0 for every stop"),
    ("TracklibVerif.Props.C12MinCircleStops", "TV.C12.stops_fit_in_circle_mincircle",
     "T3 with minCircle AS MODELLED (circOfMinCircle: minCircleOfPoints on the fixes of each segment, any draw sequence per call): if the circles returned enclose their segments and the call did not return None, the reward of (a,b) is (b-a)^2 exactly when the segment lasts >= duration and fits in SOME disc of diameter <= diameter; minimality is proved, no longer assumed"),
]

# ---- TIE3: translation tie of optimalPartition's D / M tables (generated TV.Gen.Segmentation.optimalPartition_tables) ----
P.tie_modules = getattr(P, "tie_modules", []) + ["TracklibVerif.Tie.C12"]
P.theorems = P.theorems + [
    ("TracklibVerif.Tie.C12", "TV.Tie.C12.tie_optimalPartition_tables",
     "translation tie: on a matrix of rows >= 1 rows of length >= rows-1 the generated optimalPartition_tables never raises and returns the (rows-1)x(rows-1) table of the model's (tables 0 rows C m).M cast to the scalar, for every int mode and model mode m with mode=0<->m=0, mode=1<->m=1"),
    ("TracklibVerif.Tie.C12", "TV.Tie.C12.tie_optimalPartition_tables_toNat",
     "the tie in explicit list form for 0 <= mode, model mode = mode.toNat, C i j = cost_matrix[i][j]"),
    ("TracklibVerif.Tie.C12", "TV.Tie.C12.tie_optimalPartition_tables_anyMode",
     "the tie for every int mode: any mode other than 0 / 1 (negative included) behaves as the model's mode 2"),
    ("TracklibVerif.Tie.C12", "TV.Tie.C12.tie_optimalPartition_tables_empty",
     "error correspondence: the empty cost matrix raises ValueError (np.zeros((-1,-1)))"),
    ("TracklibVerif.Tie.C12", "TV.Tie.C12.initL_eq",
     "the two initialisation loops (in loop form) build the model's init tables"),
    ("TracklibVerif.Tie.C12", "TV.Tie.C12.forRange_loop",
     "a generated `for x in range(a,b)` whose body is the encoded step on encoded states runs the model's loop"),
]
