"""C12 — optimal partitioning returns a global optimum for the requested direction
(tracklib/algo/segmentation.py: optimalPartition, backtracking, backward, optimalSegmentation, findStopsGlobal;
tracklib/algo/simplification.py: optimalSimplification, simplify's two "free" modes)."""
import sys, itertools
from fractions import Fraction
from engine import Prop, fbits, bitsf, ratstr

FINDING_D19 = "simplification-maximise-not-forwarded"


# ------------------------------------------------------------------------------------------------
# oracle: enumeration of all strictly increasing chains 0 = p0 < ... < pr = N-1
# ------------------------------------------------------------------------------------------------
def chain_cost(Cx, idx):
    return sum((Cx[a][b] for a, b in zip(idx, idx[1:])), Fraction(0))


def brute(Cx, N, maximise):
    """(best exact cost, one best chain) over the 2^(N-2) chains; Cx: exact (Fraction) matrix"""
    best, arg = None, None
    inner = list(range(1, N - 1))
    for r in range(len(inner) + 1):
        for sub in itertools.combinations(inner, r):
            ch = [0] + list(sub) + [N - 1]
            c = chain_cost(Cx, ch)
            if best is None or (c > best if maximise else c < best):
                best, arg = c, ch
    return best, arg


def is_chain(idx, N):
    return (len(idx) >= 2 and idx[0] == 0 and idx[-1] == N - 1 and all(isinstance(x, int) for x in idx)
            and all(a < b for a, b in zip(idx, idx[1:])))


def oracle(Cx, N, maximise, idx, tol=0):
    if not is_chain(idx, N):
        return "result %s is not a strictly increasing list from 0 to %d" % (idx, N - 1)
    got = chain_cost(Cx, idx)
    best, arg = brute(Cx, N, maximise)
    slack = tol * max([1] + [abs(Cx[a][b]) for a in range(N) for b in range(N)]) * N if tol else 0
    if (got < best - slack) if maximise else (got > best + slack):
        return "result %s has summed segment cost %s but %s has %s (%s requested)" % (
            idx, float(got), arg, float(best), "maximum" if maximise else "minimum")
    return None


class P(Prop):
    id = "C12"
    design_ref = "DESIGN.md section 5, C12"
    theorems = [
        ("TracklibVerif.Props.C12", "TV.C12.result_shape", "T1: for every matrix with >= 2 candidates and every mode the result starts at 0, ends at N-1 and is strictly increasing"),
        ("TracklibVerif.Props.C12", "TV.C12.optimal_min", "T2: in MINIMIZE mode the summed segment cost of the result is <= that of every strictly increasing list from 0 to N-1"),
        ("TracklibVerif.Props.C12", "TV.C12.optimal_max", "T2: in MAXIMIZE mode it is >= that of every such list"),
        ("TracklibVerif.Props.C12", "TV.C12.table_value", "the in-place D/M table programme (run by the driver) computes the interval recursion opt; D[0,N-1] is the cost of the returned list"),
        ("TracklibVerif.Props.C12", "TV.C12.array_form", "the programme on real 2-D arrays (what the driver runs) returns the same list and tables as the function-table form"),
        ("TracklibVerif.Props.C12", "TV.C12.segmentation_optimal", "T3: optimalSegmentation's result is a chain 0..size-2 optimal in the requested direction for the costs cost(track,a,b-1)"),
        ("TracklibVerif.Props.C12", "TV.C12.segmentation_optimal_min", "T3: minimising instance"),
        ("TracklibVerif.Props.C12", "TV.C12.segmentation_optimal_max", "T3: maximising instance"),
        ("TracklibVerif.Props.C12", "TV.C12.simplification_selects", "T3: optimalSimplification keeps the observations selected by the MINIMISING optimalSegmentation whatever mode is (mode not forwarded: D19)"),
        ("TracklibVerif.Props.C12", "TV.C12.simplify_free", "simplify MODE_SIMPLIFY_FREE is that selection; MODE_SIMPLIFY_FREE_MAXIMIZE raises"),
    ]
    partial = []
    open_statements = ["findStopsGlobal's matrix construction (minimal enclosing circles) is not modelled: the check intercepts the matrix and mode it passes to optimalPartition and applies the oracle to that call",
                       "the theorems are over a linearly ordered additive commutative monoid; for IEEE doubles (non-associative +) optimality up to rounding is sampled by the transfer check (1e-9 relative)",
                       "the maximising direction of the simplification front end does not hold on this tree (finding D19, class simplification-maximise-not-forwarded)"]
    modelled = ("segmentation.optimalPartition (N = rows-1, D/M tables filled by increasing diagonals, both direction tests as written), "
                "backtracking, backward, optimalSegmentation's matrix build; simplification.optimalSimplification (mode not forwarded) and "
                "simplify() for MODE_SIMPLIFY_FREE / MODE_SIMPLIFY_FREE_MAXIMIZE; findStopsGlobal's call is observed (matrix and mode it passes)")
    rule = ("all {0,1,2}-valued symmetric matrices over N <= 4 (quick) / <= 5 (thorough) candidates and all {0,1}-valued for N = 6 (thorough), "
            "both directions; random symmetric matrices up to N = 12 over small integers / dyadic rationals (exact, model at Rat) and over doubles "
            "(model at Float, bit patterns), negative entries included, the unused last row/column filled with junk; optimalSegmentation / "
            "optimalSimplification / simplify on tracks with a table-driven cost function; findStopsGlobal on small random tracks with the "
            "delegated call intercepted. Oracle: enumeration of all 2^(N-2) chains in exact arithmetic, costs compared (ties may pick another chain). "
            "non-trivial = at least 3 candidates (so that at least one alternative chain exists)")

    def setup(self):
        import importlib
        import numpy as np
        importlib.import_module("tracklib.algo.segmentation")
        importlib.import_module("tracklib.algo.simplification")
        self.S = sys.modules["tracklib.algo.segmentation"]
        self.Z = sys.modules["tracklib.algo.simplification"]
        self.np = np
        from tracklib.core import Obs, ENUCoords, ObsTime
        from tracklib.core.track import Track
        self.Obs, self.ENU, self.T, self.Track = Obs, ENUCoords, ObsTime, Track
        self.MODES = {"min": self.S.MODE_SEGMENTATION_MINIMIZE, "max": self.S.MODE_SEGMENTATION_MAXIMIZE}

    # ---------------------------------------------------------------- generators
    def exhaustive_scopes(self, tier):
        if tier == "thorough":
            return ["all {0,1,2}-valued symmetric matrices for N = 2..5 candidates x both directions",
                    "all {0,1}-valued symmetric matrices for N = 6 candidates x both directions"]
        return ["all {0,1,2}-valued symmetric matrices for N = 2..4 candidates x both directions"]

    def cases(self, rng, tier):
        out = []
        nmax = 5 if tier == "thorough" else 4
        for N in range(2, nmax + 1):
            for vals in itertools.product("012", repeat=N * (N - 1) // 2):
                for mode in ("min", "max"):
                    out.append({"kind": "sym", "N": N, "vals": "".join(vals), "mode": mode})
        if tier == "thorough":
            for vals in itertools.product("01", repeat=15):
                for mode in ("min", "max"):
                    out.append({"kind": "sym", "N": 6, "vals": "".join(vals), "mode": mode})
        nrand = 1200 if tier == "quick" else 20000
        for _ in range(nrand):
            N = rng.choice([rng.randrange(2, 13), rng.randrange(3, 8)])
            out.append(self.rand_matrix(rng, N, "q"))
            out.append(self.rand_matrix(rng, N, "f"))
        for _ in range(60 if tier == "quick" else 600):   # malformed: single candidate / no candidate / asymmetric
            r = rng.random()
            if r < 0.3:
                out.append({"kind": "part", "s": "q", "mode": rng.choice(["min", "max"]), "C": [["0", "3"], ["3", "0"]], "dom": "single"})
            elif r < 0.5:
                out.append({"kind": "part", "s": "q", "mode": rng.choice(["min", "max"]), "C": [["1"]], "dom": "none"})
            else:
                c = self.rand_matrix(rng, rng.randrange(3, 8), "q")
                n = len(c["C"])
                for i in range(n):
                    for j in range(i):
                        c["C"][i][j] = ratstr(rng.randrange(-5, 9))
                c["dom"] = "asym"
                out.append(c)
        for _ in range(500 if tier == "quick" else 8000):
            n = rng.randrange(3, 10)
            W = [[rng.choice([0, 1, 2, 3, 5, 8, -1, rng.randrange(-4, 12)]) for _ in range(n)] for _ in range(n)]
            r = rng.random()
            if r < 0.5:
                out.append({"kind": "seg", "W": W, "mode": rng.choice(["min", "max"]), "glob": rng.random() < 0.5})
            elif r < 0.8:
                out.append({"kind": "simp", "W": W, "mode": "min"})
            else:
                out.append({"kind": "simplify", "W": W, "mode": "min", "verbose": rng.random() < 0.5})
        for _ in range(6 if tier == "quick" else 40):
            # the documented maximising variants of the simplification front end (finding D19 on this tree)
            n = rng.randrange(4, 8)
            W = [[rng.randrange(0, 9) for _ in range(n)] for _ in range(n)]
            out.append({"kind": rng.choice(["simp", "simplify"]), "W": W, "mode": "max"})
        for _ in range(60 if tier == "quick" else 600):
            out.append(self.rand_stops(rng))
        return out

    def rand_matrix(self, rng, N, s):
        rows = N + 1
        style = rng.randrange(5)
        def ent():
            if s == "q":
                if style == 0:
                    return Fraction(rng.randrange(0, 4))
                if style == 1:
                    return Fraction(rng.randrange(-6, 7))
                if style == 2:
                    return Fraction(rng.randrange(0, 2000), 8)
                if style == 3:
                    return Fraction(rng.choice([0, 0, 1, 4, 9, 16, 25]))
                return Fraction(rng.randrange(-64, 65), 4)
            if style == 0:
                return rng.uniform(0, 1)
            if style == 1:
                return rng.gauss(0, 10)
            if style == 2:
                return rng.uniform(0, 1e6)
            if style == 3:
                return float(rng.randrange(0, 5))
            return rng.uniform(-1, 1) * 10 ** rng.randrange(-3, 6)
        M = [[None] * rows for _ in range(rows)]
        for i in range(rows):
            for j in range(i, rows):
                v = ent()
                if i == j and rng.random() < 0.7:
                    v = Fraction(0) if s == "q" else 0.0
                M[i][j] = M[j][i] = v
        if s == "q":
            M = [[ratstr(v) for v in r] for r in M]
        return {"kind": "part", "s": s, "mode": rng.choice(["min", "max"]), "C": M}

    def rand_stops(self, rng):
        n = rng.randrange(4, 12)
        pts, x, y, t = [], 0.0, 0.0, 0
        for _ in range(n):
            if rng.random() < 0.6:
                x += rng.choice([0, 1, -1, 2]); y += rng.choice([0, 1, -1])
            else:
                x += rng.randrange(10, 60); y += rng.randrange(-30, 30)
            t += rng.choice([1, 5, 10, 30])
            pts.append([x, y, t])
        return {"kind": "stops", "pts": pts, "diameter": rng.choice([5, 10, 20]), "duration": rng.choice([0, 5, 10, 30])}

    def describe(self, case):
        t = {"kind": case["kind"], "mode": case.get("mode", "-")}
        if case["kind"] == "sym":
            t["N"] = case["N"]
        if case["kind"] == "part":
            t["N"] = len(case["C"]) - 1
            t["scalar"] = case["s"]
            t["domain"] = case.get("dom", "in")
        return t

    def nontrivial(self, case):
        k = case["kind"]
        if k == "sym":
            return case["N"] >= 3
        if k == "part":
            return len(case["C"]) - 1 >= 3 and not case.get("dom")
        if k == "stops":
            return len(case["pts"]) >= 4
        return len(case["W"]) - 1 >= 3

    # ---------------------------------------------------------------- matrices
    def matrix(self, case):
        """(scalar kind, matrix of tokens/floats with rows = N + 1)"""
        if case["kind"] == "sym":
            N = case["N"]
            M = [["0"] * (N + 1) for _ in range(N + 1)]
            it = iter(case["vals"])
            for i in range(N):
                for j in range(i + 1, N):
                    M[i][j] = M[j][i] = next(it)
            return "q", M
        return case["s"], case["C"]

    def exact(self, s, M):
        return [[Fraction(v) for v in r] for r in M]

    def track(self, n):
        t = self.Track([], 7)
        for i in range(n):
            t.addObs(self.Obs(self.ENU(float(i), 0.0, 0.0), self.T.readUnixTime(i)))
        return t

    # ---------------------------------------------------------------- implementation
    def impl(self, case):
        k = case["kind"]
        np = self.np
        if k in ("sym", "part"):
            s, M = self.matrix(case)
            C = np.array([[float(Fraction(v)) if s == "q" else float(v) for v in r] for r in M], dtype=float).reshape(len(M), len(M))
            before = C.copy()
            idx = [int(x) for x in self.S.optimalPartition(C, self.MODES[case["mode"]], False)]
            if not (C == before).all():
                raise ValueError("optimalPartition modified its cost matrix")
            return {"idx": idx, "cost": self.cost_token(s, M, idx)}
        if k in ("seg", "simp", "simplify"):
            W = case["W"]
            n = len(W)
            t = self.track(n)
            calls = []

            def cost3(track, i, e):
                calls.append((i, e))
                return W[i][e + 1]

            def cost4(track, i, e, g):
                if g != "G":
                    raise ValueError("glob_param not passed through")
                calls.append((i, e))
                return W[i][e + 1]
            if k == "seg":
                if case.get("glob"):
                    idx = self.S.optimalSegmentation(t, cost4, "G", self.MODES[case["mode"]], False)
                else:
                    idx = self.S.optimalSegmentation(t, cost3, None, self.MODES[case["mode"]], False)
                return {"idx": [int(x) for x in idx]}
            if k == "simp":
                r = self.Z.optimalSimplification(t, cost4, "G", self.MODES[case["mode"]])
            else:
                mode = self.Z.MODE_SIMPLIFY_FREE if case["mode"] == "min" else self.Z.MODE_SIMPLIFY_FREE_MAXIMIZE
                r = self.Z.simplify(t, cost3, mode, bool(case.get("verbose", False)))
            return {"idx": [int(r.getObs(i).position.getX()) for i in range(r.size())]}
        if k == "stops":
            cap = self.capture_stops(case)
            return cap
        raise ValueError(k)

    def capture_stops(self, case):
        """run findStopsGlobal with its call to optimalPartition intercepted: (matrix, mode, result) of the delegation"""
        t = self.Track([], 7)
        for (x, y, ts) in case["pts"]:
            t.addObs(self.Obs(self.ENU(float(x), float(y), 0.0), self.T.readUnixTime(ts)))
        rec = {}
        real = self.S.optimalPartition

        def spy(C, mode=self.S.MODE_SEGMENTATION_MINIMIZE, verbose=True):
            r = real(C, mode, verbose)
            rec["C"] = [[float(v) for v in row] for row in C.tolist()]
            rec["mode"] = int(mode)
            rec["idx"] = [int(x) for x in r]
            return r
        # minCircle perturbs degenerate point triples with the global `random`: make the run a function of the case,
        # so that the matrix captured for the model request is the one the implementation output was computed from
        import random as _random, json as _json, zlib as _zlib
        state = _random.getstate()
        _random.seed(_zlib.crc32(_json.dumps(case, sort_keys=True).encode()))
        self.S.optimalPartition = spy
        try:
            self.S.findStopsGlobal(t, case["diameter"], case["duration"], 1, False)
        finally:
            self.S.optimalPartition = real
            _random.setstate(state)
        if "C" not in rec:
            raise ValueError("findStopsGlobal did not call optimalPartition")
        return rec

    def cost_token(self, s, M, idx):
        if s == "q":
            return ratstr(chain_cost(self.exact(s, M), idx))
        c = 0.0
        for a, b in zip(idx, idx[1:]):
            c += float(M[a][b])
        return c

    # ---------------------------------------------------------------- model
    def mtok(self, s, M):
        if s == "q":
            return ";".join(",".join(str(v) for v in r) for r in M)
        return ";".join(",".join(fbits(v) for v in r) for r in M)

    def requests(self, case):
        k = case["kind"]
        if k in ("sym", "part"):
            s, M = self.matrix(case)
            m = int(self.MODES[case["mode"]])
            reqs = ["C12.part %s %d %s" % (s, m, self.mtok(s, M) or "_")]
            if len(M) <= 10:   # the function form (un-memoised recursion, exponential) is cross-checked up to N = 9
                reqs.append("C12.opt %s %d %s" % (s, m, self.mtok(s, M) or "_"))
            return reqs
        if k in ("seg", "simp"):
            return ["C12.%s q %d %s" % (k, int(self.MODES[case["mode"]]), self.mtok("q", case["W"]))]
        if k == "simplify":
            return ["C12.simplify q %d %s" % (7 if case["mode"] == "min" else 8, self.mtok("q", case["W"]))]
        if k == "stops":
            cap = self.run_capture(case)
            if "err" in cap:
                return ["C12.part q 0 0,0;0,0"]
            M = [[ratstr(Fraction(v)) for v in r] for r in cap["C"]]
            return ["C12.part q %d %s" % (cap["mode"], self.mtok("q", M))]

    def run_capture(self, case):
        import engine
        return engine.run_impl(self, case)

    def decode(self, case, replies):
        k = case["kind"]
        r = replies[0]
        if r == "bad-request":
            raise ValueError("bad-request")
        if r.startswith("err:"):
            return {"err": r}
        if k in ("sym", "part"):
            s, _ = self.matrix(case)
            idx, d = r.split(" ")
            if len(replies) > 1 and replies[1] != d:
                raise ValueError("table form D[0,N-1]=%s differs from function form opt=%s" % (d, replies[1]))
            return {"idx": [int(x) for x in idx.split(",")], "cost": d if s == "q" else bitsf(d)}
        if k == "stops":
            return {"idx": [int(x) for x in r.split(" ")[0].split(",")]}
        return {"idx": [] if r == "_" else [int(x) for x in r.split(",")]}

    def compare(self, case, impl_out, model_out):
        if case.get("dom"):
            return None   # single/no candidate, asymmetric matrix: outside the property's domain, behaviour left free
        if self.classify(case, impl_out, None) and self.spec(case, impl_out) is None:
            # the model mirrors finding D19 (direction not forwarded / TypeError); an implementation in which the
            # defect has been repaired answers what the property asks for, which is not a disagreement to report
            return None
        if "err" in impl_out or "err" in model_out:
            if impl_out.get("err") == model_out.get("err"):
                return None
            return "impl=%s model=%s" % (impl_out, model_out)
        k = case["kind"]
        if k in ("sym", "part"):
            s, M = self.matrix(case)
            if s == "q":
                same_cost = Fraction(impl_out["cost"]) == Fraction(model_out["cost"])
            else:
                a, b = float(impl_out["cost"]), float(model_out["cost"])
                same_cost = abs(a - b) <= 1e-9 * max(1.0, abs(a), abs(b))
            if impl_out["idx"] == model_out["idx"] and same_cost:
                return None
            # a different chain of the same cost is a tie-break difference, which the property leaves free
            if same_cost and is_chain(impl_out["idx"], len(M) - 1):
                return None
            return "impl=%s model=%s" % (impl_out, model_out)
        if impl_out["idx"] == model_out["idx"]:
            return None
        # front ends: same rule, the cost of both selections is recomputed exactly from the case's cost table
        Cx = [[Fraction(v) for v in r] for r in (impl_out["C"] if k == "stops" else case["W"])]
        N = len(Cx) - 1
        if (is_chain(impl_out["idx"], N) and is_chain(model_out["idx"], N)
                and chain_cost(Cx, impl_out["idx"]) == chain_cost(Cx, model_out["idx"])):
            return None
        return "impl=%s model=%s" % (impl_out["idx"], model_out["idx"])

    # ---------------------------------------------------------------- oracle (transfer)
    def requested_max(self, case):
        return case["mode"] == "max"

    def spec(self, case, out):
        k = case["kind"]
        if case.get("dom"):
            return None
        if "err" in out:
            return "raised %s (%s)" % (out["err"], out.get("detail"))
        if k in ("sym", "part"):
            s, M = self.matrix(case)
            Cx = self.exact(s, M)
            return oracle(Cx, len(M) - 1, self.requested_max(case), out["idx"], 0 if s == "q" else 1e-9)
        if k in ("seg", "simp", "simplify"):
            W = case["W"]
            N = len(W) - 1
            Cx = [[Fraction(v) for v in r] for r in W]   # segment (i, j) costs cost(track, i, j-1) = W[i][j], i < j
            return oracle(Cx, N, self.requested_max(case), out["idx"])
        if k == "stops":
            # documented criterion of stop detection: maximise the summed reward matrix it builds
            if out["mode"] != int(self.S.MODE_SEGMENTATION_MAXIMIZE):
                return "findStopsGlobal delegates with mode %s instead of MAXIMIZE" % out["mode"]
            Cx = [[Fraction(v) for v in r] for r in out["C"]]
            if any(Cx[i][j] != Cx[j][i] for i in range(len(Cx)) for j in range(len(Cx))):
                return "findStopsGlobal passes an asymmetric matrix"
            return oracle(Cx, len(Cx) - 1, True, out["idx"])
        return None

    def classify(self, case, impl_out, msg):
        if case["kind"] in ("simp", "simplify") and case.get("mode") == "max":
            return FINDING_D19
        return None

    # ---------------------------------------------------------------- shrinking / search
    def shrink(self, case):
        k = case["kind"]
        if k == "sym":
            s, M = self.matrix(case)
            case = {"kind": "part", "s": "q", "mode": case["mode"], "C": M}
            k = "part"
            yield case
        if k == "part":
            M = case["C"]
            n = len(M)
            if n > 4:
                for d in range(1, n - 1):
                    yield dict(case, C=[[v for j, v in enumerate(r) if j != d] for i, r in enumerate(M) if i != d])
            zero = "0" if case["s"] == "q" else 0.0
            for i in range(n):
                for j in range(i, n):
                    if M[i][j] != zero:
                        M2 = [list(r) for r in M]
                        M2[i][j] = M2[j][i] = zero
                        yield dict(case, C=M2)
        if k in ("seg", "simp", "simplify"):
            W = case["W"]
            n = len(W)
            if n > 4:
                for d in range(n):
                    yield dict(case, W=[[v for j, v in enumerate(r) if j != d] for i, r in enumerate(W) if i != d])
            for i in range(n):
                for j in range(n):
                    if W[i][j] != 0:
                        W2 = [list(r) for r in W]
                        W2[i][j] = 0
                        yield dict(case, W=W2)
        if k == "stops" and len(case["pts"]) > 4:
            for d in range(len(case["pts"])):
                yield dict(case, pts=case["pts"][:d] + case["pts"][d + 1:])

    def search_cases(self, rng):
        out = [c for c in self.cases(rng, "quick")]
        for vals in itertools.product("01", repeat=10):
            for mode in ("min", "max"):
                out.append({"kind": "sym", "N": 5, "vals": "".join(vals), "mode": mode})
        for _ in range(3000):
            out.append(self.rand_matrix(rng, rng.randrange(3, 9), "q"))
        return out

    def mutate(self, case, rng):
        k = case["kind"]
        if k in ("sym", "part"):
            s, M = self.matrix(case)
            if s != "q":
                return
            for _ in range(20):
                M2 = [list(r) for r in M]
                i = rng.randrange(len(M)); j = rng.randrange(len(M))
                M2[i][j] = M2[j][i] = ratstr(Fraction(M2[i][j]) + rng.choice([-2, -1, 1, 2]))
                for mode in ("min", "max"):
                    yield {"kind": "part", "s": "q", "mode": mode, "C": M2}
